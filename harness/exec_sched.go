package main

// C17: TLC-enumerated schedules forced on real goroutines. Model.GetOperator (an exported field) is wrapped so that every
// operator a Run obtains is a spy delegating to the real one; the spy's Init blocks until the scheduler grants that Run its
// next node, and its Apply reports the node's completion. Token r: Run r executes its next node alone; token 0: both Runs
// execute their next node at the same time.

import (
	"bytes"
	"encoding/json"
	"fmt"
	"runtime"
	"strconv"
	"sync"
	"sync/atomic"
	"time"

	"github.com/advancedclimatesystems/gonnx"
	"github.com/advancedclimatesystems/gonnx/onnx"
	"github.com/advancedclimatesystems/gonnx/ops"
	"gorgonia.org/tensor"
)

func init() { execKinds["sched"] = execSchedCase }

type schedRun struct {
	Ins     tensorMap `json:"ins"`
	Allowed Allowed   `json:"allowed"`
}

type schedCase struct {
	Model    mModel     `json:"model"`
	Runs     []schedRun `json:"runs"`
	Schedule []int      `json:"schedule"`
}

func goid() int64 {
	var buf [64]byte
	n := runtime.Stack(buf[:], false)
	// "goroutine 123 [running]:"
	f := bytes.Fields(buf[:n])
	if len(f) < 2 {
		return -1
	}
	id, _ := strconv.ParseInt(string(f[1]), 10, 64)
	return id
}

// schedHung: a Run of some case of this process did not return
var schedHung atomic.Bool

// gateWait: how long the scheduler and the spy wait for each other before they go on regardless
func gateWait() time.Duration {
	if schedHung.Load() {
		return 50 * time.Millisecond
	}
	return 5 * time.Second
}

type gate struct {
	mu     sync.Mutex
	runOf  map[int64]int   // goroutine id -> run index (0-based)
	permit []chan struct{} // scheduler -> run: execute your next node
	done   []chan struct{} // run -> scheduler: node finished (Apply returned, or Init / ValidateInputs failed)
	free   bool            // schedule exhausted: run freely
	nodes  int             // nodes observed by the spy (liveness canary)
}

func (g *gate) runIndex() int {
	g.mu.Lock()
	defer g.mu.Unlock()
	if r, ok := g.runOf[goid()]; ok {
		return r
	}
	return -1
}

type spyOp struct {
	ops.Operator
	g        *gate
	run      int
	signaled bool
}

func (s *spyOp) signal() {
	if s.run >= 0 && !s.signaled {
		s.signaled = true
		s.g.mu.Lock()
		free := s.g.free
		s.g.mu.Unlock()
		if !free {
			select {
			case s.g.done[s.run] <- struct{}{}:
			case <-time.After(gateWait()):
			}
		}
	}
}

func (s *spyOp) Init(n *onnx.NodeProto) error {
	if s.run >= 0 {
		s.g.mu.Lock()
		free := s.g.free
		s.g.mu.Unlock()
		if !free {
			select {
			case <-s.g.permit[s.run]:
			case <-time.After(gateWait()):
			}
		}
	}
	err := s.Operator.Init(n)
	if err != nil {
		s.signal()
	}
	return err
}

func (s *spyOp) ValidateInputs(in []tensor.Tensor) ([]tensor.Tensor, error) {
	out, err := s.Operator.ValidateInputs(in)
	if err != nil {
		s.signal()
	}
	return out, err
}

func (s *spyOp) Apply(in []tensor.Tensor) (out []tensor.Tensor, err error) {
	s.g.mu.Lock()
	s.g.nodes++
	s.g.mu.Unlock()
	defer s.signal()
	return s.Operator.Apply(in)
}

func execSchedCase(c *Case) []ModeResult {
	var sc schedCase
	if err := json.Unmarshal(c.X, &sc); err != nil {
		return []ModeResult{{"sched", "infra:" + err.Error(), ""}}
	}
	bytesModel, err := buildModel(sc.Model)
	if err != nil {
		return []ModeResult{{"sched", "infra:" + err.Error(), ""}}
	}
	model, err := gonnx.NewModelFromBytes(bytesModel)
	if err != nil {
		return []ModeResult{{"load", "violation:model could not be loaded: " + err.Error(), ""}}
	}
	n := len(sc.Runs)
	g := &gate{runOf: map[int64]int{}, permit: make([]chan struct{}, n), done: make([]chan struct{}, n)}
	for i := range g.permit {
		g.permit[i] = make(chan struct{}, 64)
		g.done[i] = make(chan struct{}, 64)
	}
	orig := model.GetOperator
	model.GetOperator = func(name string) (ops.Operator, error) {
		op, err := orig(name)
		if err != nil {
			return nil, err
		}
		return &spyOp{Operator: op, g: g, run: g.runIndex()}, nil
	}
	beforeW := snapshotMap(model.VerifParameters())
	feeds := make([]gonnx.Tensors, n)
	befores := make([]map[string]Snapshot, n)
	for r, run := range sc.Runs {
		feeds[r] = gonnx.Tensors{}
		for name, at := range run.Ins {
			t, err := MkTensor(at)
			if err != nil {
				return []ModeResult{{"sched", "infra:" + err.Error(), ""}}
			}
			feeds[r][name] = t
		}
		befores[r] = snapshotMap(feeds[r])
	}
	obs := make([]Observation, n)
	finished := make([]chan struct{}, n)
	var wg sync.WaitGroup
	for r := 0; r < n; r++ {
		finished[r] = make(chan struct{})
		wg.Add(1)
		go func(r int) {
			defer wg.Done()
			defer close(finished[r])
			g.mu.Lock()
			g.runOf[goid()] = r
			g.mu.Unlock()
			obs[r] = runCall(model, sc.Model.Outputs, feeds[r])
		}(r)
	}
	// a concurrent loader: loading further models must not disturb the Runs
	stopLoad := make(chan struct{})
	var loadErr error
	wg.Add(1)
	go func() {
		defer wg.Done()
		for {
			select {
			case <-stopLoad:
				return
			default:
			}
			if _, err := gonnx.NewModelFromBytes(bytesModel); err != nil {
				loadErr = err
				return
			}
		}
	}()
	waitNode := func(r int) {
		select {
		case <-g.done[r]:
		case <-finished[r]:
		case <-time.After(gateWait()):
		}
	}
	for _, tok := range sc.Schedule {
		if tok == 0 {
			for r := 0; r < n; r++ {
				g.permit[r] <- struct{}{}
			}
			for r := 0; r < n; r++ {
				waitNode(r)
			}
		} else if tok >= 1 && tok <= n {
			g.permit[tok-1] <- struct{}{}
			waitNode(tok - 1)
		}
	}
	g.mu.Lock()
	g.free = true
	g.mu.Unlock()
	for r := 0; r < n; r++ {
		// release anything still waiting
		for k := 0; k < 8; k++ {
			select {
			case g.permit[r] <- struct{}{}:
			default:
			}
		}
	}
	// every node has been permitted: a Run takes milliseconds from here. One that has not returned after two minutes is blocked
	// inside the library (nothing of the harness holds it any more) - Runs that do not return are reported, not waited for
	for r := 0; r < n; r++ {
		wait := 120 * time.Second
		if schedHung.Load() {
			wait = 3 * time.Second // the process already holds Runs that never return: the remaining cases are not waited for at length
		}
		select {
		case <-finished[r]:
		case <-time.After(wait):
			schedHung.Store(true)
			close(stopLoad)
			return []ModeResult{{fmt.Sprintf("run%d", r+1), fmt.Sprintf("violation:Run %d of %d concurrent Runs did not return within 120 seconds after its last node was released: it is blocked inside the library", r+1, n), ""}}
		}
	}
	close(stopLoad)
	wg.Wait()
	var res []ModeResult
	for r := 0; r < n; r++ {
		cc := &Case{Allowed: sc.Runs[r].Allowed, Cmp: c.Cmp}
		res = append(res, ModeResult{fmt.Sprintf("run%d", r+1), Verdict(cc, obs[r]), obs[r].Short()})
		if d := diffSnapshotMaps(befores[r], snapshotMap(feeds[r])); d != "" {
			res = append(res, ModeResult{fmt.Sprintf("run%d:inputs", r+1), "violation:a concurrent Run modified a caller tensor: " + d, ""})
		}
	}
	if d := diffSnapshotMaps(beforeW, snapshotMap(model.VerifParameters())); d != "" {
		res = append(res, ModeResult{"weights", "violation:concurrent Runs modified a weight: " + d, ""})
	}
	if g.nodes == 0 && len(sc.Model.Nodes) > 0 {
		// the spy saw nothing: the observation mechanism is broken, which is not a verdict about the code
		res = append(res, ModeResult{"canary", "infra:the spy operator observed no node", ""})
	}
	if loadErr != nil {
		res = append(res, ModeResult{"loader", "violation:concurrent NewModelFromBytes failed: " + loadErr.Error(), ""})
	}
	return res
}
