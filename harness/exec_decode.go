package main

// C12: TensorProto decoding, observed through onnx.TensorFromProto and through NewModelFromBytes + Run of a
// node-less graph whose output is the initializer.

import (
	"archive/zip"
	"bytes"
	"encoding/binary"
	"encoding/json"
	"fmt"
	"math"
	"strings"
	"sync"
	"unsafe"

	"github.com/advancedclimatesystems/gonnx"
	"github.com/advancedclimatesystems/gonnx/onnx"
	"google.golang.org/protobuf/proto"
	"gorgonia.org/tensor"
)

func init() { execKinds["decode"] = execDecodeCase }

type protoX struct {
	Code  int32   `json:"code"`
	Dims  []int64 `json:"dims"`
	Enc   string  `json:"enc"`
	Field string  `json:"field"`
	Raw   []int   `json:"raw"`
	Vals  [][]int `json:"vals"`
	// BigDims[i], when non-empty, replaces Dims[i] by the little-endian base-65536 number it spells (dims beyond TLC's integers)
	BigDims [][]int `json:"bigdims"`
}

func le(b []int) uint64 {
	var u uint64
	for i := len(b) - 1; i >= 0; i-- {
		u = u<<8 | uint64(byte(b[i]))
	}
	return u
}

func mkProtoX(x protoX, name string) *onnx.TensorProto {
	tp := &onnx.TensorProto{Name: name, DataType: x.Code, Dims: append([]int64(nil), x.Dims...)}
	for i, digits := range x.BigDims {
		if len(digits) > 0 && i < len(tp.Dims) {
			var u uint64
			for k := len(digits) - 1; k >= 0; k-- {
				u = u<<16 | uint64(uint16(digits[k]))
			}
			tp.Dims[i] = int64(u)
		}
	}
	if len(x.Raw) > 0 {
		tp.RawData = make([]byte, len(x.Raw))
		for i, v := range x.Raw {
			tp.RawData[i] = byte(v)
		}
	}
	for _, v := range x.Vals {
		u := le(v)
		switch x.Field {
		case "float_data":
			tp.FloatData = append(tp.FloatData, math.Float32frombits(uint32(u)))
		case "double_data":
			tp.DoubleData = append(tp.DoubleData, math.Float64frombits(u))
		case "int32_data":
			tp.Int32Data = append(tp.Int32Data, int32(uint32(u)))
		case "int64_data":
			tp.Int64Data = append(tp.Int64Data, int64(u))
		case "uint64_data":
			tp.Uint64Data = append(tp.Uint64Data, u)
		}
	}
	return tp
}

var _ = binary.LittleEndian

func execDecodeCase(c *Case) []ModeResult {
	var x protoX
	if err := json.Unmarshal(c.X, &x); err != nil {
		return []ModeResult{{"decode", "infra:" + err.Error(), ""}}
	}
	a := guard(func() Observation {
		t, err := onnx.TensorFromProto(mkProtoX(x, "w"))
		if err != nil {
			return observeErr(err)
		}
		return valueObs([]tensor.Tensor{t})
	})
	res := []ModeResult{{"TensorFromProto", Verdict(c, a), a.Short()}}
	if x.Enc == "raw" {
		// the typed fields of a raw-encoded tensor are present but EMPTY (a tool that moved the payload into raw_data and truncated
		// the typed field in place, `tp.FloatData = tp.FloatData[:0]`): a field without elements is not populated (Decode.tla)
		a2 := guard(func() Observation {
			tp := mkProtoX(x, "w")
			tp.FloatData, tp.DoubleData, tp.Int32Data, tp.Int64Data, tp.Uint64Data = []float32{}, []float64{}, []int32{}, []int64{}, []uint64{}
			tp.StringData = [][]byte{}
			t, err := onnx.TensorFromProto(tp)
			if err != nil {
				return observeErr(err)
			}
			return valueObs([]tensor.Tensor{t})
		})
		res = append(res, ModeResult{"TensorFromProto:empty-typed-fields", Verdict(c, a2), a2.Short()})
		// the payload starts at every address modulo 8 (a sub-slice of a larger buffer - a memory-mapped file, a container format):
		// decoding is a function of the bytes, not of where they lie
		if len(x.Raw) > 0 {
			for off := 1; off < 8; off++ {
				a3 := guard(func() Observation {
					tp := mkProtoX(x, "w")
					buf := make([]byte, len(tp.RawData)+16)
					base := 0
					for (uintptr(unsafe.Pointer(&buf[base]))+uintptr(off))%8 != uintptr(off) {
						base++
					}
					copy(buf[base+off:], tp.RawData)
					tp.RawData = buf[base+off : base+off+len(tp.RawData) : base+off+len(tp.RawData)]
					t, err := onnx.TensorFromProto(tp)
					if err != nil {
						return observeErr(err)
					}
					return valueObs([]tensor.Tensor{t})
				})
				if v := Verdict(c, a3); v != "pass" && !strings.HasPrefix(v, "known:") {
					res = append(res, ModeResult{fmt.Sprintf("TensorFromProto:raw-data-at-address-%d-mod-8", off), v, a3.Short()})
					break
				} else if off == 7 {
					res = append(res, ModeResult{"TensorFromProto:raw-data-at-every-address-mod-8", v, a3.Short()})
				}
			}
		}
	}
	b := guard(func() Observation {
		// a well-formed initializer follows: the outcome of the first must not depend on it
		follower := &onnx.TensorProto{Name: "z_follower", DataType: 1, Dims: []int64{2}, FloatData: []float32{1, 2}}
		inits := []*onnx.TensorProto{mkProtoX(x, "w"), follower}
		// a twin with the same payload and element type but a flat shape comes first: every initializer is decoded against its OWN dims
		twin := mkProtoX(x, "a_twin")
		n := int64(len(x.Vals))
		if x.Enc == "raw" {
			if w := map[int32]int{1: 4, 2: 1, 3: 1, 4: 2, 5: 2, 6: 4, 7: 8, 9: 1, 11: 8, 12: 4, 13: 8}[x.Code]; w > 0 && len(x.Raw)%w == 0 {
				n = int64(len(x.Raw) / w)
			} else {
				n = -1
			}
		}
		if n >= 1 && len(x.BigDims) == 0 {
			twin.Dims = []int64{n}
			inits = append([]*onnx.TensorProto{twin}, inits...)
		}
		g := &onnx.GraphProto{Name: "g", Initializer: inits, Output: []*onnx.ValueInfoProto{{Name: "w"}}}
		bytesModel, err := proto.Marshal(mkModel(g, 13))
		if err != nil {
			return Observation{Kind: "harness", Note: err.Error()}
		}
		m, err := gonnx.NewModelFromBytes(bytesModel)
		if err != nil {
			return observeErr(err)
		}
		if c.Allowed.Must == "error" && len(c.Known) == 0 {
			// the refusal belongs to the load: a model that loads with such a weight has dropped or replaced it
			return Observation{Kind: "nil", Note: "a model holding a tensor that must be refused was loaded"}
		}
		out, err := m.Run(gonnx.Tensors{})
		if err != nil {
			return observeErr(err)
		}
		return collect([]string{"w"}, out)
	})
	res = append(res, ModeResult{"load+Run", Verdict(c, b), b.Short()})
	// the same model through an archive: a Deflate-compressed entry (long payloads span several reads of the decompressor) and a
	// stored one, loaded with NewModelFromZipFile
	if c.Allowed.Must == "value" && len(x.Raw)+8*len(x.Vals) >= 20000 {
		for _, method := range []uint16{zip.Deflate, zip.Store} {
			method := method
			bz := guard(func() Observation {
				g := &onnx.GraphProto{Name: "g", Initializer: []*onnx.TensorProto{mkProtoX(x, "w")}, Output: []*onnx.ValueInfoProto{{Name: "w"}}}
				bytesModel, err := proto.Marshal(mkModel(g, 13))
				if err != nil {
					return Observation{Kind: "harness", Note: err.Error()}
				}
				var buf bytes.Buffer
				zw := zip.NewWriter(&buf)
				w, err := zw.CreateHeader(&zip.FileHeader{Name: "model.onnx", Method: method})
				if err != nil {
					return Observation{Kind: "harness", Note: err.Error()}
				}
				if _, err := w.Write(bytesModel); err != nil {
					return Observation{Kind: "harness", Note: err.Error()}
				}
				if err := zw.Close(); err != nil {
					return Observation{Kind: "harness", Note: err.Error()}
				}
				zr, err := zip.NewReader(bytes.NewReader(buf.Bytes()), int64(buf.Len()))
				if err != nil || len(zr.File) != 1 {
					return Observation{Kind: "harness", Note: fmt.Sprint("zip reader: ", err)}
				}
				m, err := gonnx.NewModelFromZipFile(zr.File[0])
				if err != nil {
					return observeErr(err)
				}
				out, err := m.Run(gonnx.Tensors{})
				if err != nil {
					return observeErr(err)
				}
				return collect([]string{"w"}, out)
			})
			res = append(res, ModeResult{fmt.Sprintf("load-zip-method%d+Run", method), Verdict(c, bz), bz.Short()})
		}
	}
	// decoding reads the description it is given and leaves it as it was: a second Model built from the SAME ModelProto object
	// holds the same weight, and the proto still equals a copy taken before the first load
	b2 := guard(func() Observation {
		g := &onnx.GraphProto{Name: "g", Initializer: []*onnx.TensorProto{mkProtoX(x, "w")}, Output: []*onnx.ValueInfoProto{{Name: "w"}}}
		mp := mkModel(g, 13)
		before := proto.Clone(mp)
		var last Observation
		for k := 1; k <= 2; k++ {
			m, err := gonnx.NewModel(mp)
			if !proto.Equal(before, mp) {
				return Observation{Kind: "nil", Note: fmt.Sprintf("NewModel number %d changed the ModelProto it was given", k)}
			}
			if err != nil {
				last = observeErr(err)
			} else {
				out, err := m.Run(gonnx.Tensors{})
				if err != nil {
					last = observeErr(err)
				} else {
					last = collect([]string{"w"}, out)
				}
			}
			if v := Verdict(c, last); v != "pass" && !strings.HasPrefix(v, "known:") {
				last.Note = fmt.Sprintf("Model number %d built from one ModelProto", k)
				return last
			}
		}
		return last
	})
	res = append(res, ModeResult{"load-same-proto-twice", Verdict(c, b2), b2.Short()})
	// decoding is a function of the payload: eight goroutines decoding the same tensor at the same time all obtain the value
	if c.Allowed.Must == "value" && len(x.Raw)+len(x.Vals) >= 4 {
		const G, rounds = 8, 60
		bad := make([]string, G)
		var wg sync.WaitGroup
		for g := 0; g < G; g++ {
			wg.Add(1)
			go func(g int) {
				defer wg.Done()
				tp := mkProtoX(x, "w")
				for k := 0; k < rounds && bad[g] == ""; k++ {
					o := guard(func() Observation {
						t, err := onnx.TensorFromProto(tp)
						if err != nil {
							return observeErr(err)
						}
						return valueObs([]tensor.Tensor{t})
					})
					if v := Verdict(c, o); v != "pass" && !strings.HasPrefix(v, "known:") {
						bad[g] = fmt.Sprintf("goroutine %d, decode %d: %s | observed: %s", g, k+1, v, o.Short())
					}
				}
			}(g)
		}
		wg.Wait()
		verdict := "pass"
		for _, m := range bad {
			if m != "" {
				verdict = "violation:concurrent decodes of one tensor disagree with its value: " + strings.TrimPrefix(m, "violation:")
				break
			}
		}
		res = append(res, ModeResult{"concurrent-decode", verdict, ""})
	}
	return res
}
