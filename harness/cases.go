package main

// Case schema (printed by the TLA+ generators as JSON), observation of the real code and the verdict rule.

import (
	"encoding/json"
	"errors"
	"fmt"
	"strings"
	"sync/atomic"
	"time"

	"github.com/advancedclimatesystems/gonnx"
	"github.com/advancedclimatesystems/gonnx/ops"
	"gorgonia.org/tensor"
)

func jsonUnmarshal(b []byte, v interface{}) error { return json.Unmarshal(b, v) }

// Allowed is the set of outcomes the property admits for a case (spec/Outcome.tla).
type Allowed struct {
	Must  string      `json:"must"` // value | error | value_or_error | no_crash
	Value []AbsTensor `json:"value"`
	Errc  []string    `json:"errc"` // acceptable error classes (empty: any error)
}

// KnownOutcome is the outcome predicted by a recorded defect model.
type KnownOutcome struct {
	ID  string `json:"id"`
	Out struct {
		Kind  string      `json:"kind"` // value | error | panic | nil
		Value []AbsTensor `json:"value"`
	} `json:"out"`
}

type Case struct {
	Pad     *PadSpec       `json:"pad"`    // zero-padding law: operands to pad with zeros up to 1024 hidden units / 512 input features (exec_pad.go)
	Tile    *TileSpec      `json:"tile"`   // tiling law: inputs to repeat along axis 0 (exec_tile.go)
	Repeat  int            `json:"repeat"` // determinism: the case is executed this many times, all results bit for bit the same
	Prop    string         `json:"prop"`
	Fam     string         `json:"fam"`
	Kind    string         `json:"kind"` // op | helper | decode | gate | registry | model | sig | load | ...
	Op      string         `json:"op"`
	Attrs   []Attr         `json:"attrs"`
	Inputs  []AbsTensor    `json:"inputs"`
	Nout    int            `json:"nout"`
	Allowed Allowed        `json:"allowed"`
	Cmp     string         `json:"cmp"`   // bits | num (default num)
	Modes   []string       `json:"modes"` // api | run | init2 (default all three for kind op)
	Keep    bool           `json:"keep"`  // inputs must be left unmodified
	Feat    []string       `json:"feat"`
	Known   []KnownOutcome `json:"known"`
	X       jsonRaw        `json:"x"` // kind-specific payload
	// Same[i] >= 0: input i is the very same tensor object (and graph name) as input Same[i]
	Same []int `json:"same"`
}

// sameAs returns the index of the input that input i aliases, or -1.
func (c *Case) sameAs(i int) int {
	if i < len(c.Same) && c.Same[i] >= 0 && c.Same[i] < i {
		return c.Same[i]
	}
	return -1
}

// Observation is what the real code did.
type Observation struct {
	Kind    string // value | error | panic | nil
	Value   []tensor.Tensor
	Err     error
	Errc    string
	Changed string // non-empty: description of an input that was modified
	Note    string
}

func (o Observation) Short() string {
	switch o.Kind {
	case "value":
		var parts []string
		for _, t := range o.Value {
			at, err := AbstractTensor(t)
			if err != nil {
				parts = append(parts, "unreadable("+err.Error()+")")
				continue
			}
			b, _ := json.Marshal(at)
			s := string(b)
			if len(s) > 400 {
				s = s[:400] + "..."
			}
			parts = append(parts, s)
		}
		return "value " + strings.Join(parts, " ")
	case "error":
		return fmt.Sprintf("error[%s] %v", o.Errc, o.Err)
	case "panic":
		return "panic " + o.Note
	}
	return o.Kind + " " + o.Note
}

func errClass(err error) string {
	if err == nil {
		return ""
	}
	var ie *ops.InputError
	var ise gonnx.InvalidShapeError
	var ae *ops.AttributeError
	switch {
	case errors.Is(err, ops.ErrUnsupportedOperator):
		return "UnsupportedOperator"
	case errors.Is(err, ops.ErrUnsupportedOpsetVersion):
		return "UnsupportedOpset"
	case errors.As(err, &ie):
		return "Input"
	case errors.As(err, &ise):
		return "InvalidShape"
	case errors.As(err, &ae):
		return "Attribute"
	case strings.Contains(err.Error(), "gonnx model error"):
		return "Model"
	}
	return "other"
}

func observeErr(err error) Observation {
	return Observation{Kind: "error", Err: err, Errc: errClass(err)}
}

// guard runs f and converts a panic into an observation.
// guard runs f, turns a panic into an observation, and does not wait for ever: a call that has not returned after guardLimit
// is blocked inside the library (a deadlock - a load that waits for a goroutine that can never finish, a Run that waits for a
// lock nobody releases). It is reported like a panic: the call neither returned a value nor an error. Once one call has hung, the
// others of this process are given a few seconds only (the verdict is settled; the remaining cases are still reported).
var (
	guardLimit = 240 * time.Second
	guardHung  atomic.Bool

	guardHungCount atomic.Int32
)

func guard(f func() Observation) Observation {
	done := make(chan Observation, 1)
	go func() { done <- guardInline(f) }()
	limit := guardLimit
	if guardHung.Load() {
		limit = 5 * time.Second
		if guardHungCount.Load() >= 10 {
			limit = 200 * time.Millisecond // (settled long ago: get through the remaining cases)
		}
	}
	tm := time.NewTimer(limit)
	defer tm.Stop()
	select {
	case o := <-done:
		return o
	case <-tm.C:
		guardHung.Store(true)
		guardHungCount.Add(1)
		return Observation{Kind: "panic", Note: fmt.Sprintf("the call did not return within %v: it is blocked inside the library (neither a value nor an error)", limit)}
	}
}

func guardInline(f func() Observation) (obs Observation) {
	defer func() {
		if r := recover(); r != nil {
			msg := fmt.Sprint(r)
			if len(msg) > 300 {
				msg = msg[:300]
			}
			obs = Observation{Kind: "panic", Note: msg}
		}
	}()
	return f()
}

// valueObs classifies a returned tensor list: any nil tensor among the expected outputs is "nil".
func valueObs(outs []tensor.Tensor) Observation {
	for i, t := range outs {
		if t == nil {
			return Observation{Kind: "nil", Value: outs, Note: fmt.Sprintf("output %d is nil", i)}
		}
	}
	return Observation{Kind: "value", Value: outs}
}

func matchValues(want []AbsTensor, got []tensor.Tensor, cmp string) (bool, string) {
	// an operator may return more (trailing) outputs than the node declares; the declared ones are compared by position
	if len(got) < len(want) {
		return false, fmt.Sprintf("%d outputs, expected %d", len(got), len(want))
	}
	for i := range want {
		if ok, why := CompareTensor(want[i], got[i], cmp); !ok {
			return false, fmt.Sprintf("output %d: %s", i, why)
		}
	}
	return true, ""
}

// Verdict: "pass", "known:<id>", or "violation:<why>".
func Verdict(c *Case, o Observation) string {
	cmp := c.Cmp
	if cmp == "" {
		cmp = "num"
	}
	why := ""
	ok := false
	switch {
	case o.Kind == "harness":
		return "infra:" + o.Note
	case o.Kind == "panic":
		why = "panic: " + o.Note
	case c.Keep && o.Changed != "":
		why = "input modified: " + o.Changed
	default:
		switch c.Allowed.Must {
		case "no_crash":
			ok = true
		case "error":
			if o.Kind == "error" {
				ok = len(c.Allowed.Errc) == 0
				for _, e := range c.Allowed.Errc {
					if e == o.Errc || e == "Operator" { // "Operator": an error raised by some operator, of whatever class
						ok = true
					}
				}
				if !ok {
					why = fmt.Sprintf("error class %s (%v), expected one of %v", o.Errc, o.Err, c.Allowed.Errc)
				}
			} else {
				why = "expected an error, got " + o.Short()
			}
		case "value", "value_or_error":
			if o.Kind == "error" {
				if c.Allowed.Must == "value_or_error" {
					ok = true
				} else {
					why = fmt.Sprintf("error where a value is required: %v", o.Err)
				}
			} else if o.Kind == "value" {
				ok, why = matchValues(c.Allowed.Value, o.Value, cmp)
			} else {
				why = o.Short()
			}
		default:
			why = "harness: unknown must level " + c.Allowed.Must
		}
	}
	if ok {
		return "pass"
	}
	for _, k := range c.Known {
		if k.Out.Kind != o.Kind {
			continue
		}
		if o.Kind == "value" {
			if m, _ := matchValues(k.Out.Value, o.Value, cmp); !m {
				continue
			}
		}
		return "known:" + k.ID
	}
	return "violation:" + why
}
