package main

// harness hammer -model NAME [-g 16] [-seconds 30] [-seed 1]: a development tool. One generated model is run from G goroutines for
// a time budget, every result compared bit for bit with the sequential result of the same input; deviations are printed with the
// tensors involved. (Not part of any registered check; used to hunt rare concurrency deviations.)

import (
	"flag"
	"fmt"
	"math/rand"
	"os"
	"sync"
	"sync/atomic"
	"time"

	"github.com/advancedclimatesystems/gonnx"
)

func cmdHammer(args []string) int {
	fs := flag.NewFlagSet("hammer", flag.ExitOnError)
	name := fs.String("model", "two_dilated_convs", "generated model")
	G := fs.Int("g", 16, "goroutines")
	secs := fs.Int("seconds", 30, "time budget")
	seed := fs.Int64("seed", 1, "seed")
	loaders := fs.Int("loaders", 1, "goroutines that keep loading the model")
	_ = fs.Parse(args)
	if *name == "all" {
		// every generated model in turn, in one process (the pools of the tensor library stay warm across models)
		rc := 0
		for _, sm := range synthModels(rand.New(rand.NewSource(*seed))) {
			a := append(append([]string{}, args...), "-model", sm.name)
			if r := cmdHammer(a); r != 0 {
				rc = r
			}
		}
		return rc
	}
	rng := rand.New(rand.NewSource(*seed))
	var mm *mModel
	for _, sm := range synthModels(rng) {
		if sm.name == *name {
			m := sm.m
			mm = &m
		}
	}
	if mm == nil {
		fmt.Fprintln(os.Stderr, "no such generated model")
		return 2
	}
	b, err := buildModel(*mm)
	if err != nil {
		fmt.Fprintln(os.Stderr, err)
		return 2
	}
	model, err := gonnx.NewModelFromBytes(b)
	if err != nil {
		fmt.Fprintln(os.Stderr, err)
		return 2
	}
	sm, err := sampleModelFrom(*name, model)
	if err != nil {
		fmt.Fprintln(os.Stderr, err)
		return 2
	}
	const nKeys = 6
	pool := make([][]map[string][]float32, nKeys)
	base := make([]string, nKeys)
	for k := range pool {
		n := 1 + rng.Intn(3)
		pool[k] = make([]map[string][]float32, n)
		for i := range pool[k] {
			pool[k][i] = map[string][]float32{}
			for _, in := range sm.inNames {
				d := make([]float32, sm.sampleSize(in))
				for j := range d {
					d[j] = float32(rng.Intn(65)-32) / 16
				}
				pool[k][i][in] = d
			}
		}
		out, err := sm.model.Run(sm.stack(pool[k]))
		if err != nil {
			fmt.Fprintln(os.Stderr, "baseline:", err)
			return 2
		}
		base[k] = digestOf(out, sm.outNames)
	}
	stop := make(chan struct{})
	var lw sync.WaitGroup
	for i := 0; i < *loaders; i++ {
		lw.Add(1)
		go func() {
			defer lw.Done()
			for {
				select {
				case <-stop:
					return
				default:
				}
				if _, err := gonnx.NewModelFromBytes(b); err != nil {
					fmt.Println("concurrent load failed:", err)
					return
				}
			}
		}()
	}
	deadline := time.Now().Add(time.Duration(*secs) * time.Second)
	var runs, bad atomic.Int64
	var mu sync.Mutex
	var wg sync.WaitGroup
	for g := 0; g < *G; g++ {
		wg.Add(1)
		go func(g int, s int64) {
			defer wg.Done()
			lr := rand.New(rand.NewSource(s))
			for time.Now().Before(deadline) {
				k := lr.Intn(nKeys)
				var why string
				o := guard(func() Observation {
					out, err := sm.model.Run(sm.stack(pool[k]))
					if err != nil {
						why = "error: " + err.Error()
						return Observation{Kind: "value"}
					}
					if d := digestOf(out, sm.outNames); d != base[k] {
						why = "digest " + d + " instead of " + base[k]
						for _, n := range sm.outNames {
							why += fmt.Sprintf("\n   %s = %s", n, TakeSnapshotValues(out[n]).String())
						}
					}
					return Observation{Kind: "value"}
				})
				runs.Add(1)
				if o.Kind != "value" {
					why = "panic: " + o.Short()
				}
				if why != "" {
					if bad.Add(1) <= 5 {
						mu.Lock()
						fmt.Printf("DEVIATION goroutine %d key %d: %.1500s\n", g, k+1, why)
						mu.Unlock()
					}
				}
			}
		}(g, rng.Int63())
	}
	wg.Wait()
	close(stop)
	lw.Wait()
	fmt.Printf("hammer %s: %d runs, %d deviations\n", *name, runs.Load(), bad.Load())
	if bad.Load() > 0 {
		return 1
	}
	return 0
}
