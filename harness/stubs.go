package main

import "fmt"

func cmdRecord(args []string) int  { fmt.Println("record: not built yet"); return 2 }
func cmdOptable(args []string) int { fmt.Println("optable: not built yet"); return 2 }
