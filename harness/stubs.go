package main

import "fmt"

func cmdRecord(args []string) int  { fmt.Println("record: not built yet"); return 2 }
