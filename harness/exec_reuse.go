package main

// Operator-instance re-use: the ops.Operator interface lets one initialised operator be applied repeatedly. The cases of one
// (operator, attributes, input ranks, input dtypes) group are applied, in turn, to ONE instance that is looked up and
// initialised once; each application must still give the outcome the specification allows for that case. This exposes
// attribute or shape state that leaks from one Apply into the next.

import (
	"encoding/json"
	"fmt"
	"sort"

	"github.com/advancedclimatesystems/gonnx/ops"
	"github.com/advancedclimatesystems/gonnx/ops/opset13"
)

type reuseItem struct {
	c    *Case
	text string
}

type reusePass struct {
	groups map[string][]reuseItem
	n      int
}

type reuseVerdict struct {
	prop, text, verdict string
}

const reuseMaxCases = 60000
const reuseMaxPerGroup = 40

func newReusePass() *reusePass { return &reusePass{groups: map[string][]reuseItem{}} }

func (r *reusePass) add(c *Case, text string) {
	if c.Kind != "op" || r.n >= reuseMaxCases || c.Allowed.Must == "no_crash" {
		return
	}
	a, _ := json.Marshal(c.Attrs)
	key := fmt.Sprintf("%s|%s|%d|", c.Op, a, c.Nout)
	for _, t := range c.Inputs {
		if t.Nil {
			key += "nil,"
		} else {
			key += fmt.Sprintf("%s%d,", t.Dt, len(t.Shape))
		}
	}
	if len(r.groups[key]) >= reuseMaxPerGroup {
		return
	}
	r.groups[key] = append(r.groups[key], reuseItem{c, text})
	r.n++
}

func (r *reusePass) run() []reuseVerdict {
	var out []reuseVerdict
	keys := make([]string, 0, len(r.groups))
	for k := range r.groups {
		keys = append(keys, k)
	}
	sort.Strings(keys)
	for _, k := range keys {
		items := r.groups[k]
		if len(items) < 2 {
			continue
		}
		var op ops.Operator
		first := items[0].c
		ins, outs := ioNames(first)
		initObs := guard(func() Observation {
			o, err := opset13.GetOperator(first.Op)
			if err != nil {
				return observeErr(err)
			}
			node, err := mkNode(first.Op, first.Attrs, ins, outs)
			if err != nil {
				return Observation{Kind: "harness", Note: err.Error()}
			}
			if err := o.Init(node); err != nil {
				return observeErr(err)
			}
			op = o
			return Observation{Kind: "value"}
		})
		if initObs.Kind != "value" {
			continue // refused at Init: the per-case modes already decide these
		}
		for i, it := range items {
			c := it.c
			inputs, err := mkInputs(c)
			if err != nil {
				continue
			}
			obs := guard(func() Observation {
				v, err := op.ValidateInputs(inputs)
				if err != nil {
					return observeErr(err)
				}
				res, err := op.Apply(v)
				if err != nil {
					return observeErr(err)
				}
				return valueObs(res)
			})
			v := Verdict(c, obs)
			if v == "pass" || len(v) > 6 && v[:6] == "known:" {
				out = append(out, reuseVerdict{c.Prop, it.text, "pass"})
				continue
			}
			out = append(out, reuseVerdict{c.Prop, it.text, fmt.Sprintf("mode=reuse (application %d of one %s instance) %s | observed: %s", i+1, c.Op, v, obs.Short())})
		}
	}
	return out
}
