package main

// Operator-instance re-use: the ops.Operator interface lets one initialised operator be applied repeatedly. The cases of one
// (operator, attributes, input dtypes) group are applied, in turn, to ONE instance that is looked up and
// initialised once; each application must still give the outcome the specification allows for that case. This exposes
// attribute or shape state that leaks from one Apply into the next.

import (
	"crypto/sha1"
	"encoding/json"
	"fmt"
	"reflect"
	"sort"
	"strings"

	"github.com/advancedclimatesystems/gonnx/ops"
	"github.com/advancedclimatesystems/gonnx/ops/opset13"
	"gorgonia.org/tensor"
)

type reuseItem struct {
	c    *Case
	text string
	h    string // sha1 of the text: the deterministic order of a group
}

type reusePass struct {
	groups map[string][]reuseItem
}

type reuseVerdict struct {
	prop, text, verdict string
}

const reuseMaxPerGroup = 2000 // cases retained per group (the smallest hashes)

// pick orders a group deterministically (by case text) and interleaves the input-rank signatures, so that one instance sees
// inputs of different ranks and extents early.
func pick(items []reuseItem) []reuseItem {
	sig := func(c *Case) string {
		s := ""
		for _, t := range c.Inputs {
			if t.Nil {
				s += "nil,"
			} else {
				s += fmt.Sprintf("%s%d,", t.Dt, len(t.Shape))
			}
		}
		return s
	}
	buckets := map[string][]reuseItem{}
	for _, it := range items {
		if it.c == nil {
			continue
		}
		k := sig(it.c)
		buckets[k] = append(buckets[k], it)
	}
	keys := make([]string, 0, len(buckets))
	for k := range buckets {
		keys = append(keys, k)
		b := buckets[k]
		sort.Slice(b, func(i, j int) bool { return b[i].h < b[j].h })
	}
	sort.Strings(keys)
	reuseApplications := 64 + len(items)/4 // applications of the one instance
	if len(items) > reuseMaxPerGroup {
		sort.Slice(items, func(i, j int) bool { return items[i].h < items[j].h })
		items = items[:reuseMaxPerGroup]
	}
	var out []reuseItem
	for i := 0; len(out) < reuseApplications; i++ {
		any := false
		for _, k := range keys {
			if i < len(buckets[k]) && len(out) < reuseApplications {
				out = append(out, buckets[k][i])
				any = true
			}
		}
		if !any {
			break
		}
	}
	return out
}

func newReusePass() *reusePass { return &reusePass{groups: map[string][]reuseItem{}} }

func (r *reusePass) add(c *Case, text string) {
	if c.Kind == "gate" {
		// input gates: every input list of an operator goes through the gate of ONE instance as well
		h := sha1.Sum([]byte(text))
		key := "gate|" + c.Op
		r.groups[key] = append(r.groups[key], reuseItem{c, text, string(h[:])})
		return
	}
	if c.Kind != "op" || c.Allowed.Must == "no_crash" {
		return
	}
	a, _ := json.Marshal(c.Attrs)
	// ranks and extents may differ between applications (ONNX allows a node to see inputs of unknown rank), and so may the
	// presence of optional inputs when the operator is driven through its API: only the element type of the first input is fixed
	key := fmt.Sprintf("%s|%s|%d|", c.Op, a, c.Nout)
	if len(c.Inputs) > 0 && !c.Inputs[0].Nil {
		key += c.Inputs[0].Dt
	}
	h := sha1.Sum([]byte(text))
	// a second instance per (operator, attributes) sees the cases of EVERY element type in turn: nothing an instance learns
	// about the type of one input holds for the next
	for _, key := range []string{key, fmt.Sprintf("anytype|%s|%s|%d", c.Op, a, c.Nout), fmt.Sprintf("refill|%s|%s|%d", c.Op, a, c.Nout)} {
		g := append(r.groups[key], reuseItem{c, text, string(h[:])})
		if len(g) >= 2*reuseMaxPerGroup {
			// keep the reuseMaxPerGroup smallest hashes: the retained set does not depend on the arrival order
			sort.Slice(g, func(i, j int) bool { return g[i].h < g[j].h })
			for i := reuseMaxPerGroup; i < len(g); i++ {
				g[i] = reuseItem{}
			}
			g = g[:reuseMaxPerGroup]
		}
		r.groups[key] = g
	}
}

func (r *reusePass) run() []reuseVerdict {
	var out []reuseVerdict
	keys := make([]string, 0, len(r.groups))
	for k := range r.groups {
		keys = append(keys, k)
	}
	sort.Strings(keys)
	for _, k := range keys {
		if strings.HasPrefix(k, "gate|") {
			items := r.groups[k]
			sort.Slice(items, func(i, j int) bool { return items[i].h < items[j].h })
			op, err := opset13.GetOperator(items[0].c.Op)
			if err != nil || len(items) < 2 {
				continue
			}
			for i, it := range items {
				v, short := gateOnce(op, it.c, i%2 == 1)
				if v == "pass" {
					out = append(out, reuseVerdict{it.c.Prop, it.text, "pass"})
				} else {
					out = append(out, reuseVerdict{it.c.Prop, it.text, fmt.Sprintf("mode=reuse (input list %d through the gate of one %s instance) %s | observed: %s", i+1, it.c.Op, v, short)})
				}
			}
			continue
		}
		items := pick(r.groups[k])
		if len(items) < 2 {
			continue
		}
		// "refill" groups: cases with the same input element types and shapes follow each other and are executed on the SAME
		// tensor objects, refilled in place with the values of the next case (a caller that keeps one set of buffers)
		refill := strings.HasPrefix(k, "refill|")
		inSig := func(c *Case) string {
			s := ""
			for _, t := range c.Inputs {
				if t.Nil {
					s += "nil;"
				} else {
					s += fmt.Sprintf("%s%v;", t.Dt, t.Shape)
				}
			}
			return s
		}
		if refill {
			sort.SliceStable(items, func(i, j int) bool { return inSig(items[i].c) < inSig(items[j].c) })
		}
		buffers := map[string][]tensor.Tensor{}
		var op ops.Operator
		first := items[0].c
		ins, outs := ioNames(first)
		initObs := guard(func() Observation {
			o, err := opset13.GetOperator(first.Op)
			if err != nil {
				return observeErr(err)
			}
			node, err := mkNode(first.Op, first.Attrs, ins, outs)
			if err != nil {
				return Observation{Kind: "harness", Note: err.Error()}
			}
			if err := o.Init(node); err != nil {
				return observeErr(err)
			}
			op = o
			return Observation{Kind: "value"}
		})
		if initObs.Kind != "value" {
			continue // refused at Init: the per-case modes already decide these
		}
		// results the caller still holds: the last one, and the last one of every (element type, shape) signature
		type held struct {
			c    *Case
			text string
			res  []tensor.Tensor
			at   int
		}
		heldBySig := map[string]*held{}
		var last *held
		recheck := func(h *held, now int) *reuseVerdict {
			if h == nil || h.res == nil {
				return nil
			}
			o := guard(func() Observation { return valueObs(h.res) })
			if v := Verdict(h.c, o); v != "pass" && !strings.HasPrefix(v, "known:") {
				h.res = nil
				return &reuseVerdict{h.c.Prop, h.text, fmt.Sprintf("mode=reuse (result of application %d of one %s instance, read again after application %d) %s | observed: %s", h.at, h.c.Op, now, v, o.Short())}
			}
			return nil
		}
		for i, it := range items {
			c := it.c
			inputs, err := mkInputs(c)
			if err != nil {
				continue
			}
			if refill && len(c.Same) == 0 {
				sg := inSig(c)
				if old, ok := buffers[sg]; ok && len(old) == len(inputs) {
					for p := range inputs {
						if inputs[p] == nil || old[p] == nil {
							continue
						}
						dst, src := reflect.ValueOf(old[p].Data()), reflect.ValueOf(inputs[p].Data())
						if dst.Kind() == reflect.Slice && src.Kind() == reflect.Slice && dst.Type() == src.Type() && dst.Len() == src.Len() && dst.Len() > 0 {
							reflect.Copy(dst, src)
							inputs[p] = old[p]
						}
					}
				}
				buffers[sg] = inputs
			}
			var results []tensor.Tensor
			obs := guard(func() Observation {
				v, err := op.ValidateInputs(inputs)
				if err != nil {
					return observeErr(err)
				}
				res, err := op.Apply(v)
				if err != nil {
					return observeErr(err)
				}
				results = res
				return valueObs(res)
			})
			v := Verdict(c, obs)
			sig := ""
			if v == "pass" && obs.Kind == "value" {
				for _, t := range obs.Value {
					if t != nil {
						sig += fmt.Sprintf("%v%v;", t.Dtype(), t.Shape())
					}
				}
			}
			// an earlier result is a value the caller owns: a later application of the same instance leaves it as it was
			for _, h := range []*held{last, heldBySig[sig]} {
				if refill {
					break // (a result may be an operand object, and those are refilled here)
				}
				if rv := recheck(h, i+1); rv != nil {
					out = append(out, *rv)
				}
			}
			if sig != "" {
				h := &held{c, it.text, results, i + 1}
				last, heldBySig[sig] = h, h
			}
			if v == "pass" || len(v) > 6 && v[:6] == "known:" {
				out = append(out, reuseVerdict{c.Prop, it.text, "pass"})
				continue
			}
			out = append(out, reuseVerdict{c.Prop, it.text, fmt.Sprintf("mode=reuse (application %d of one %s instance) %s | observed: %s", i+1, c.Op, v, obs.Short())})
		}
	}
	return out
}
