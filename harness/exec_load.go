package main

// C18: loading a Model from bytes never crashes; unsupported opsets are refused with the unsupported-opset error.
// The structured case (opset imports, initializers, graph presence) comes from TLC with its exact expected outcome; the
// harness additionally applies the byte-level perturbations the case asks for (truncation at every offset, every byte
// overwritten with 00 / FF / 80), for which the allowed outcome is "ok or error, never a panic".

import (
	"archive/zip"
	"bytes"
	"compress/flate"
	"encoding/json"
	"fmt"
	"hash/crc32"
	"math/rand"
	"os"

	"github.com/advancedclimatesystems/gonnx"
	"github.com/advancedclimatesystems/gonnx/onnx"
	"google.golang.org/protobuf/proto"
)

func init() {
	execKinds["load"] = execLoadCase
	execKinds["loadfile"] = execLoadFileCase
	execKinds["loadzip"] = execLoadZipCase
}

type loadX struct {
	Opsets []struct {
		Domain  string `json:"domain"`
		Version int64  `json:"version"`
		W       int64  `json:"w"` // the version is W*2^31 + Version (TLC integers are 32 bits wide)
	} `json:"opsets"`
	Inits []struct {
		Name string `json:"name"`
		P    protoX `json:"p"`
	} `json:"inits"`
	Nograph bool     `json:"nograph"`
	Nodes   []mNode  `json:"nodes"`
	Perturb string   `json:"perturb"`
	Nested  int      `json:"nested"` // > 0: the graph holds a chain of this many nested subgraphs (node -> attribute -> graph -> node ...)
	Sparse  string   `json:"sparse"` // sparse initializer entries of the graph (a field the interpreter has no use for)
	Expect  string   `json:"expect"` // ok | error | nocrash
	Errc    []string `json:"errc"`
}

func tryLoad(b []byte) Observation {
	return guard(func() Observation {
		m, err := gonnx.NewModelFromBytes(b)
		if err != nil {
			return observeErr(err)
		}
		// the accessors of a loaded model must not crash either
		_ = m.InputNames()
		_ = m.InputShapes()
		_ = m.OutputNames()
		_ = m.OutputShapes()
		_ = m.ParamNames()
		return Observation{Kind: "value"}
	})
}

// sweep applies a perturbation family to b and returns the number of loads and the first panic (if any).
func sweep(b []byte, kind string, maxLoads int) (int, string) {
	n := 0
	check := func(mut []byte, what string) string {
		n++
		if o := tryLoad(mut); o.Kind == "panic" {
			return what + ": " + o.Note
		}
		return ""
	}
	step := 1
	if maxLoads > 0 && len(b) > maxLoads {
		step = len(b)/maxLoads + 1
	}
	switch kind {
	case "truncate":
		for i := 0; i < len(b); i += step {
			if w := check(b[:i], fmt.Sprintf("truncated to %d of %d bytes", i, len(b))); w != "" {
				return n, w
			}
		}
	case "overwrite":
		mut := make([]byte, len(b))
		for i := 0; i < len(b); i += step {
			for _, v := range []byte{0x00, 0xFF, 0x80} {
				copy(mut, b)
				mut[i] = v
				if w := check(mut, fmt.Sprintf("byte %d of %d set to %#02x", i, len(b), v)); w != "" {
					return n, w
				}
			}
		}
	}
	return n, ""
}

func execLoadCase(c *Case) []ModeResult {
	var x loadX
	if err := json.Unmarshal(c.X, &x); err != nil {
		return []ModeResult{{"load", "infra:" + err.Error(), ""}}
	}
	mp := &onnx.ModelProto{IrVersion: 7}
	for _, o := range x.Opsets {
		mp.OpsetImport = append(mp.OpsetImport, &onnx.OperatorSetIdProto{Domain: o.Domain, Version: o.W<<31 + o.Version})
	}
	if !x.Nograph {
		g := &onnx.GraphProto{Name: "g"}
		for _, it := range x.Inits {
			g.Initializer = append(g.Initializer, mkProtoX(it.P, it.Name))
		}
		for i, n := range x.Nodes {
			node, err := mkNode(n.Op, n.Attrs, n.Ins, n.Outs)
			if err != nil {
				return []ModeResult{{"load", "infra:" + err.Error(), ""}}
			}
			node.Name = fmt.Sprintf("n%d", i)
			g.Node = append(g.Node, node)
		}
		g.Input = append(g.Input, mkValueInfo("x", "f32", []DimSpec{{Param: "n"}, {Size: 3}}), &onnx.ValueInfoProto{Name: "untyped"},
			&onnx.ValueInfoProto{Name: "noshape", Type: &onnx.TypeProto{Value: &onnx.TypeProto_TensorType{TensorType: &onnx.TypeProto_Tensor{ElemType: 1}}}})
		g.Output = append(g.Output, &onnx.ValueInfoProto{Name: "y"})
		if x.Sparse != "" && x.Sparse != "none" {
			vals := &onnx.TensorProto{Name: "sv", DataType: 1, Dims: []int64{1}, FloatData: []float32{1}}
			idx := &onnx.TensorProto{Name: "si", DataType: 7, Dims: []int64{1}, Int64Data: []int64{0}}
			switch x.Sparse {
			case "complete":
				g.SparseInitializer = append(g.SparseInitializer, &onnx.SparseTensorProto{Values: vals, Indices: idx, Dims: []int64{3}})
			case "no_values":
				g.SparseInitializer = append(g.SparseInitializer, &onnx.SparseTensorProto{Indices: idx, Dims: []int64{3}})
			case "no_indices":
				g.SparseInitializer = append(g.SparseInitializer, &onnx.SparseTensorProto{Values: vals, Dims: []int64{3}})
			case "empty":
				g.SparseInitializer = append(g.SparseInitializer, &onnx.SparseTensorProto{})
			case "values_unnamed":
				vals.Name = ""
				g.SparseInitializer = append(g.SparseInitializer, &onnx.SparseTensorProto{Values: vals, Indices: idx, Dims: []int64{3}})
			case "two_no_values":
				g.SparseInitializer = append(g.SparseInitializer, &onnx.SparseTensorProto{Dims: []int64{3}}, &onnx.SparseTensorProto{Dims: []int64{2}})
			}
		}
		mp.Graph = g
	}
	b, err := proto.Marshal(mp)
	if err != nil {
		return []ModeResult{{"load", "infra:" + err.Error(), ""}}
	}
	if x.Nested > 0 {
		b = nestedModelBytes(x.Nested)
	}
	o := tryLoad(b)
	verdict := "pass"
	switch {
	case o.Kind == "panic":
		verdict = "violation:loading panicked: " + o.Note
	case x.Expect == "ok" && o.Kind != "value":
		verdict = "violation:a loadable model was refused: " + o.Short()
	case x.Expect == "error" && o.Kind != "error":
		verdict = "violation:the model was loaded although it must be refused"
	case x.Expect == "error" && len(x.Errc) > 0:
		ok := false
		for _, e := range x.Errc {
			if e == o.Errc {
				ok = true
			}
		}
		if !ok {
			verdict = fmt.Sprintf("violation:refused with error class %s (%v), expected %v", o.Errc, o.Err, x.Errc)
		}
	}
	res := []ModeResult{{"structured", verdict, o.Short()}}
	if x.Perturb == "truncate" || x.Perturb == "overwrite" {
		n, w := sweep(b, x.Perturb, 0)
		v := "pass"
		if w != "" {
			v = "violation:loading panicked on a perturbed model (" + w + ")"
		}
		res = append(res, ModeResult{fmt.Sprintf("%s x%d", x.Perturb, n), v, ""})
	}
	return res
}

// loadfile: the repository's sample files and seeded random byte strings, with the same perturbation sweeps (sampled offsets for big files)
func execLoadFileCase(c *Case) []ModeResult {
	var x struct {
		File    string `json:"file"`
		Random  int    `json:"random"` // number of random byte strings (File empty)
		Seed    int64  `json:"seed"`
		Perturb string `json:"perturb"`
		Repo    string `json:"repo"`
	}
	if err := json.Unmarshal(c.X, &x); err != nil {
		return []ModeResult{{"loadfile", "infra:" + err.Error(), ""}}
	}
	if x.File == "" {
		rng := rand.New(rand.NewSource(x.Seed))
		for i := 0; i < x.Random; i++ {
			b := make([]byte, rng.Intn(200))
			rng.Read(b)
			if rng.Intn(3) == 0 && len(b) > 4 { // protobuf-looking prefixes
				copy(b, []byte{0x08, 0x07, 0x3a, byte(len(b) - 4)})
			}
			if o := tryLoad(b); o.Kind == "panic" {
				return []ModeResult{{"random", fmt.Sprintf("violation:loading panicked on random bytes %x: %s", b, o.Note), ""}}
			}
		}
		return []ModeResult{{fmt.Sprintf("random x%d", x.Random), "pass", ""}}
	}
	repo := x.Repo
	if repo == "" {
		repo = repoPath()
	}
	b, err := os.ReadFile(repo + "/sample_models/onnx_models/" + x.File)
	if err != nil {
		return []ModeResult{{"loadfile", "infra:" + err.Error(), ""}}
	}
	res := []ModeResult{}
	if o := tryLoad(b); o.Kind == "panic" {
		res = append(res, ModeResult{"file", "violation:loading " + x.File + " panicked: " + o.Note, ""})
	} else {
		res = append(res, ModeResult{"file", "pass", o.Short()})
	}
	if x.Perturb != "" && x.Perturb != "none" {
		n, w := sweep(b, x.Perturb, 1500)
		v := "pass"
		if w != "" {
			v = "violation:loading panicked on perturbed " + x.File + " (" + w + ")"
		}
		res = append(res, ModeResult{fmt.Sprintf("%s x%d", x.Perturb, n), v, ""})
	}
	return res
}

func repoPath() string {
	if p := os.Getenv("VERIF_REPO"); p != "" {
		return p
	}
	return "/repo"
}

// execLoadZipCase: a small model inside a zip archive whose entry header is honest or forged (declared uncompressed / compressed
// sizes that are not the real ones, up to 2^64-1 through the zip64 extra field), loaded with NewModelFromZipFile.
func execLoadZipCase(c *Case) []ModeResult {
	var x struct {
		Declared string `json:"declared"` // honest | plus1 | minus1 | zero | 2^32 | 2^48 | 2^62 | max
		Method   uint16 `json:"method"`   // 0 store, 8 deflate
		Expect   string `json:"expect"`   // loads | nocrash
	}
	if err := json.Unmarshal(c.X, &x); err != nil {
		return []ModeResult{{"loadzip", "infra:" + err.Error(), ""}}
	}
	g := &onnx.GraphProto{Name: "g",
		Node:        []*onnx.NodeProto{{OpType: "Relu", Input: []string{"w"}, Output: []string{"y"}}},
		Initializer: []*onnx.TensorProto{{Name: "w", DataType: 1, Dims: []int64{2, 3}, FloatData: []float32{1, -2, 3, -4, 5, -6}}},
		Output:      []*onnx.ValueInfoProto{{Name: "y"}}}
	model, err := proto.Marshal(mkModel(g, 13))
	if err != nil {
		return []ModeResult{{"loadzip", "infra:" + err.Error(), ""}}
	}
	payload := model
	if x.Method == zip.Deflate {
		var cb bytes.Buffer
		fw, _ := flate.NewWriter(&cb, flate.DefaultCompression)
		_, _ = fw.Write(model)
		_ = fw.Close()
		payload = cb.Bytes()
	}
	size := uint64(len(model))
	switch x.Declared {
	case "plus1":
		size++
	case "minus1":
		size--
	case "zero":
		size = 0
	case "2^32":
		size = 1 << 32
	case "2^48":
		size = 1 << 48
	case "2^62":
		size = 1 << 62
	case "max":
		size = ^uint64(0)
	}
	var buf bytes.Buffer
	zw := zip.NewWriter(&buf)
	w, err := zw.CreateRaw(&zip.FileHeader{Name: "model.onnx", Method: x.Method, CRC32: crc32.ChecksumIEEE(model),
		CompressedSize64: uint64(len(payload)), UncompressedSize64: size})
	if err != nil {
		return []ModeResult{{"loadzip", "infra:" + err.Error(), ""}}
	}
	if _, err := w.Write(payload); err != nil {
		return []ModeResult{{"loadzip", "infra:" + err.Error(), ""}}
	}
	if err := zw.Close(); err != nil {
		return []ModeResult{{"loadzip", "infra:" + err.Error(), ""}}
	}
	o := guard(func() Observation {
		zr, err := zip.NewReader(bytes.NewReader(buf.Bytes()), int64(buf.Len()))
		if err != nil {
			return observeErr(err) // the archive library itself refuses the archive: nothing reaches the library under test
		}
		if len(zr.File) != 1 {
			return Observation{Kind: "harness", Note: "archive without its entry"}
		}
		m, err := gonnx.NewModelFromZipFile(zr.File[0])
		if err != nil {
			return observeErr(err)
		}
		out, err := m.Run(gonnx.Tensors{})
		if err != nil {
			return observeErr(err)
		}
		return collect([]string{"y"}, out)
	})
	verdict := "pass"
	switch {
	case o.Kind == "harness":
		verdict = "infra:" + o.Note
	case o.Kind == "panic":
		verdict = "violation:loading a zip entry that declares " + x.Declared + " bytes panicked: " + o.Note
	case x.Expect == "loads" && o.Kind != "value":
		verdict = "violation:an honest archive was refused: " + o.Short()
	}
	return []ModeResult{{"zip:" + x.Declared, verdict, o.Short()}}
}

// nestedModelBytes: a well-formed model (opset 13) whose graph holds one node whose attribute holds a graph whose node ... `levels`
// deep (control-flow operators nest graphs that way). Written directly in the wire format, sizes first, then front to back.
func nestedModelBytes(levels int) []byte {
	vlen := func(n int) int {
		l := 1
		for n >= 128 {
			n >>= 7
			l++
		}
		return l
	}
	put := func(b []byte, n int) []byte {
		for n >= 128 {
			b = append(b, byte(n&127|128))
			n >>= 7
		}
		return append(b, byte(n))
	}
	// g[i]: size of the graph at depth i (g[levels] = 0: the innermost graph is empty)
	g := make([]int, levels+1)
	attr := make([]int, levels)
	node := make([]int, levels)
	for i := levels - 1; i >= 0; i-- {
		attr[i] = 1 + vlen(g[i+1]) + g[i+1]   // AttributeProto{g (6)}
		node[i] = 1 + vlen(attr[i]) + attr[i] // NodeProto{attribute (5)}
		g[i] = 1 + vlen(node[i]) + node[i]    // GraphProto{node (1)}
	}
	out := make([]byte, 0, g[0]+32)
	out = append(out, 0x08, 0x07)             // ir_version = 7
	out = append(out, 0x42, 0x02, 0x10, 0x0d) // opset_import { version: 13 }
	out = append(out, 0x3a)                   // graph (7)
	out = put(out, g[0])
	for i := 0; i < levels; i++ {
		out = append(out, 0x0a) // node (1)
		out = put(out, node[i])
		out = append(out, 0x2a) // attribute (5)
		out = put(out, attr[i])
		out = append(out, 0x32) // g (6)
		out = put(out, g[i+1])
	}
	return out
}
