package main

// Execution of operator-level cases against the real code in three modes (DESIGN Appendix D):
//   api   : opset13.GetOperator -> Init -> ValidateInputs -> Apply
//   run   : single-node model, all inputs supplied by the caller, proto.Marshal -> NewModelFromBytes -> Run
//   init2 : single-node model with every input but the first stored as initializer, run twice

import (
	"encoding/json"
	"fmt"
	"math"

	"github.com/advancedclimatesystems/gonnx"
	"github.com/advancedclimatesystems/gonnx/onnx"
	"github.com/advancedclimatesystems/gonnx/ops"
	"github.com/advancedclimatesystems/gonnx/ops/opset13"
	"google.golang.org/protobuf/proto"
	"gorgonia.org/tensor"
)

func ioNames(c *Case) (ins, outs []string) {
	for i, t := range c.Inputs {
		if t.Nil {
			ins = append(ins, "")
		} else if j := c.sameAs(i); j >= 0 {
			ins = append(ins, ins[j])
		} else {
			ins = append(ins, fmt.Sprintf("in%d", i))
		}
	}
	for i := 0; i < c.Nout; i++ {
		outs = append(outs, fmt.Sprintf("out%d", i))
	}
	return
}

func mkInputs(c *Case) ([]tensor.Tensor, error) {
	out := make([]tensor.Tensor, len(c.Inputs))
	for i, at := range c.Inputs {
		if j := c.sameAs(i); j >= 0 {
			out[i] = out[j]
			continue
		}
		t, err := MkTensor(at)
		if err != nil {
			return nil, fmt.Errorf("input %d: %w", i, err)
		}
		out[i] = t
	}
	return out, nil
}

func snapshotAll(ts []tensor.Tensor) []Snapshot {
	out := make([]Snapshot, len(ts))
	for i, t := range ts {
		out[i] = TakeSnapshot(t)
	}
	return out
}

func diffSnapshots(before, after []Snapshot) string {
	for i := range before {
		if !before[i].Equal(after[i]) {
			return fmt.Sprintf("input %d: %s -> %s", i, before[i], after[i])
		}
	}
	return ""
}

func execOpAPI(c *Case) Observation { return execOpAPISpare(c, false) }

// cloneOperands: every operand is a Clone() of the constructed tensor - what a caller holds after copying a tensor, and what an
// element-wise node hands on: its shape and stride slices come from append and may have spare capacity.

// execOpAPISpare: with spare, the input list is a prefix of a longer buffer whose spare capacity holds stale tensors of an
// earlier use (an int64 axes-like tensor and copies of the inputs): omitted trailing optional inputs are absent all the same.
func execOpAPISpare(c *Case, spare bool) Observation {
	ins, outs := ioNames(c)
	node, err := mkNode(c.Op, c.Attrs, ins, outs)
	if err != nil {
		return Observation{Kind: "harness", Note: err.Error()}
	}
	inputs, err := mkInputs(c)
	if err != nil {
		return Observation{Kind: "harness", Note: err.Error()}
	}
	if spare && cloneOperandsFor(c) {
		for i, t := range inputs {
			if t != nil {
				if cl, ok := t.Clone().(tensor.Tensor); ok {
					inputs[i] = cl
				}
			}
		}
	}
	if spare {
		buf := make([]tensor.Tensor, len(inputs), len(inputs)+10)
		copy(buf, inputs)
		full := buf[:cap(buf)]
		for i := len(inputs); i < len(full); i++ {
			if k := i - len(inputs); k%2 == 1 && len(inputs) > 0 && inputs[k%len(inputs)] != nil {
				full[i] = inputs[k%len(inputs)].Clone().(tensor.Tensor)
			} else {
				full[i] = tensor.New(tensor.WithShape(1), tensor.WithBacking([]int64{0}))
			}
		}
		inputs = buf
	}
	before := snapshotAll(inputs)
	obs := guard(func() Observation {
		var op ops.Operator
		op, err := opset13.GetOperator(c.Op)
		if err != nil {
			return observeErr(err)
		}
		if err := op.Init(node); err != nil {
			return observeErr(err)
		}
		validated, err := op.ValidateInputs(inputs)
		if err != nil {
			return observeErr(err)
		}
		res, err := op.Apply(validated)
		if err != nil {
			return observeErr(err)
		}
		return valueObs(res)
	})
	obs.Changed = diffSnapshots(before, snapshotAll(inputs))
	return obs
}

// mkInputsOverOneBuffer: operands that hold the same elements under different shapes are built as DISTINCT tensor objects over ONE
// backing slice (a column and a row view of one vector, as a caller builds them with WithBacking). ok is false when the case has
// no such pair.
func mkInputsOverOneBuffer(c *Case) ([]tensor.Tensor, bool, error) {
	inputs, err := mkInputs(c)
	if err != nil || len(c.Same) > 0 {
		return nil, false, err
	}
	found := false
	for j := range c.Inputs {
		if c.Inputs[j].Nil || len(c.Inputs[j].Shape) == 0 {
			continue
		}
		bj, _ := json.Marshal(c.Inputs[j].Data)
		for i := 0; i < j; i++ {
			if c.Inputs[i].Nil || len(c.Inputs[i].Shape) == 0 || c.Inputs[i].Dt != c.Inputs[j].Dt || len(c.Inputs[i].Data) != len(c.Inputs[j].Data) || len(c.Inputs[i].Data) == 0 {
				continue
			}
			bi, _ := json.Marshal(c.Inputs[i].Data)
			if string(bi) != string(bj) || fmt.Sprint(c.Inputs[i].Shape) == fmt.Sprint(c.Inputs[j].Shape) {
				continue
			}
			inputs[j] = tensor.New(tensor.WithShape(c.Inputs[j].Shape...), tensor.WithBacking(inputs[i].Data()))
			found = true
			break
		}
	}
	return inputs, found, nil
}

// shareAttrBacking re-homes the list-valued attributes of a node in ONE array per element type: every list is a sub-slice whose
// spare capacity runs over the lists that follow it (a proto built by hand from one parameter vector looks like this). Returns a
// function that reports whether any attribute value has changed since.
func shareAttrBacking(node *onnx.NodeProto) (changed func() string, any bool) {
	var fl []float32
	var in []int64
	for _, a := range node.Attribute {
		fl = append(fl, a.Floats...)
		in = append(in, a.Ints...)
	}
	if len(fl)+len(in) == 0 {
		return nil, false
	}
	fl = append(make([]float32, 0, len(fl)+4), fl...)
	in = append(make([]int64, 0, len(in)+4), in...)
	fo, io := 0, 0
	for _, a := range node.Attribute {
		if n := len(a.Floats); n > 0 {
			a.Floats = fl[fo : fo+n]
			fo += n
		}
		if n := len(a.Ints); n > 0 {
			a.Ints = in[io : io+n]
			io += n
		}
	}
	wantF, wantI := append([]float32{}, fl...), append([]int64{}, in...)
	return func() string {
		for i := range wantF {
			if math.Float32bits(fl[i]) != math.Float32bits(wantF[i]) {
				return fmt.Sprintf("float attribute storage changed at offset %d: %v -> %v", i, wantF[i], fl[i])
			}
		}
		for i := range wantI {
			if in[i] != wantI[i] {
				return fmt.Sprintf("integer attribute storage changed at offset %d: %v -> %v", i, wantI[i], in[i])
			}
		}
		return ""
	}, true
}

// execOpAPISharedAttrs: the operator is initialised from a node whose attribute lists share one array (see shareAttrBacking),
// twice (a model initialises a node's operator on every Run), and applied; the node must still hold its attribute values.
func execOpAPISharedAttrs(c *Case) (Observation, bool) {
	ins, outs := ioNames(c)
	node, err := mkNode(c.Op, c.Attrs, ins, outs)
	if err != nil {
		return Observation{Kind: "harness", Note: err.Error()}, false
	}
	changed, ok := shareAttrBacking(node)
	if !ok {
		return Observation{}, false
	}
	inputs, err := mkInputs(c)
	if err != nil {
		return Observation{Kind: "harness", Note: err.Error()}, false
	}
	var obs Observation
	for k := 0; k < 2; k++ {
		obs = guard(func() Observation {
			op, err := opset13.GetOperator(c.Op)
			if err != nil {
				return observeErr(err)
			}
			if err := op.Init(node); err != nil {
				return observeErr(err)
			}
			v, err := op.ValidateInputs(inputs)
			if err != nil {
				return observeErr(err)
			}
			res, err := op.Apply(v)
			if err != nil {
				return observeErr(err)
			}
			return valueObs(res)
		})
		if d := changed(); d != "" {
			return Observation{Kind: "nil", Note: "the node's attributes were modified: " + d}, true
		}
	}
	return obs, true
}

// execOpAPIEditedAttrs: the caller builds its node once and edits the attribute OBJECTS in place between two uses (same
// AttributeProto pointers, same backing arrays, same lengths, other numbers) - a tool that sweeps an axis or a coefficient does
// that. A fresh operator is initialised and applied with the other numbers first, then the numbers of the case are written back
// into the same objects and another fresh operator is initialised and applied: it is held to the outcome of the case. Whatever an
// operator (or anything else) remembered about the attribute objects, the second operator is a function of what they hold now.
func execOpAPIEditedAttrs(c *Case) (Observation, bool) {
	ins, outs := ioNames(c)
	node, err := mkNode(c.Op, c.Attrs, ins, outs)
	if err != nil {
		return Observation{Kind: "harness", Note: err.Error()}, false
	}
	type saved struct {
		i    int64
		f    float32
		ints []int64
		fls  []float32
	}
	keep := make([]saved, len(node.Attribute))
	any := false
	for k, a := range node.Attribute {
		keep[k] = saved{i: a.I, f: a.F, ints: append([]int64{}, a.Ints...), fls: append([]float32{}, a.Floats...)}
		switch a.Type {
		case onnx.AttributeProto_INT:
			if a.I == 0 {
				a.I = 1
			} else {
				a.I = 0
			}
			any = true
		case onnx.AttributeProto_FLOAT:
			a.F += 1
			any = true
		case onnx.AttributeProto_INTS:
			for i, v := range a.Ints {
				if v == 0 {
					a.Ints[i] = 1
				} else {
					a.Ints[i] = 0
				}
				any = true
			}
		case onnx.AttributeProto_FLOATS:
			for i := range a.Floats {
				a.Floats[i] += 1
				any = true
			}
		}
	}
	if !any {
		return Observation{}, false
	}
	apply := func() Observation {
		inputs, err := mkInputs(c)
		if err != nil {
			return Observation{Kind: "harness", Note: err.Error()}
		}
		return guard(func() Observation {
			op, err := opset13.GetOperator(c.Op)
			if err != nil {
				return observeErr(err)
			}
			if err := op.Init(node); err != nil {
				return observeErr(err)
			}
			v, err := op.ValidateInputs(inputs)
			if err != nil {
				return observeErr(err)
			}
			res, err := op.Apply(v)
			if err != nil {
				return observeErr(err)
			}
			return valueObs(res)
		})
	}
	_ = apply() // (with the other numbers: any outcome - they need not be a valid request)
	for k, a := range node.Attribute {
		a.I, a.F = keep[k].i, keep[k].f
		copy(a.Ints, keep[k].ints)
		copy(a.Floats, keep[k].fls)
	}
	return apply(), true
}

// execOpAPINegNaN: "NaN" in the specification is any NaN. The harness builds its NaN operands with the sign bit clear; the NaN that
// amd64 arithmetic produces (0*Inf, Inf-Inf, 0/0) has the sign bit SET. The case is executed again with every NaN operand element
// replaced by that one; the expected outcome is the same (numeric comparison: a NaN is expected where a NaN is expected).
func execOpAPINegNaN(c *Case) (Observation, bool) {
	if c.Cmp == "bits" || c.Cmp == "rawbits" {
		return Observation{}, false
	}
	inputs, err := mkInputs(c)
	if err != nil {
		return Observation{}, false
	}
	any := false
	for _, t := range inputs {
		if t == nil || t.Shape().TotalSize() == 0 {
			continue
		}
		if t.IsScalar() {
			continue // (the backing of a scalar is a value: covered through the one-element cases)
		}
		switch d := t.Data().(type) {
		case []float32:
			for i, v := range d {
				if v != v {
					d[i] = math.Float32frombits(math.Float32bits(v) | 0x80000000)
					any = true
				}
			}
		case []float64:
			for i, v := range d {
				if v != v {
					d[i] = math.Float64frombits(math.Float64bits(v) | 0x8000000000000000)
					any = true
				}
			}
		}
	}
	if !any {
		return Observation{}, false
	}
	ins, outs := ioNames(c)
	node, err := mkNode(c.Op, c.Attrs, ins, outs)
	if err != nil {
		return Observation{}, false
	}
	return guard(func() Observation {
		op, err := opset13.GetOperator(c.Op)
		if err != nil {
			return observeErr(err)
		}
		if err := op.Init(node); err != nil {
			return observeErr(err)
		}
		v, err := op.ValidateInputs(inputs)
		if err != nil {
			return observeErr(err)
		}
		res, err := op.Apply(v)
		if err != nil {
			return observeErr(err)
		}
		return valueObs(res)
	}), true
}

// cloneOperandsFor: the spare-capacity mode also uses cloned operands (unless two positions must be one object)
func cloneOperandsFor(c *Case) bool { return len(c.Same) == 0 }

// execOpAPIRefilled: ONE operator instance is applied to the input tensor objects while they hold other float values, the caller
// then refills the same objects with the values of the case, and the same instance is applied again; the second result is
// judged. Whatever an instance remembers about a tensor object (a copy of its contents, a derived table) is stale by then.
func execOpAPIRefilled(c *Case) (Observation, bool) {
	ins, outs := ioNames(c)
	node, err := mkNode(c.Op, c.Attrs, ins, outs)
	if err != nil {
		return Observation{Kind: "harness", Note: err.Error()}, false
	}
	inputs, err := mkInputs(c)
	if err != nil {
		return Observation{Kind: "harness", Note: err.Error()}, false
	}
	type saved struct {
		f32 []float32
		f64 []float64
		i64 []int64
		i32 []int32
	}
	keep := make([]saved, len(inputs))
	any := false
	seen := map[tensor.Tensor]bool{}
	for i, t := range inputs {
		if t == nil || seen[t] {
			continue // (an object that stands at two positions is refilled once)
		}
		size := 1
		for _, d := range t.Shape() {
			size *= d
		}
		if size == 0 {
			seen[t] = true
			continue // (the tensor library cannot hand out the data of a tensor without elements)
		}
		seen[t] = true
		switch d := t.Data().(type) {
		case []float32:
			keep[i].f32 = append([]float32{}, d...)
			for k := range d {
				d[k] = d[(k+1)%len(d)]*0.5 - 1.25
			}
			any = true
		case []float64:
			keep[i].f64 = append([]float64{}, d...)
			for k := range d {
				d[k] = d[(k+1)%len(d)]*0.5 - 1.25
			}
			any = true
		case []int64:
			// index-like operands (starts, ends, axes, shapes, indices) hold zeros during the first application
			keep[i].i64 = append([]int64{}, d...)
			for k := range d {
				d[k] = 0
			}
			any = true
		case []int32:
			keep[i].i32 = append([]int32{}, d...)
			for k := range d {
				d[k] = 0
			}
			any = true
		}
	}
	if !any {
		return Observation{}, false
	}
	var op ops.Operator
	first := guard(func() Observation {
		o, err := opset13.GetOperator(c.Op)
		if err != nil {
			return observeErr(err)
		}
		if err := o.Init(node); err != nil {
			return observeErr(err)
		}
		op = o
		v, err := o.ValidateInputs(inputs)
		if err != nil {
			return observeErr(err)
		}
		if _, err := o.Apply(v); err != nil {
			return observeErr(err)
		}
		return Observation{Kind: "value"}
	})
	if first.Kind == "panic" {
		first.Note = "first application (other values in the same tensors): " + first.Note
		return first, true
	}
	if op == nil {
		return Observation{}, false
	}
	for i, t := range inputs {
		if t == nil || (keep[i].f32 == nil && keep[i].f64 == nil && keep[i].i64 == nil && keep[i].i32 == nil) {
			continue
		}
		switch d := t.Data().(type) {
		case []float32:
			if keep[i].f32 == nil {
				continue
			}
			copy(d, keep[i].f32)
		case []float64:
			copy(d, keep[i].f64)
		case []int64:
			copy(d, keep[i].i64)
		case []int32:
			copy(d, keep[i].i32)
		}
	}
	return guard(func() Observation {
		v, err := op.ValidateInputs(inputs)
		if err != nil {
			return observeErr(err)
		}
		res, err := op.Apply(v)
		if err != nil {
			return observeErr(err)
		}
		return valueObs(res)
	}), true
}

// execOpAPITwice applies two fresh operator instances, one after the other, to the SAME input tensor objects and returns the
// second observation: an operator that writes into (or reshapes) what it is given makes the second application deviate.
func execOpAPITwice(c *Case) Observation {
	ins, outs := ioNames(c)
	node, err := mkNode(c.Op, c.Attrs, ins, outs)
	if err != nil {
		return Observation{Kind: "harness", Note: err.Error()}
	}
	inputs, err := mkInputs(c)
	if err != nil {
		return Observation{Kind: "harness", Note: err.Error()}
	}
	var obs Observation
	orig := append([]tensor.Tensor{}, inputs...)
	for k := 0; k < 2; k++ {
		obs = guard(func() Observation {
			op, err := opset13.GetOperator(c.Op)
			if err != nil {
				return observeErr(err)
			}
			if err := op.Init(node); err != nil {
				return observeErr(err)
			}
			validated, err := op.ValidateInputs(inputs)
			if err != nil {
				return observeErr(err)
			}
			res, err := op.Apply(validated)
			if err != nil {
				return observeErr(err)
			}
			return valueObs(res)
		})
		// the argument list is the caller's: the tensors in it are the ones the caller put there (an operator that swaps in a
		// private copy or view makes the caller's next use of that list act on something else)
		for i := range orig {
			if inputs[i] != orig[i] {
				return Observation{Kind: "nil", Note: fmt.Sprintf("after application %d the caller's argument list holds another tensor object at position %d", k+1, i)}
			}
		}
	}
	return obs
}

// singleNodeModel builds the model of a case; inputs with index >= firstInit (and non-nil) become initializers.
func singleNodeModel(c *Case, firstInit int) ([]byte, error) {
	ins, outs := ioNames(c)
	node, err := mkNode(c.Op, c.Attrs, ins, outs)
	if err != nil {
		return nil, err
	}
	g := &onnx.GraphProto{Name: "case", Node: []*onnx.NodeProto{node}}
	for i, at := range c.Inputs {
		if at.Nil || c.sameAs(i) >= 0 {
			continue
		}
		if i >= firstInit {
			enc := at.Enc
			if enc == "" {
				enc = []string{"raw", "typed"}[i%2]
			}
			tp, err := mkTensorProto(ins[i], at, enc)
			if err != nil {
				return nil, err
			}
			g.Initializer = append(g.Initializer, tp)
		} else {
			g.Input = append(g.Input, mkValueInfo(ins[i], at.Dt, fixedDims(at.Shape)))
		}
	}
	for _, o := range outs {
		g.Output = append(g.Output, &onnx.ValueInfoProto{Name: o})
	}
	return proto.Marshal(mkModel(g, 13))
}

func collect(outs []string, res gonnx.Tensors) Observation {
	ts := make([]tensor.Tensor, len(outs))
	for i, o := range outs {
		t, ok := res[o]
		if !ok {
			return Observation{Kind: "nil", Note: "declared output " + o + " missing from the result"}
		}
		ts[i] = t
	}
	return valueObs(ts)
}

func execOpRun(c *Case, firstInit int, times int) []Observation {
	ins, outs := ioNames(c)
	bytesModel, err := singleNodeModel(c, firstInit)
	if err != nil {
		return []Observation{{Kind: "harness", Note: err.Error()}}
	}
	var model *gonnx.Model
	load := guard(func() Observation {
		m, err := gonnx.NewModelFromBytes(bytesModel)
		if err != nil {
			return observeErr(err)
		}
		model = m
		return Observation{Kind: "value"}
	})
	if load.Kind != "value" {
		load.Note = "at load: " + load.Note
		return []Observation{load}
	}
	var all []Observation
	for k := 0; k < times; k++ {
		inputs, err := mkInputs(c)
		if err != nil {
			return []Observation{{Kind: "harness", Note: err.Error()}}
		}
		feed := gonnx.Tensors{}
		for i, t := range inputs {
			if t != nil && i < firstInit {
				feed[ins[i]] = t
			}
		}
		before := snapshotAll(inputs)
		obs := guard(func() Observation {
			res, err := model.Run(feed)
			if err != nil {
				return observeErr(err)
			}
			return collect(outs, res)
		})
		obs.Changed = diffSnapshots(before, snapshotAll(inputs))
		all = append(all, obs)
	}
	return all
}

var protoDtypes = map[string]bool{"f32": true, "f64": true, "i8": true, "i16": true, "i32": true, "i64": true,
	"u8": true, "u16": true, "u32": true, "u64": true, "bool": true}

// ModeResult is the verdict of one execution mode of a case.
type ModeResult struct {
	Mode    string
	Verdict string
	Obs     string
}

func execOpCase(c *Case) []ModeResult {
	modes := c.Modes
	if len(modes) == 0 {
		modes = []string{"api", "run", "init2"}
	}
	protoOK := true
	nonNil := 0
	for _, t := range c.Inputs {
		if !t.Nil {
			nonNil++
			if !protoDtypes[t.Dt] {
				protoOK = false
			}
		}
	}
	var out []ModeResult
	if r := execTiled(c); r != nil {
		out = append(out, *r)
	}
	if r := execPadded(c); r != nil {
		out = append(out, *r)
	}
	if c.Repeat > 1 {
		// an operator is a function of its operands: the same case, executed again and again on fresh instances and fresh
		// tensors, returns the same bits every time (whichever of several allowed values it is)
		first := ""
		verdict := "pass"
		for k := 1; k <= c.Repeat && verdict == "pass"; k++ {
			o := execOpAPI(c)
			sig := o.Kind + ":" + o.Errc
			if o.Kind == "value" {
				for _, t := range o.Value {
					sn := TakeSnapshot(t)
					sig += sn.String() + sn.Bits + ";"
				}
			}
			if k == 1 {
				first = sig
			} else if sig != first {
				verdict = fmt.Sprintf("violation:execution %d of %d returned other bits than the first one: %.300s instead of %.300s", k, c.Repeat, sig, first)
			}
		}
		out = append(out, ModeResult{"api:repeated-bitwise", verdict, ""})
	}
	for _, m := range modes {
		switch m {
		case "api":
			o := execOpAPI(c)
			out = append(out, ModeResult{"api", Verdict(c, o), o.Short()})
			if o.Kind == "value" {
				o2 := execOpAPITwice(c)
				out = append(out, ModeResult{"api:same-tensors-twice", Verdict(c, o2), o2.Short()})
				o6 := execOpAPISpare(c, true)
				out = append(out, ModeResult{"api:spare-capacity", Verdict(c, o6), o6.Short()})
				if shared, ok, err := mkInputsOverOneBuffer(c); err == nil && ok {
					ins, outs := ioNames(c)
					if node, err := mkNode(c.Op, c.Attrs, ins, outs); err == nil {
						o9 := guard(func() Observation {
							op, err := opset13.GetOperator(c.Op)
							if err != nil {
								return observeErr(err)
							}
							if err := op.Init(node); err != nil {
								return observeErr(err)
							}
							v, err := op.ValidateInputs(shared)
							if err != nil {
								return observeErr(err)
							}
							res, err := op.Apply(v)
							if err != nil {
								return observeErr(err)
							}
							return valueObs(res)
						})
						out = append(out, ModeResult{"api:operands-over-one-buffer", Verdict(c, o9), o9.Short()})
					}
				}
				if o8, ok := execOpAPISharedAttrs(c); ok {
					out = append(out, ModeResult{"api:attributes-in-one-array", Verdict(c, o8), o8.Short()})
				}
				if o11, ok := execOpAPINegNaN(c); ok {
					out = append(out, ModeResult{"api:nan-sign-bit-set", Verdict(c, o11), o11.Short()})
				}
				if o10, ok := execOpAPIEditedAttrs(c); ok {
					out = append(out, ModeResult{"api:attribute-objects-edited-in-place", Verdict(c, o10), o10.Short()})
				}
				if o7, ok := execOpAPIRefilled(c); ok {
					out = append(out, ModeResult{"api:one-instance-buffers-refilled", Verdict(c, o7), o7.Short()})
				}
			}
			if len(c.Same) == 0 {
				// operands that are equal tensors may be the very same object (Gemm(X, X), Add(v, v), ...)
				alias := *c
				alias.Same = make([]int, len(c.Inputs))
				found := false
				for i := range c.Inputs {
					alias.Same[i] = -1
					if c.Inputs[i].Nil {
						continue
					}
					bi, _ := json.Marshal(c.Inputs[i])
					for j := 0; j < i; j++ {
						if c.Inputs[j].Nil {
							continue
						}
						bj, _ := json.Marshal(c.Inputs[j])
						if string(bi) == string(bj) {
							alias.Same[i], found = j, true
							break
						}
					}
				}
				if found {
					o4 := execOpAPI(&alias)
					out = append(out, ModeResult{"api:equal-operands-one-object", Verdict(c, o4), o4.Short()})
				}
			}
			if len(c.Attrs) >= 2 {
				// the order of a node's attributes carries no meaning
				rev := *c
				rev.Attrs = make([]Attr, len(c.Attrs))
				for i, a := range c.Attrs {
					rev.Attrs[len(c.Attrs)-1-i] = a
				}
				o3 := execOpAPI(&rev)
				out = append(out, ModeResult{"api:attributes-reversed", Verdict(c, o3), o3.Short()})
			}
		case "run":
			for _, o := range execOpRun(c, len(c.Inputs), 1) {
				out = append(out, ModeResult{"run", Verdict(c, o), o.Short()})
			}
		case "init2":
			if !protoOK {
				continue
			}
			if nonNil >= 2 {
				for k, o := range execOpRun(c, 1, 2) {
					out = append(out, ModeResult{fmt.Sprintf("init2#%d", k+1), Verdict(c, o), o.Short()})
				}
			}
			// every input a weight (the first one too), the model run twice
			if nonNil >= 1 && len(c.Same) == 0 {
				for k, o := range execOpRun(c, 0, 2) {
					out = append(out, ModeResult{fmt.Sprintf("init-all#%d", k+1), Verdict(c, o), o.Short()})
				}
			}
		}
	}
	return out
}

// helper calls: functions of package ops that the properties name directly (C14).
func execHelperCase(c *Case) []ModeResult {
	o := execHelper(c)
	if o.Kind == "harness" {
		return []ModeResult{{"helper", "harness:" + o.Note, ""}}
	}
	out := []ModeResult{{"helper", Verdict(c, o), o.Short()}}
	if r := execTiled(c); r != nil {
		out = append(out, *r)
	}
	if shared, ok, err := mkInputsOverOneBuffer(c); err == nil && ok {
		o2 := execHelperOn(c, shared)
		out = append(out, ModeResult{"helper:operands-over-one-buffer", Verdict(c, o2), o2.Short()})
	}
	if r := execHelperRefilled(c); r != nil {
		out = append(out, *r)
	}
	return out
}

// execHelperRefilled: the caller re-uses its two tensor objects as input buffers - broadcast, overwrite the data of both in place
// (every element + 7), broadcast again. The second result must be built from the new contents. float32 cases only.
func execHelperRefilled(c *Case) *ModeResult {
	if c.Allowed.Must != "value" || len(c.Inputs) != 2 || c.Inputs[0].Dt != "f32" || c.Inputs[1].Dt != "f32" {
		return nil
	}
	inputs, err := mkInputs(c)
	if err != nil {
		return nil
	}
	call := func() Observation {
		return guard(func() Observation {
			var a, b tensor.Tensor
			var err error
			if c.Op == "MultidirectionalBroadcast" {
				a, b, err = ops.MultidirectionalBroadcast(inputs[0], inputs[1])
			} else {
				a, b, err = ops.UnidirectionalBroadcast(inputs[0], inputs[1])
			}
			if err != nil {
				return observeErr(err)
			}
			return valueObs([]tensor.Tensor{a, b})
		})
	}
	if first := call(); first.Kind != "value" {
		return nil // decided by the plain mode
	}
	for _, t := range inputs {
		switch d := t.Data().(type) {
		case []float32:
			for i := range d {
				d[i] += 7
			}
		case float32:
			return nil // a scalar's value cannot be overwritten through Data()
		}
	}
	shifted := *c
	shifted.Allowed.Value = make([]AbsTensor, len(c.Allowed.Value))
	for i, t := range c.Allowed.Value {
		nt := t
		nt.Data = make([]Elem, len(t.Data))
		for k, e := range t.Data {
			if e.Kind != "int" {
				return nil
			}
			nt.Data[k] = IntElem(e.I + 7)
		}
		shifted.Allowed.Value[i] = nt
	}
	shifted.Keep = false
	o := call()
	return &ModeResult{"helper:buffers-refilled", Verdict(&shifted, o), o.Short()}
}

func execHelper(c *Case) Observation {
	inputs, err := mkInputs(c)
	if err != nil {
		return Observation{Kind: "harness", Note: err.Error()}
	}
	return execHelperOn(c, inputs)
}

func execHelperOn(c *Case, inputs []tensor.Tensor) Observation {
	before := snapshotAll(inputs)
	o := guard(func() Observation {
		switch c.Op {
		case "MultidirectionalBroadcast":
			a, b, err := ops.MultidirectionalBroadcast(inputs[0], inputs[1])
			if err != nil {
				return observeErr(err)
			}
			return valueObs([]tensor.Tensor{a, b})
		case "UnidirectionalBroadcast":
			a, b, err := ops.UnidirectionalBroadcast(inputs[0], inputs[1])
			if err != nil {
				return observeErr(err)
			}
			return valueObs([]tensor.Tensor{a, b})
		}
		return Observation{Kind: "harness", Note: "unknown helper " + c.Op}
	})
	o.Changed = diffSnapshots(before, snapshotAll(inputs))
	return o
}
