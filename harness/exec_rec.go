package main

// C06 (iii): a recurrent operator run on a whole sequence must equal two runs on the two pieces with the
// real final state of the first fed into the second, both at operator level and as two Model.Run calls.

import (
	"encoding/json"
	"fmt"

	"github.com/advancedclimatesystems/gonnx"
	"github.com/advancedclimatesystems/gonnx/onnx"
	"github.com/advancedclimatesystems/gonnx/ops/opset13"
	"google.golang.org/protobuf/proto"
	"gorgonia.org/tensor"
)

func init() { execKinds["recsplit"] = execRecSplit }

func sliceSeq(x AbsTensor, from, to int) AbsTensor {
	per := x.Shape[1] * x.Shape[2]
	return AbsTensor{Dt: x.Dt, Shape: []int{to - from, x.Shape[1], x.Shape[2]}, Data: x.Data[from*per : to*per]}
}

func execRecSplit(c *Case) []ModeResult {
	var x struct {
		K int `json:"k"`
	}
	if err := json.Unmarshal(c.X, &x); err != nil {
		return []ModeResult{{"recsplit", "infra:" + err.Error(), ""}}
	}
	S := c.Inputs[0].Shape[0]
	if x.K < 1 || x.K >= S {
		return []ModeResult{{"recsplit", "infra:bad split point", ""}}
	}
	pieces := []AbsTensor{sliceSeq(c.Inputs[0], 0, x.K), sliceSeq(c.Inputs[0], x.K, S)}
	ins, outs := ioNames(c)

	// ---- operator level
	apiObs := guard(func() Observation {
		var ys []tensor.Tensor
		var state []tensor.Tensor // Y_h (, Y_c) of the previous piece
		for p := 0; p < 2; p++ {
			node, err := mkNode(c.Op, c.Attrs, ins, outs)
			if err != nil {
				return Observation{Kind: "harness", Note: err.Error()}
			}
			inputs, err := mkInputs(c)
			if err != nil {
				return Observation{Kind: "harness", Note: err.Error()}
			}
			xt, _ := MkTensor(pieces[p])
			inputs[0] = xt
			if p == 1 {
				inputs[5] = state[0]
				if c.Op == "LSTM" {
					inputs[6] = state[1]
				}
			}
			op, err := opset13.GetOperator(c.Op)
			if err != nil {
				return observeErr(err)
			}
			if err := op.Init(node); err != nil {
				return observeErr(err)
			}
			v, err := op.ValidateInputs(inputs)
			if err != nil {
				return observeErr(err)
			}
			res, err := op.Apply(v)
			if err != nil {
				return observeErr(err)
			}
			if len(res) < c.Nout {
				return Observation{Kind: "nil", Note: fmt.Sprintf("piece %d returned %d outputs", p+1, len(res))}
			}
			ys = append(ys, res[0])
			state = res[1:]
		}
		y, err := tensor.Concat(0, ys[0], ys[1])
		if err != nil {
			return Observation{Kind: "harness", Note: "concat of the two Y pieces: " + err.Error()}
		}
		return valueObs(append([]tensor.Tensor{y}, state...))
	})
	res := []ModeResult{{"split-api", Verdict(c, apiObs), apiObs.Short()}}

	// ---- two Model.Run calls on one model: X (dynamic length) and the initial states are graph inputs, weights are initializers
	runObs := guard(func() Observation {
		node, err := mkNode(c.Op, c.Attrs, ins, outs)
		if err != nil {
			return Observation{Kind: "harness", Note: err.Error()}
		}
		g := &onnx.GraphProto{Name: "split", Node: []*onnx.NodeProto{node}}
		stateIdx := map[int]bool{0: true, 5: true}
		if c.Op == "LSTM" {
			stateIdx[6] = true
		}
		for i, at := range c.Inputs {
			if at.Nil {
				continue
			}
			if stateIdx[i] {
				dims := fixedDims(at.Shape)
				if i == 0 {
					dims[0] = DimSpec{Param: "seq"}
				}
				g.Input = append(g.Input, mkValueInfo(ins[i], at.Dt, dims))
			} else {
				tp, err := mkTensorProto(ins[i], at, []string{"raw", "typed"}[i%2])
				if err != nil {
					return Observation{Kind: "harness", Note: err.Error()}
				}
				g.Initializer = append(g.Initializer, tp)
			}
		}
		for _, o := range outs {
			g.Output = append(g.Output, &onnx.ValueInfoProto{Name: o})
		}
		b, err := proto.Marshal(mkModel(g, 13))
		if err != nil {
			return Observation{Kind: "harness", Note: err.Error()}
		}
		m, err := gonnx.NewModelFromBytes(b)
		if err != nil {
			return observeErr(err)
		}
		var ys []tensor.Tensor
		var state []tensor.Tensor
		for p := 0; p < 2; p++ {
			feed := gonnx.Tensors{}
			xt, _ := MkTensor(pieces[p])
			feed[ins[0]] = xt
			for i := range c.Inputs {
				if i == 0 || !stateIdx[i] || c.Inputs[i].Nil {
					continue
				}
				if p == 0 {
					t, _ := MkTensor(c.Inputs[i])
					feed[ins[i]] = t
				} else {
					feed[ins[i]] = state[i-5]
				}
			}
			out, err := m.Run(feed)
			if err != nil {
				return observeErr(err)
			}
			o := collect(outs, out)
			if o.Kind != "value" {
				return o
			}
			ys = append(ys, o.Value[0])
			state = o.Value[1:]
		}
		y, err := tensor.Concat(0, ys[0], ys[1])
		if err != nil {
			return Observation{Kind: "harness", Note: "concat of the two Y pieces: " + err.Error()}
		}
		return valueObs(append([]tensor.Tensor{y}, state...))
	})
	res = append(res, ModeResult{"split-run", Verdict(c, runObs), runObs.Short()})
	return res
}
