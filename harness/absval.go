package main

// Abstract element values of the TLA+ specification (spec/Values.tla) and their
// concretisation into / abstraction from the Go element types. This file is the
// trusted bridge between the value domain of the specification and gorgonia tensors.

import (
	"encoding/json"
	"fmt"
	"math"
	"math/big"
	"strings"
	"unsafe"

	"gorgonia.org/tensor"
)

// Elem is one abstract element: a small integer, a boolean, or an extended record.
type Elem struct {
	Kind string // "int", "bool", "rec", "bytes" (little-endian image of the element)
	Raw  []byte
	I    int64
	B    bool
	C    string // record class: fin nz max nmax pinf ninf nan sym raw
	N, D int64
}

func (e Elem) MarshalJSON() ([]byte, error) {
	switch e.Kind {
	case "int":
		return json.Marshal(e.I)
	case "bool":
		return json.Marshal(e.B)
	case "bytes":
		bs := make([]int, len(e.Raw))
		for i, v := range e.Raw {
			bs[i] = int(v)
		}
		return json.Marshal(bs)
	default:
		return json.Marshal(map[string]interface{}{"c": e.C, "n": e.N, "d": e.D})
	}
}

func (e *Elem) UnmarshalJSON(b []byte) error {
	s := strings.TrimSpace(string(b))
	switch {
	case s == "true" || s == "false":
		e.Kind, e.B = "bool", s == "true"
		return nil
	case strings.HasPrefix(s, "["):
		var bs []int
		if err := json.Unmarshal(b, &bs); err != nil {
			return err
		}
		e.Kind = "bytes"
		e.Raw = make([]byte, len(bs))
		for i, v := range bs {
			e.Raw[i] = byte(v)
		}
		return nil
	case strings.HasPrefix(s, "{"):
		var r struct {
			C string `json:"c"`
			N int64  `json:"n"`
			D int64  `json:"d"`
		}
		if err := json.Unmarshal(b, &r); err != nil {
			return err
		}
		e.Kind, e.C, e.N, e.D = "rec", r.C, r.N, r.D
		return nil
	default:
		var n int64
		if err := json.Unmarshal(b, &n); err != nil {
			return fmt.Errorf("bad element %s: %w", s, err)
		}
		e.Kind, e.I = "int", n
		return nil
	}
}

func IntElem(n int64) Elem { return Elem{Kind: "int", I: n} }

// AbsTensor is the spec's tensor [dt, shape, data]. The JSON string "nil" denotes an absent tensor.
type AbsTensor struct {
	Nil   bool   `json:"-"`
	Dt    string `json:"dt"`
	Shape []int  `json:"shape"`
	Data  []Elem `json:"data"`
	// optional: how an initializer / attribute tensor is to be encoded ("raw", "typed"); default alternates
	Enc string `json:"enc,omitempty"`
}

func (t *AbsTensor) UnmarshalJSON(b []byte) error {
	s := strings.TrimSpace(string(b))
	if s == `"nil"` || strings.HasPrefix(s, `{"nil"`) {
		t.Nil = true
		return nil
	}
	type plain AbsTensor
	var p plain
	if err := json.Unmarshal(b, &p); err != nil {
		return err
	}
	*t = AbsTensor(p)
	if t.Shape == nil {
		t.Shape = []int{}
	}
	return nil
}

func (t AbsTensor) MarshalJSON() ([]byte, error) {
	if t.Nil {
		return []byte(`"nil"`), nil
	}
	type plain AbsTensor
	p := plain(t)
	if p.Shape == nil {
		p.Shape = []int{}
	}
	if p.Data == nil {
		p.Data = []Elem{}
	}
	return json.Marshal(p)
}

var dtypeOf = map[string]tensor.Dtype{
	"f32": tensor.Float32, "f64": tensor.Float64,
	"i8": tensor.Int8, "i16": tensor.Int16, "i32": tensor.Int32, "i64": tensor.Int64,
	"u8": tensor.Uint8, "u16": tensor.Uint16, "u32": tensor.Uint32, "u64": tensor.Uint64,
	"bool": tensor.Bool, "int": tensor.Int, "c64": tensor.Complex64, "c128": tensor.Complex128,
	"string": tensor.String,
}

func dtName(d tensor.Dtype) string {
	for k, v := range dtypeOf {
		if v == d {
			return k
		}
	}
	return "other:" + d.Name()
}

func intWidth(dt string) (w uint, signed bool, ok bool) {
	switch dt {
	case "i8":
		return 8, true, true
	case "i16":
		return 16, true, true
	case "i32":
		return 32, true, true
	case "i64", "int":
		return 64, true, true
	case "u8":
		return 8, false, true
	case "u16":
		return 16, false, true
	case "u32":
		return 32, false, true
	case "u64":
		return 64, false, true
	}
	return 0, false, false
}

// intBits returns the W-bit two's-complement image (in the low bits of a uint64) of the abstract integer e.
func intBits(dt string, e Elem) (uint64, error) {
	w, _, ok := intWidth(dt)
	if !ok {
		return 0, fmt.Errorf("not an integer dtype %s", dt)
	}
	var v uint64
	switch {
	case e.Kind == "int":
		v = uint64(e.I)
	case e.Kind == "bool":
		if e.B {
			v = 1
		}
	case e.Kind == "rec" && e.C == "fin" && e.D == 1:
		v = uint64(e.N)
	case e.Kind == "rec" && e.C == "sym":
		v = uint64(e.N)<<(w-1) + uint64(e.D)
	default:
		return 0, fmt.Errorf("element %+v has no integer meaning", e)
	}
	if w < 64 {
		v &= (uint64(1) << w) - 1
	}
	return v, nil
}

func floatOf(e Elem, is32 bool) (float64, error) {
	switch e.Kind {
	case "int":
		return float64(e.I), nil
	case "bool":
		if e.B {
			return 1, nil
		}
		return 0, nil
	}
	switch e.C {
	case "fin":
		r := big.NewRat(e.N, e.D)
		if is32 {
			f, _ := r.Float32()
			return float64(f), nil
		}
		f, _ := r.Float64()
		return f, nil
	case "nz":
		return math.Copysign(0, -1), nil
	case "max":
		if is32 {
			return math.MaxFloat32, nil
		}
		return math.MaxFloat64, nil
	case "nmax":
		if is32 {
			return -math.MaxFloat32, nil
		}
		return -math.MaxFloat64, nil
	case "pinf":
		return math.Inf(1), nil
	case "ninf":
		return math.Inf(-1), nil
	case "nan":
		return math.NaN(), nil
	case "tiny":
		if is32 {
			return float64(math.SmallestNonzeroFloat32), nil
		}
		return math.SmallestNonzeroFloat64, nil
	case "ntiny":
		if is32 {
			return -float64(math.SmallestNonzeroFloat32), nil
		}
		return -math.SmallestNonzeroFloat64, nil
	case "ord": // float32 given by its ordinal (order-preserving int32 image of the bits)
		return float64(f32FromOrd(int32(e.N))), nil
	}
	return 0, fmt.Errorf("element %+v has no float meaning", e)
}

// f32Ord is the order-preserving int32 image of a float32 bit pattern (-0 and +0 map to -0 -> -1? no: see below).
// Positive floats map to their bit pattern, negative floats to -(bits & 0x7fffffff); so -0 and +0 both map to 0.
func f32Ord(f float32) int32 {
	b := math.Float32bits(f)
	if b&0x80000000 != 0 {
		return -int32(b & 0x7fffffff)
	}
	return int32(b)
}

func f32FromOrd(o int32) float32 {
	if o < 0 {
		return math.Float32frombits(uint32(-o) | 0x80000000)
	}
	return math.Float32frombits(uint32(o))
}

// Concretize returns the Go value of element e in dtype dt.
func Concretize(dt string, e Elem) (interface{}, error) {
	if e.Kind == "bytes" {
		return fromLEBytes(dt, e.Raw)
	}
	switch dt {
	case "f32":
		f, err := floatOf(e, true)
		return float32(f), err
	case "f64":
		f, err := floatOf(e, false)
		return f, err
	case "bool":
		switch e.Kind {
		case "bool":
			return e.B, nil
		case "int":
			return e.I != 0, nil
		}
		return nil, fmt.Errorf("element %+v is not a bool", e)
	case "string":
		switch e.Kind {
		case "int":
			return fmt.Sprintf("s%d", e.I), nil
		case "rec":
			return fmt.Sprintf("s%s%d/%d", e.C, e.N, e.D), nil
		}
		return fmt.Sprintf("s%v", e.B), nil
	case "c64":
		f, err := floatOf(e, true)
		return complex(float32(f), 0), err
	case "c128":
		f, err := floatOf(e, false)
		return complex(f, 0), err
	}
	v, err := intBits(dt, e)
	if err != nil {
		return nil, err
	}
	switch dt {
	case "i8":
		return int8(v), nil
	case "i16":
		return int16(v), nil
	case "i32":
		return int32(v), nil
	case "i64":
		return int64(v), nil
	case "int":
		return int(int64(v)), nil
	case "u8":
		return uint8(v), nil
	case "u16":
		return uint16(v), nil
	case "u32":
		return uint32(v), nil
	case "u64":
		return v, nil
	}
	return nil, fmt.Errorf("unknown dtype %s", dt)
}

// backing builds the typed backing slice of an abstract tensor.
func backing(t AbsTensor) (interface{}, error) {
	n := len(t.Data)
	conv := func(i int) (interface{}, error) { return Concretize(t.Dt, t.Data[i]) }
	switch t.Dt {
	case "f32":
		out := make([]float32, n)
		for i := range out {
			v, err := conv(i)
			if err != nil {
				return nil, err
			}
			out[i] = v.(float32)
		}
		return out, nil
	case "f64":
		out := make([]float64, n)
		for i := range out {
			v, err := conv(i)
			if err != nil {
				return nil, err
			}
			out[i] = v.(float64)
		}
		return out, nil
	case "i8":
		out := make([]int8, n)
		for i := range out {
			v, err := conv(i)
			if err != nil {
				return nil, err
			}
			out[i] = v.(int8)
		}
		return out, nil
	case "i16":
		out := make([]int16, n)
		for i := range out {
			v, err := conv(i)
			if err != nil {
				return nil, err
			}
			out[i] = v.(int16)
		}
		return out, nil
	case "i32":
		out := make([]int32, n)
		for i := range out {
			v, err := conv(i)
			if err != nil {
				return nil, err
			}
			out[i] = v.(int32)
		}
		return out, nil
	case "i64":
		out := make([]int64, n)
		for i := range out {
			v, err := conv(i)
			if err != nil {
				return nil, err
			}
			out[i] = v.(int64)
		}
		return out, nil
	case "int":
		out := make([]int, n)
		for i := range out {
			v, err := conv(i)
			if err != nil {
				return nil, err
			}
			out[i] = v.(int)
		}
		return out, nil
	case "u8":
		out := make([]uint8, n)
		for i := range out {
			v, err := conv(i)
			if err != nil {
				return nil, err
			}
			out[i] = v.(uint8)
		}
		return out, nil
	case "u16":
		out := make([]uint16, n)
		for i := range out {
			v, err := conv(i)
			if err != nil {
				return nil, err
			}
			out[i] = v.(uint16)
		}
		return out, nil
	case "u32":
		out := make([]uint32, n)
		for i := range out {
			v, err := conv(i)
			if err != nil {
				return nil, err
			}
			out[i] = v.(uint32)
		}
		return out, nil
	case "u64":
		out := make([]uint64, n)
		for i := range out {
			v, err := conv(i)
			if err != nil {
				return nil, err
			}
			out[i] = v.(uint64)
		}
		return out, nil
	case "bool":
		out := make([]bool, n)
		for i := range out {
			v, err := conv(i)
			if err != nil {
				return nil, err
			}
			out[i] = v.(bool)
		}
		return out, nil
	case "string":
		out := make([]string, n)
		for i := range out {
			v, err := conv(i)
			if err != nil {
				return nil, err
			}
			out[i] = v.(string)
		}
		return out, nil
	case "c64":
		out := make([]complex64, n)
		for i := range out {
			v, err := conv(i)
			if err != nil {
				return nil, err
			}
			out[i] = v.(complex64)
		}
		return out, nil
	case "c128":
		out := make([]complex128, n)
		for i := range out {
			v, err := conv(i)
			if err != nil {
				return nil, err
			}
			out[i] = v.(complex128)
		}
		return out, nil
	}
	return nil, fmt.Errorf("unknown dtype %q", t.Dt)
}

// MkTensor builds the gorgonia tensor of an abstract tensor (nil for an absent one).
func MkTensor(t AbsTensor) (tensor.Tensor, error) {
	if t.Nil {
		return nil, nil
	}
	size := 1
	for _, s := range t.Shape {
		size *= s
	}
	if size != len(t.Data) {
		return nil, fmt.Errorf("abstract tensor: shape %v needs %d elements, has %d", t.Shape, size, len(t.Data))
	}
	b, err := backing(t)
	if err != nil {
		return nil, err
	}
	return tensor.New(tensor.WithShape(t.Shape...), tensor.WithBacking(b)), nil
}

// elemsOf reads every element of a real tensor in row-major order of its *logical* shape,
// through At(coord...) so that views and strides cannot fool the comparison.
func elemsOf(t tensor.Tensor) (out []interface{}, err error) {
	defer func() {
		if r := recover(); r != nil {
			err = fmt.Errorf("panic while reading tensor: %v", r)
		}
	}()
	shape := t.Shape()
	if t.IsScalar() && len(shape) == 0 {
		return []interface{}{t.ScalarValue()}, nil
	}
	size := 1
	for _, s := range shape {
		size *= s
	}
	out = make([]interface{}, 0, size)
	coord := make([]int, len(shape))
	for k := 0; k < size; k++ {
		rem := k
		for i := len(shape) - 1; i >= 0; i-- {
			coord[i] = rem % shape[i]
			rem /= shape[i]
		}
		v, e := t.At(coord...)
		if e != nil {
			return nil, fmt.Errorf("At(%v) on shape %v: %w", coord, shape, e)
		}
		out = append(out, v)
	}
	return out, nil
}

func pow2(d int64) bool { return d > 0 && d&(d-1) == 0 }

// absFloat abstracts a float64 (already exact for float32 inputs) into the spec's domain.
func absFloat(f float64, is32 bool) Elem {
	switch {
	case math.IsNaN(f):
		return Elem{Kind: "rec", C: "nan", D: 1}
	case math.IsInf(f, 1):
		return Elem{Kind: "rec", C: "pinf", D: 1}
	case math.IsInf(f, -1):
		return Elem{Kind: "rec", C: "ninf", D: 1}
	case f == 0 && math.Signbit(f):
		return Elem{Kind: "rec", C: "nz", D: 1}
	case (is32 && f == math.MaxFloat32) || (!is32 && f == math.MaxFloat64):
		return Elem{Kind: "rec", C: "max", D: 1}
	case (is32 && f == -math.MaxFloat32) || (!is32 && f == -math.MaxFloat64):
		return Elem{Kind: "rec", C: "nmax", D: 1}
	}
	if f == math.Trunc(f) && math.Abs(f) < (1<<30) {
		return IntElem(int64(f))
	}
	// dyadic rational with a small denominator
	for d := int64(2); d <= 1<<20; d *= 2 {
		x := f * float64(d)
		if x == math.Trunc(x) && math.Abs(x) < (1<<30) {
			return Elem{Kind: "rec", C: "fin", N: int64(x), D: d}
		}
	}
	// not nameable in the abstract domain: keep the float32 ordinal so it is still visible in logs
	return Elem{Kind: "rec", C: "raw", N: int64(f32Ord(float32(f))), D: 0}
}

func absInt(bits uint64, w uint, signed bool) Elem {
	// bits: W-bit image
	var sv int64
	if signed {
		shift := 64 - w
		sv = int64(bits<<shift) >> shift
	}
	const small = 1 << 30
	if signed {
		if sv > -small && sv < small {
			return IntElem(sv)
		}
		min := int64(-1) << (w - 1)
		max := -(min + 1)
		if sv-min >= 0 && sv-min < small {
			return Elem{Kind: "rec", C: "sym", N: 1, D: sv - min}
		}
		if max-sv >= 0 && max-sv < small {
			return Elem{Kind: "rec", C: "sym", N: 1, D: -(max - sv) - 1}
		}
		return Elem{Kind: "rec", C: "raw", N: sv >> 32, D: 0}
	}
	if bits < small {
		return IntElem(int64(bits))
	}
	var umax uint64 = math.MaxUint64
	if w < 64 {
		umax = (uint64(1) << w) - 1
	}
	if umax-bits < small {
		return IntElem(-int64(umax-bits) - 1)
	}
	h := uint64(1) << (w - 1)
	if bits >= h && bits-h < small {
		return Elem{Kind: "rec", C: "sym", N: 1, D: int64(bits - h)}
	}
	if bits < h && h-bits < small {
		return Elem{Kind: "rec", C: "sym", N: 1, D: -int64(h - bits)}
	}
	return Elem{Kind: "rec", C: "raw", N: int64(bits >> 32), D: 0}
}

// Abstract maps a Go element value to the abstract domain (inverse of Concretize where one exists).
func Abstract(v interface{}) Elem {
	switch x := v.(type) {
	case float32:
		return absFloat(float64(x), true)
	case float64:
		return absFloat(x, false)
	case bool:
		return Elem{Kind: "bool", B: x}
	case int8:
		return absInt(uint64(uint8(x)), 8, true)
	case int16:
		return absInt(uint64(uint16(x)), 16, true)
	case int32:
		return absInt(uint64(uint32(x)), 32, true)
	case int64:
		return absInt(uint64(x), 64, true)
	case int:
		return absInt(uint64(x), 64, true)
	case uint8:
		return absInt(uint64(x), 8, false)
	case uint16:
		return absInt(uint64(x), 16, false)
	case uint32:
		return absInt(uint64(x), 32, false)
	case uint64:
		return absInt(x, 64, false)
	case string:
		var n int64
		if _, err := fmt.Sscanf(x, "s%d", &n); err == nil && fmt.Sprintf("s%d", n) == x {
			return IntElem(n)
		}
	case complex64:
		if imag(x) == 0 {
			return absFloat(float64(real(x)), true)
		}
	case complex128:
		if imag(x) == 0 {
			return absFloat(real(x), false)
		}
	}
	return Elem{Kind: "rec", C: "raw", N: 0, D: 0}
}

// AbstractTensor projects a real tensor onto the spec's [dt, shape, data].
func AbstractTensor(t tensor.Tensor) (AbsTensor, error) {
	if t == nil {
		return AbsTensor{Nil: true}, nil
	}
	els, err := elemsOf(t)
	if err != nil {
		return AbsTensor{}, err
	}
	out := AbsTensor{Dt: dtName(t.Dtype()), Shape: append([]int{}, t.Shape()...), Data: make([]Elem, len(els))}
	for i, v := range els {
		out.Data[i] = Abstract(v)
	}
	return out, nil
}

// sameValue compares a real element with the concretised expected element.
// mode "bits": bit-exact (any NaN equals any NaN); mode "num": additionally -0 == +0.
// withinUlps64: float64 results within k units in the last place of the float64 reference (NaN matches NaN, zeros of either sign match).
func withinUlps64(got, want interface{}, k int64) bool {
	w, ok := want.(float64)
	if !ok {
		return got == want
	}
	g, ok := got.(float64)
	if !ok {
		return false
	}
	if w != w || g != g {
		return w != w && g != g
	}
	ord := func(f float64) int64 {
		b := math.Float64bits(f)
		if b&(1<<63) != 0 {
			return -int64(b &^ (1 << 63))
		}
		return int64(b)
	}
	d := ord(g) - ord(w)
	if d < 0 {
		d = -d
	}
	return d <= k
}

func sameValue(got, want interface{}, mode string) bool {
	if strings.HasPrefix(mode, "ulp64:") {
		k := 0
		fmt.Sscanf(mode, "ulp64:%d", &k)
		return withinUlps64(got, want, int64(k))
	}
	if strings.HasPrefix(mode, "ulp:") {
		k := 0
		fmt.Sscanf(mode, "ulp:%d", &k)
		return withinUlps(got, want, int64(k))
	}
	if mode == "rawbits" {
		switch w := want.(type) {
		case float32:
			g, ok := got.(float32)
			return ok && math.Float32bits(g) == math.Float32bits(w)
		case float64:
			g, ok := got.(float64)
			return ok && math.Float64bits(g) == math.Float64bits(w)
		}
		return got == want
	}
	switch w := want.(type) {
	case float32:
		g, ok := got.(float32)
		if !ok {
			return false
		}
		if w != w {
			return g != g
		}
		if mode == "num" {
			return g == w
		}
		return math.Float32bits(g) == math.Float32bits(w)
	case float64:
		g, ok := got.(float64)
		if !ok {
			return false
		}
		if w != w {
			return g != g
		}
		if mode == "num" {
			return g == w
		}
		return math.Float64bits(g) == math.Float64bits(w)
	}
	return got == want
}

// CompareTensor checks a real tensor against the expected abstract tensor.
func CompareTensor(want AbsTensor, got tensor.Tensor, mode string) (bool, string) {
	if want.Nil {
		if got == nil {
			return true, ""
		}
		return false, "expected absent tensor, got one"
	}
	if got == nil {
		return false, "nil tensor"
	}
	if dtName(got.Dtype()) != want.Dt {
		return false, fmt.Sprintf("dtype %s, expected %s", dtName(got.Dtype()), want.Dt)
	}
	gs := got.Shape()
	if len(gs) != len(want.Shape) {
		return false, fmt.Sprintf("shape %v, expected %v", []int(gs), want.Shape)
	}
	for i := range gs {
		if gs[i] != want.Shape[i] {
			return false, fmt.Sprintf("shape %v, expected %v", []int(gs), want.Shape)
		}
	}
	els, err := elemsOf(got)
	if err != nil {
		return false, err.Error()
	}
	if len(els) != len(want.Data) {
		return false, fmt.Sprintf("%d elements, expected %d", len(els), len(want.Data))
	}
	for i, v := range els {
		w, err := Concretize(want.Dt, want.Data[i])
		if err != nil {
			return false, "harness: " + err.Error()
		}
		if b, isBool := v.(bool); isBool {
			// a Go bool must hold 0 or 1; any other byte pattern prints as true but breaks ==, != and !
			if raw := *(*byte)(unsafe.Pointer(&b)); raw > 1 {
				return false, fmt.Sprintf("element %d is a bool with the byte pattern %d (not a canonical true/false)", i, raw)
			}
		}
		if !sameValue(v, w, mode) {
			return false, fmt.Sprintf("element %d is %v, expected %v", i, v, w)
		}
	}
	return true, ""
}

// Snapshot is a deep, comparable image of a tensor (shape, strides, dtype, every element bit pattern).
type Snapshot struct {
	Nil     bool
	Dt      string
	Shape   []int
	Strides []int
	Bits    string
}

func TakeSnapshot(t tensor.Tensor) Snapshot {
	if t == nil {
		return Snapshot{Nil: true}
	}
	var s Snapshot
	broken := false
	func() {
		// a tensor that was handed back to the tensor library's pool has no dtype any more: reading it panics
		defer func() {
			if r := recover(); r != nil {
				s = Snapshot{Dt: "destroyed", Bits: fmt.Sprintf("unreadable: %v", r)}
				broken = true
			}
		}()
		s = Snapshot{Dt: dtName(t.Dtype()), Shape: append([]int{}, t.Shape()...), Strides: append([]int{}, t.Strides()...)}
	}()
	if broken {
		return s
	}
	func() {
		defer func() {
			if r := recover(); r != nil {
				s.Bits = fmt.Sprintf("unreadable: %v", r)
			}
		}()
		s.Bits = bitsString(t.Data())
	}()
	return s
}

func bitsString(data interface{}) string {
	switch d := data.(type) {
	case []float32:
		var sb strings.Builder
		for _, v := range d {
			fmt.Fprintf(&sb, "%08x", math.Float32bits(v))
		}
		return sb.String()
	case []float64:
		var sb strings.Builder
		for _, v := range d {
			fmt.Fprintf(&sb, "%016x", math.Float64bits(v))
		}
		return sb.String()
	case float32:
		return fmt.Sprintf("%08x", math.Float32bits(d))
	case float64:
		return fmt.Sprintf("%016x", math.Float64bits(d))
	}
	return fmt.Sprintf("%v", data)
}

func (a Snapshot) Equal(b Snapshot) bool {
	if a.Nil != b.Nil || a.Dt != b.Dt || a.Bits != b.Bits || len(a.Shape) != len(b.Shape) || len(a.Strides) != len(b.Strides) {
		return false
	}
	for i := range a.Shape {
		if a.Shape[i] != b.Shape[i] {
			return false
		}
	}
	for i := range a.Strides {
		if a.Strides[i] != b.Strides[i] {
			return false
		}
	}
	return true
}

func (a Snapshot) String() string {
	if a.Nil {
		return "nil"
	}
	b := a.Bits
	if len(b) > 64 {
		b = b[:64] + "..."
	}
	return fmt.Sprintf("%s%v/%v:%s", a.Dt, a.Shape, a.Strides, b)
}

// withinUlps compares at float32 resolution: |ord(got) - ord(want)| <= k ulps, NaN only with NaN, and any two values
// below the smallest normal float32 are taken as equal (flush-to-zero tolerance). float64 results are first rounded to
// float32 and get one extra ulp for the double rounding.
func withinUlps(got, want interface{}, k int64) bool {
	var g, w float32
	switch x := want.(type) {
	case float32:
		gg, ok := got.(float32)
		if !ok {
			return false
		}
		g, w = gg, x
	case float64:
		gg, ok := got.(float64)
		if !ok {
			return false
		}
		if gg != gg || x != x {
			return gg != gg && x != x
		}
		g, w = float32(gg), float32(x)
		k++
	default:
		return got == want
	}
	if w != w || g != g {
		return w != w && g != g
	}
	og, ow := int64(f32Ord(g)), int64(f32Ord(w))
	const minNormal = 0x00800000
	if og > -minNormal && og < minNormal && ow > -minNormal && ow < minNormal {
		return true
	}
	d := og - ow
	if d < 0 {
		d = -d
	}
	return d <= k
}

// fromLEBytes interprets the little-endian image of one element.
func fromLEBytes(dt string, b []byte) (interface{}, error) {
	var u uint64
	for i := len(b) - 1; i >= 0; i-- {
		u = u<<8 | uint64(b[i])
	}
	switch dt {
	case "f32":
		return math.Float32frombits(uint32(u)), nil
	case "f64":
		return math.Float64frombits(u), nil
	case "i8":
		return int8(u), nil
	case "i16":
		return int16(u), nil
	case "i32":
		return int32(u), nil
	case "i64":
		return int64(u), nil
	case "u8":
		return uint8(u), nil
	case "u16":
		return uint16(u), nil
	case "u32":
		return uint32(u), nil
	case "u64":
		return u, nil
	case "bool":
		return u != 0, nil
	}
	return nil, fmt.Errorf("no byte image for dtype %s", dt)
}
