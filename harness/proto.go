package main

// Construction of ONNX protobuf objects (nodes, tensors, value infos, models) from the
// JSON cases printed by the TLA+ specification.

import (
	"bytes"
	"encoding/binary"
	"fmt"
	"math"

	"github.com/advancedclimatesystems/gonnx/onnx"
)

// Attr is one node attribute of a case: kind in i, is, f, fs, s, ss, t.
type Attr struct {
	Name string  `json:"name"`
	Kind string  `json:"kind"`
	V    jsonRaw `json:"v"`
}

type jsonRaw []byte

func (r *jsonRaw) UnmarshalJSON(b []byte) error { *r = append((*r)[:0], b...); return nil }
func (r jsonRaw) MarshalJSON() ([]byte, error) {
	if len(r) == 0 {
		return []byte("null"), nil
	}
	return r, nil
}

var onnxType = map[string]int32{
	"f32": 1, "u8": 2, "i8": 3, "u16": 4, "i16": 5, "i32": 6, "i64": 7, "string": 8, "bool": 9,
	"f16": 10, "f64": 11, "u32": 12, "u64": 13, "c64": 14, "c128": 15, "bf16": 16,
}

func elemF32(e Elem) (float32, error) {
	v, err := Concretize("f32", e)
	if err != nil {
		return 0, err
	}
	return v.(float32), nil
}

func mkAttr(a Attr) (*onnx.AttributeProto, error) {
	p := &onnx.AttributeProto{Name: a.Name}
	switch a.Kind {
	case "i":
		var e Elem
		if err := jsonUnmarshal(a.V, &e); err != nil {
			return nil, err
		}
		v, err := Concretize("i64", e)
		if err != nil {
			return nil, err
		}
		p.Type, p.I = onnx.AttributeProto_INT, v.(int64)
	case "is":
		var es []Elem
		if err := jsonUnmarshal(a.V, &es); err != nil {
			return nil, err
		}
		p.Type = onnx.AttributeProto_INTS
		p.Ints = []int64{}
		for _, e := range es {
			v, err := Concretize("i64", e)
			if err != nil {
				return nil, err
			}
			p.Ints = append(p.Ints, v.(int64))
		}
	case "f":
		var e Elem
		if err := jsonUnmarshal(a.V, &e); err != nil {
			return nil, err
		}
		f, err := elemF32(e)
		if err != nil {
			return nil, err
		}
		p.Type, p.F = onnx.AttributeProto_FLOAT, f
	case "fs":
		var es []Elem
		if err := jsonUnmarshal(a.V, &es); err != nil {
			return nil, err
		}
		p.Type = onnx.AttributeProto_FLOATS
		p.Floats = []float32{}
		for _, e := range es {
			f, err := elemF32(e)
			if err != nil {
				return nil, err
			}
			p.Floats = append(p.Floats, f)
		}
	case "s":
		var s string
		if err := jsonUnmarshal(a.V, &s); err != nil {
			return nil, err
		}
		p.Type, p.S = onnx.AttributeProto_STRING, []byte(s)
	case "ss":
		var ss []string
		if err := jsonUnmarshal(a.V, &ss); err != nil {
			return nil, err
		}
		p.Type = onnx.AttributeProto_STRINGS
		for _, s := range ss {
			p.Strings = append(p.Strings, []byte(s))
		}
	case "t":
		var t AbsTensor
		if err := jsonUnmarshal(a.V, &t); err != nil {
			return nil, err
		}
		enc := t.Enc
		if enc == "" {
			enc = "raw"
		}
		tp, err := mkTensorProto("", t, enc)
		if err != nil {
			return nil, err
		}
		p.Type, p.T = onnx.AttributeProto_TENSOR, tp
	default:
		return nil, fmt.Errorf("unknown attribute kind %q", a.Kind)
	}
	return p, nil
}

func mkNode(op string, attrs []Attr, inputs, outputs []string) (*onnx.NodeProto, error) {
	n := &onnx.NodeProto{OpType: op, Input: inputs, Output: outputs, Name: "n_" + op}
	for _, a := range attrs {
		p, err := mkAttr(a)
		if err != nil {
			return nil, fmt.Errorf("attribute %s: %w", a.Name, err)
		}
		n.Attribute = append(n.Attribute, p)
	}
	return n, nil
}

// rawBytes returns the little-endian fixed-width image of all elements.
func rawBytes(t AbsTensor) ([]byte, error) {
	var buf bytes.Buffer
	for _, e := range t.Data {
		v, err := Concretize(t.Dt, e)
		if err != nil {
			return nil, err
		}
		switch x := v.(type) {
		case bool:
			if x {
				buf.WriteByte(1)
			} else {
				buf.WriteByte(0)
			}
		case int:
			_ = binary.Write(&buf, binary.LittleEndian, int64(x))
		default:
			if err := binary.Write(&buf, binary.LittleEndian, v); err != nil {
				return nil, err
			}
		}
	}
	return buf.Bytes(), nil
}

// mkTensorProto encodes an abstract tensor as a TensorProto, either in the typed repeated field
// that ONNX prescribes for its element type ("typed") or as raw little-endian bytes ("raw").
func mkTensorProto(name string, t AbsTensor, enc string) (*onnx.TensorProto, error) {
	code, ok := onnxType[t.Dt]
	if !ok {
		return nil, fmt.Errorf("dtype %s has no ONNX code", t.Dt)
	}
	tp := &onnx.TensorProto{Name: name, DataType: code}
	for _, s := range t.Shape {
		tp.Dims = append(tp.Dims, int64(s))
	}
	if enc == "raw" {
		b, err := rawBytes(t)
		if err != nil {
			return nil, err
		}
		tp.RawData = b
		return tp, nil
	}
	for _, e := range t.Data {
		v, err := Concretize(t.Dt, e)
		if err != nil {
			return nil, err
		}
		switch x := v.(type) {
		case float32:
			tp.FloatData = append(tp.FloatData, x)
		case float64:
			tp.DoubleData = append(tp.DoubleData, x)
		case int8:
			tp.Int32Data = append(tp.Int32Data, int32(x))
		case int16:
			tp.Int32Data = append(tp.Int32Data, int32(x))
		case int32:
			tp.Int32Data = append(tp.Int32Data, x)
		case uint8:
			tp.Int32Data = append(tp.Int32Data, int32(x))
		case uint16:
			tp.Int32Data = append(tp.Int32Data, int32(x))
		case bool:
			if x {
				tp.Int32Data = append(tp.Int32Data, 1)
			} else {
				tp.Int32Data = append(tp.Int32Data, 0)
			}
		case int64:
			tp.Int64Data = append(tp.Int64Data, x)
		case uint32:
			tp.Uint64Data = append(tp.Uint64Data, uint64(x))
		case uint64:
			tp.Uint64Data = append(tp.Uint64Data, x)
		default:
			return nil, fmt.Errorf("no typed field for %T", v)
		}
	}
	return tp, nil
}

// DimSpec describes one declared dimension of a value info: a fixed size (>0), a symbolic name, or unspecified.
type DimSpec struct {
	Size  int64  `json:"size"`
	Param string `json:"param"`
	// Enc selects another encoding of an unspecified dimension: "zero" an explicit dim_value 0, "symempty" a dim_param "".
	Enc string `json:"enc"`
	Den string `json:"den"` // denotation
}

func mkValueInfo(name string, dt string, dims []DimSpec) *onnx.ValueInfoProto {
	shape := &onnx.TensorShapeProto{}
	for _, d := range dims {
		dim := &onnx.TensorShapeProto_Dimension{}
		switch {
		case d.Enc == "zero":
			dim.Value = &onnx.TensorShapeProto_Dimension_DimValue{DimValue: 0}
		case d.Enc == "symempty":
			dim.Value = &onnx.TensorShapeProto_Dimension_DimParam{DimParam: ""}
		case d.Param != "":
			dim.Value = &onnx.TensorShapeProto_Dimension_DimParam{DimParam: d.Param}
		case d.Size > 0:
			dim.Value = &onnx.TensorShapeProto_Dimension_DimValue{DimValue: d.Size}
		}
		dim.Denotation = d.Den
		shape.Dim = append(shape.Dim, dim)
	}
	return &onnx.ValueInfoProto{
		Name: name,
		Type: &onnx.TypeProto{Value: &onnx.TypeProto_TensorType{TensorType: &onnx.TypeProto_Tensor{
			ElemType: onnxType[dt], Shape: shape,
		}}},
	}
}

func fixedDims(shape []int) []DimSpec {
	out := make([]DimSpec, len(shape))
	for i, s := range shape {
		out[i] = DimSpec{Size: int64(s)}
	}
	return out
}

func mkModel(graph *onnx.GraphProto, opset int64) *onnx.ModelProto {
	return &onnx.ModelProto{
		IrVersion:   7,
		OpsetImport: []*onnx.OperatorSetIdProto{{Version: opset}},
		Graph:       graph,
	}
}

var _ = math.Pi
