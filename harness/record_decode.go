package main

// Direction B for C12: random TensorProtos (all element types and other data_type codes, both encodings, rank 0..4, payloads
// of the right, a shorter and a longer length, random bit patterns, wrong typed fields) are decoded by the real
// onnx.TensorFromProto; every call is logged with the proto and the decoded tensor as little-endian byte images.
// Trace_Decode.tla recomputes Decode.DecodeAllowed for every event.

import (
	"fmt"
	"math"
	"math/rand"
	"unsafe"

	"github.com/advancedclimatesystems/gonnx/onnx"
	"gorgonia.org/tensor"
)

func init() { recorders["decode"] = recordDecode }

func leImage(v interface{}) []int {
	var u uint64
	var w int
	switch x := v.(type) {
	case float32:
		u, w = uint64(math.Float32bits(x)), 4
	case float64:
		u, w = math.Float64bits(x), 8
	case int8:
		u, w = uint64(uint8(x)), 1
	case int16:
		u, w = uint64(uint16(x)), 2
	case int32:
		u, w = uint64(uint32(x)), 4
	case int64:
		u, w = uint64(x), 8
	case uint8:
		u, w = uint64(x), 1
	case uint16:
		u, w = uint64(x), 2
	case uint32:
		u, w = uint64(x), 4
	case uint64:
		u, w = x, 8
	case bool:
		u, w = uint64(*(*byte)(unsafe.Pointer(&x))), 1
	default:
		return []int{-1}
	}
	out := make([]int, w)
	for i := 0; i < w; i++ {
		out[i] = int(u >> (8 * uint(i)) & 0xff)
	}
	return out
}

var decodeTypes = []struct {
	dt    string
	code  int32
	width int
	field string
}{{"f32", 1, 4, "float_data"}, {"u8", 2, 1, "int32_data"}, {"i8", 3, 1, "int32_data"}, {"u16", 4, 2, "int32_data"}, {"i16", 5, 2, "int32_data"},
	{"i32", 6, 4, "int32_data"}, {"i64", 7, 8, "int64_data"}, {"bool", 9, 1, "int32_data"}, {"f64", 11, 8, "double_data"}, {"u32", 12, 4, "uint64_data"}, {"u64", 13, 8, "uint64_data"}}

func carrierWidth(field string) int {
	if field == "float_data" || field == "int32_data" {
		return 4
	}
	return 8
}

func recordDecode(rec *recorder, rng *rand.Rand, trials int, repo string) int {
	fields := []string{"float_data", "int32_data", "int64_data", "double_data", "uint64_data"}
	for t := 0; t < trials*20; t++ {
		ty := decodeTypes[rng.Intn(len(decodeTypes))]
		x := protoX{Code: ty.code, Dims: []int64{}, Raw: []int{}, Vals: [][]int{}, BigDims: [][]int{}}
		if rng.Intn(15) == 0 {
			x.Code = []int32{0, 8, 10, 14, 15, 16, 99}[rng.Intn(7)]
		}
		n := 1
		for i, r := 0, rng.Intn(5); i < r; i++ {
			d := 1 + rng.Intn(3)
			if rng.Intn(25) == 0 {
				d = 0
			}
			if rng.Intn(30) == 0 {
				d = -d
			}
			x.Dims = append(x.Dims, int64(d))
			n *= d
		}
		if n < 0 {
			n = -n
		}
		if rng.Intn(12) == 0 { // a long payload: block-wise readers switch code paths beyond a few hundred elements
			long := []int{257, 513, 520, 600, 1025}[rng.Intn(5)]
			if rng.Intn(2) == 0 {
				x.Dims = []int64{int64(long)}
			} else {
				x.Dims = []int64{2, int64(long / 2)}
				long = 2 * (long / 2)
			}
			n = long
		}
		cnt := n
		switch rng.Intn(8) {
		case 0:
			cnt = n + 1
		case 1:
			if n > 0 {
				cnt = n - 1
			}
		case 2:
			cnt = 0
		}
		randByte := func() int {
			switch rng.Intn(4) {
			case 0:
				return 0
			case 1:
				return 255
			}
			return rng.Intn(256)
		}
		if rng.Intn(2) == 0 {
			x.Enc, x.Field = "raw", "none"
			for i := 0; i < cnt*ty.width; i++ {
				b := randByte()
				if ty.dt == "bool" && rng.Intn(4) > 0 {
					b = rng.Intn(2)
				}
				x.Raw = append(x.Raw, b)
			}
			if ty.width > 1 && rng.Intn(10) == 0 {
				x.Raw = append(x.Raw, randByte()) // a stray byte
			}
		} else {
			x.Enc, x.Field = "typed", ty.field
			if rng.Intn(10) == 0 {
				x.Field = fields[rng.Intn(len(fields))]
			}
			cw := carrierWidth(x.Field)
			for i := 0; i < cnt; i++ {
				v := make([]int, cw)
				for k := 0; k < cw; k++ {
					v[k] = randByte()
				}
				if ty.dt == "bool" && rng.Intn(4) > 0 {
					v = make([]int, cw)
					v[0] = rng.Intn(2)
				}
				x.Vals = append(x.Vals, v)
			}
		}
		ev := map[string]interface{}{"ev": "Decode", "tp": x, "kind": "value", "out": map[string]interface{}{"dt": "", "shape": []int{}, "data": [][]int{}}}
		o := guard(func() Observation {
			tt, err := onnx.TensorFromProto(mkProtoX(x, "w"))
			if err != nil {
				return observeErr(err)
			}
			return valueObs([]tensor.Tensor{tt})
		})
		ev["kind"] = o.Kind
		if o.Kind == "value" {
			tt := o.Value[0]
			els, err := elemsOf(tt)
			if err != nil {
				fmt.Println("decode recorder:", err)
				return 2
			}
			data := make([][]int, len(els))
			for i, v := range els {
				data[i] = leImage(v)
			}
			ev["out"] = map[string]interface{}{"dt": dtName(tt.Dtype()), "shape": append([]int{}, tt.Shape()...), "data": data}
		}
		rec.emit(ev)
	}
	return 0
}
