package main

// Direction B: drive the real code from the Go side and record ndjson traces that TLC validates against Trace_*.tla.

import (
	"bufio"
	"encoding/json"
	"flag"
	"fmt"
	"math"
	"math/rand"
	"os"
	"runtime"
	"sort"
	"strings"
	"sync"
	"sync/atomic"
	"time"

	"github.com/advancedclimatesystems/gonnx"
	"gorgonia.org/tensor"
)

type recorder struct {
	w *bufio.Writer
	n int
}

func (r *recorder) emit(ev map[string]interface{}) {
	b, _ := json.Marshal(ev)
	r.w.Write(b)
	r.w.WriteByte('\n')
	r.n++
}

func cmdRecord(args []string) int {
	if len(args) < 1 {
		fmt.Fprintln(os.Stderr, "usage: harness record <family> -out file -seed n")
		return 2
	}
	fam := args[0]
	fs := flag.NewFlagSet("record", flag.ExitOnError)
	out := fs.String("out", "trace.ndjson", "trace file")
	seed := fs.Int64("seed", 1, "PRNG seed")
	n := fs.Int("n", 20, "number of trials")
	repo := fs.String("repo", "/repo", "repository (for the sample models)")
	fs.StringVar(&opsFilter, "ops", "", "family ops: comma-separated operator names (default: all)")
	fs.StringVar(&shapeExtents, "extents", shapeExtents, "family shapes: comma-separated extents of the enumerated shape pairs")
	fs.StringVar(&concMode, "mode", "broad", "family conc: broad (all models, few Runs per goroutine) | hot (generated models only, many short Runs on 8 goroutines)")
	_ = fs.Parse(args[1:])
	f, err := os.Create(*out)
	if err != nil {
		fmt.Fprintln(os.Stderr, err)
		return 2
	}
	defer f.Close()
	rec := &recorder{w: bufio.NewWriter(f)}
	defer rec.w.Flush()
	rng := rand.New(rand.NewSource(*seed))
	var rc int
	switch fam {
	case "batch":
		rc = recordBatch(rec, rng, *n, *repo)
	default:
		if fn, ok := recorders[fam]; ok {
			rc = fn(rec, rng, *n, *repo)
		} else {
			fmt.Fprintln(os.Stderr, "unknown record family", fam)
			return 2
		}
	}
	rec.w.Flush()
	fmt.Printf("RECORDED %d events\n", rec.n)
	return rc
}

var concMode = "broad"

var recorders = map[string]func(*recorder, *rand.Rand, int, string) int{}

const scale = 65536

// classifyNonFinite: non-finite results are recorded by class instead of as "not comparable" (set by recordBatch for the models
// whose samples it gives non-finite features).
var classifyNonFinite bool

// scaled returns round(v * 2^16) as an integer TLC can hold, or a sentinel for values outside the range / non-finite values.
func scaled(v float64) int64 {
	if classifyNonFinite {
		// class codes (Trace_Batch.tla: ClassCode): which non-finite value it is, is part of the result
		switch {
		case math.IsNaN(v):
			return 2147483644
		case math.IsInf(v, 1):
			return 2147483646
		case math.IsInf(v, -1):
			return 2147483645
		}
	}
	if math.IsNaN(v) || math.IsInf(v, 0) || math.Abs(v) >= 16000 {
		return 2147483647
	}
	return int64(math.Round(v * scale))
}

// rowsAlong splits tensor t along axis `axis` and returns, per index along that axis, the scaled elements in row-major order.
func rowsAlong(t tensor.Tensor, axis int) ([][]int64, error) {
	els, err := elemsOf(t)
	if err != nil {
		return nil, err
	}
	shape := t.Shape()
	if len(shape) == 0 {
		return nil, fmt.Errorf("scalar output")
	}
	n := shape[axis]
	rows := make([][]int64, n)
	for k, v := range els {
		// coordinate along axis
		rem := k
		idx := 0
		for i := len(shape) - 1; i >= 0; i-- {
			c := rem % shape[i]
			rem /= shape[i]
			if i == axis {
				idx = c
			}
		}
		var f float64
		switch x := v.(type) {
		case float32:
			f = float64(x)
		case float64:
			f = x
		case int64:
			f = float64(x)
		case int32:
			f = float64(x)
		case bool:
			if x {
				f = 1
			}
		default:
			return nil, fmt.Errorf("non-float output %T", v)
		}
		rows[idx] = append(rows[idx], scaled(f))
	}
	return rows, nil
}

type sampleModel struct {
	name  string
	model *gonnx.Model
	// per input: shape with -1 at the batch axis and the chosen sizes for other dynamic axes
	inNames  []string
	inShapes map[string][]int
	inBatch  map[string]int
	outNames []string
	outBatch map[string]int
}

func loadSampleModel(repo, name string) (*sampleModel, error) {
	m, err := gonnx.NewModelFromFile(repo + "/sample_models/onnx_models/" + name + ".onnx")
	if err != nil {
		return nil, err
	}
	return sampleModelFrom(name, m)
}

func sampleModelFrom(name string, m *gonnx.Model) (*sampleModel, error) {
	sm := &sampleModel{name: name, model: m, inShapes: map[string][]int{}, inBatch: map[string]int{}, outBatch: map[string]int{}}
	params := map[string]bool{}
	for _, p := range m.ParamNames() {
		params[p] = true
	}
	batchAxis := func(shape []struct {
		dyn  bool
		name string
		size int
	}) int {
		for i, d := range shape {
			if d.dyn && d.name == "batch_size" {
				return i
			}
		}
		for i, d := range shape {
			if d.dyn {
				return i
			}
		}
		return -1
	}
	for _, in := range m.InputNames() {
		if params[in] {
			continue
		}
		var sh []struct {
			dyn  bool
			name string
			size int
		}
		for _, d := range m.InputShapes()[in] {
			sh = append(sh, struct {
				dyn  bool
				name string
				size int
			}{d.IsDynamic, d.Name, int(d.Size)})
		}
		ba := batchAxis(sh)
		if ba < 0 {
			return nil, fmt.Errorf("%s: input %s has no batch axis", name, in)
		}
		shape := make([]int, len(sh))
		for i, d := range sh {
			switch {
			case i == ba:
				shape[i] = -1
			case d.dyn:
				shape[i] = 3 // sequence length
			default:
				shape[i] = d.size
			}
		}
		sm.inNames = append(sm.inNames, in)
		sm.inShapes[in] = shape
		sm.inBatch[in] = ba
	}
	sort.Strings(sm.inNames)
	for _, o := range m.OutputNames() {
		var sh []struct {
			dyn  bool
			name string
			size int
		}
		for _, d := range m.OutputShapes()[o] {
			sh = append(sh, struct {
				dyn  bool
				name string
				size int
			}{d.IsDynamic, d.Name, int(d.Size)})
		}
		ba := batchAxis(sh)
		if ba < 0 {
			ba = 0
		}
		sm.outNames = append(sm.outNames, o)
		sm.outBatch[o] = ba
	}
	sort.Strings(sm.outNames)
	return sm, nil
}

// stack builds the input tensors for the given samples (each sample: per input a flat []float32 of the per-sample size).
func (sm *sampleModel) stack(samples []map[string][]float32) gonnx.Tensors {
	feed := gonnx.Tensors{}
	for _, in := range sm.inNames {
		shape := append([]int{}, sm.inShapes[in]...)
		ba := sm.inBatch[in]
		shape[ba] = len(samples)
		per := 1
		for i, s := range shape {
			if i != ba {
				per *= s
			}
		}
		size := per * len(samples)
		data := make([]float32, size)
		// element (coords) -> sample = coords[ba], offset within the sample = ravel of the other coords
		for k := 0; k < size; k++ {
			rem := k
			coords := make([]int, len(shape))
			for i := len(shape) - 1; i >= 0; i-- {
				coords[i] = rem % shape[i]
				rem /= shape[i]
			}
			off := 0
			for i := range shape {
				if i != ba {
					off = off*shape[i] + coords[i]
				}
			}
			data[k] = samples[coords[ba]][in][off]
		}
		feed[in] = tensor.New(tensor.WithShape(shape...), tensor.WithBacking(data))
	}
	return feed
}

func (sm *sampleModel) sampleSize(in string) int {
	per := 1
	for i, s := range sm.inShapes[in] {
		if i != sm.inBatch[in] {
			per *= s
		}
	}
	return per
}

func (sm *sampleModel) run(samples []map[string][]float32) (map[string][][]int64, error) {
	var res gonnx.Tensors
	var err error
	o := guard(func() Observation {
		res, err = sm.model.Run(sm.stack(samples))
		if err != nil {
			return observeErr(err)
		}
		return Observation{Kind: "value"}
	})
	if o.Kind != "value" {
		return nil, fmt.Errorf("%s", o.Short())
	}
	out := map[string][][]int64{}
	for _, name := range sm.outNames {
		rows, err := rowsAlong(res[name], sm.outBatch[name])
		if err != nil {
			return nil, err
		}
		out[name] = rows
	}
	return out, nil
}

// recordBatch: for each sample model, random batches; events Batch (all rows), Single (sample i alone), Perm (a permuted batch).
func recordBatch(rec *recorder, rng *rand.Rand, trials int, repo string) int {
	var sms []*sampleModel
	for _, name := range []string{"mlp", "gru", "ndm", "scaler"} {
		sm, err := loadSampleModel(repo, name)
		if err != nil {
			fmt.Fprintln(os.Stderr, "record batch:", err)
			return 2
		}
		sms = append(sms, sm)
	}
	for _, g := range batchSynthModels(rng) {
		b, err := buildModel(g.m)
		if err != nil {
			fmt.Fprintln(os.Stderr, "record batch: generated model", g.name, err)
			return 2
		}
		m, err := gonnx.NewModelFromBytes(b)
		if err != nil {
			fmt.Fprintln(os.Stderr, "record batch: generated model", g.name, err)
			return 2
		}
		sm, err := sampleModelFrom(g.name, m)
		if err != nil {
			fmt.Fprintln(os.Stderr, "record batch:", err)
			return 2
		}
		sms = append(sms, sm)
	}
	for _, sm := range sms {
		name := sm.name
		for t := 0; t < trials; t++ {
			n := 1 + rng.Intn(4)
			switch rng.Intn(10) {
			case 0:
				n = 5 + rng.Intn(8) // 5..12
			case 1:
				// more samples than a machine has cores, and no multiple of the usual counts
				n = []int{17, 19, 23, 29, 33, 37, 41}[rng.Intn(7)]
			}
			samples := make([]map[string][]float32, n)
			for i := range samples {
				samples[i] = map[string][]float32{}
				for _, in := range sm.inNames {
					d := make([]float32, sm.sampleSize(in))
					for k := range d {
						d[k] = float32(rng.Intn(65)-32) / 16
					}
					samples[i][in] = d
				}
			}
			classifyNonFinite = name == "pruned_dense"
			if name == "pruned_dense" {
				// every sample gets an exactly zero feature or a non-finite one (or both), at random positions
				for i := range samples {
					d := samples[i][sm.inNames[0]]
					for k := range d {
						switch rng.Intn(6) {
						case 0:
							d[k] = 0
						case 1:
							d[k] = float32(math.Inf(1))
						case 2:
							d[k] = float32(math.Inf(-1))
						case 3:
							d[k] = float32(math.NaN())
						}
					}
				}
			}
			if name == "softmax_inner_axis" && n > 1 {
				// one sample with a logit far above everything else in the batch: each sample's probabilities are its own business
				samples[rng.Intn(n)][sm.inNames[0]][rng.Intn(3)*2+rng.Intn(2)] = 3e8
			}
			emitRun := func(ev string, extra map[string]interface{}, ss []map[string][]float32) bool {
				rows, err := sm.run(ss)
				e := map[string]interface{}{"ev": ev, "model": name, "n": len(ss), "outs": sm.outNames}
				for k, v := range extra {
					e[k] = v
				}
				if err != nil {
					e["ev"] = "Failed"
					e["why"] = err.Error()
					rec.emit(e)
					return false
				}
				rr := make([][][]int64, len(sm.outNames))
				for i, o := range sm.outNames {
					rr[i] = rows[o]
				}
				if ev == "Batch" {
					// a baseline with values outside the scaled integer range (relu recurrences can grow without bound) cannot be
					// compared: the trial is not recorded
					for _, out := range rr {
						for _, row := range out {
							for _, v := range row {
								if v == 2147483647 {
									return false
								}
							}
						}
					}
				}
				e["rows"] = rr
				rec.emit(e)
				return true
			}
			if len(sm.inNames) >= 2 {
				// first a Run whose inputs disagree about the batch size (n samples for one input, n+1 for the others): it is
				// refused somewhere inside the graph, and whatever that leaves behind must not reach the Runs that follow
				mixed := sm.stack(samples)
				longer := sm.stack(append(append([]map[string][]float32{}, samples...), samples[0]))
				for _, in := range sm.inNames[1:] {
					mixed[in] = longer[in]
				}
				guard(func() Observation {
					_, _ = sm.model.Run(mixed)
					return Observation{Kind: "value"}
				})
			}
			if !emitRun("Batch", map[string]interface{}{"perm": identity(n)}, samples) {
				continue
			}
			for i := range samples {
				emitRun("Single", map[string]interface{}{"i": i + 1, "perm": []int{i + 1}}, samples[i:i+1])
			}
			perm := rng.Perm(n)
			ps := make([]map[string][]float32, n)
			p1 := make([]int, n)
			for i, p := range perm {
				ps[i] = samples[p]
				p1[i] = p + 1
			}
			emitRun("Perm", map[string]interface{}{"perm": p1}, ps)
			// a sub-selection with a repeated sample: batch size changes
			sub := []map[string][]float32{samples[0], samples[n-1], samples[0]}
			emitRun("Perm", map[string]interface{}{"perm": []int{1, n, 1}}, sub)
		}
	}
	return 0
}

func identity(n int) []int {
	p := make([]int, n)
	for i := range p {
		p[i] = i + 1
	}
	return p
}

// ---------------------------------------------------------------------------------------------------------------------
// C17 (B): free-running goroutines on shared Models, recorded for Trace_Conc.tla. Built with -race by bin/check: a data race
// makes the process exit with code 66 (GORACE=halt_on_error=1 exitcode=66), which the stage reports as a violation.

func init() { recorders["conc"] = recordConc }

func digestOf(out gonnx.Tensors, names []string) string {
	s := ""
	for _, n := range names {
		s += n + "=" + TakeSnapshotValues(out[n]).String() + TakeSnapshotValues(out[n]).Bits + ";"
	}
	h := fnv64(s)
	return fmt.Sprintf("%016x", h)
}

func fnv64(s string) uint64 {
	var h uint64 = 14695981039346656037
	for i := 0; i < len(s); i++ {
		h ^= uint64(s[i])
		h *= 1099511628211
	}
	return h
}

func recordConc(rec *recorder, rng *rand.Rand, trials int, repo string) int {
	var mu sync.Mutex
	var heartbeat atomic.Int64
	emit := func(e map[string]interface{}) {
		heartbeat.Add(1)
		mu.Lock()
		rec.emit(e)
		mu.Unlock()
	}
	// watchdog: every finished Run is a heartbeat. When nothing finishes for 120 seconds the Runs in flight will never return (the
	// longest Run of these models takes milliseconds): the recorder reports it and exits with code 3 - Runs that do not return
	// do not "return exactly what they return alone".
	go func() {
		last, since := heartbeat.Load(), time.Now()
		for {
			time.Sleep(2 * time.Second)
			if h := heartbeat.Load(); h != last {
				last, since = h, time.Now()
				continue
			}
			if time.Since(since) > 120*time.Second {
				fmt.Fprintf(os.Stderr, "HUNG: no Run has returned for %d seconds (%d events so far); the goroutines in flight are blocked\n", int(time.Since(since).Seconds()), last)
				buf := make([]byte, 1<<16)
				n := runtime.Stack(buf, true)
				fmt.Fprintf(os.Stderr, "%s\n", buf[:n])
				os.Exit(3)
			}
		}
	}()
	type namedModel struct {
		name  string
		bytes []byte
	}
	var models []namedModel
	for _, name := range []string{"mlp", "gru", "ndm", "scaler"} {
		b, err := os.ReadFile(repo + "/sample_models/onnx_models/" + name + ".onnx")
		if err != nil {
			fmt.Fprintln(os.Stderr, "record conc:", err)
			return 2
		}
		models = append(models, namedModel{name, b})
	}
	// generated models covering the operator families that read weights or decode tensors while running
	synthetic := map[string]bool{}
	for _, sm := range synthModels(rng) {
		synthetic[sm.name] = true
		b, err := buildModel(sm.m)
		if err != nil {
			fmt.Fprintln(os.Stderr, "record conc: synthetic model", sm.name, err)
			return 2
		}
		models = append(models, namedModel{sm.name, b})
	}
	for _, nm := range models {
		name, modelBytes := nm.name, nm.bytes
		if concMode == "hot" && !synthetic[name] {
			continue
		}

		m, err := gonnx.NewModelFromBytes(modelBytes)
		if err != nil {
			fmt.Fprintln(os.Stderr, "record conc:", name, err)
			return 2
		}
		sm, err := sampleModelFrom(name, m)
		if err != nil {
			fmt.Fprintln(os.Stderr, "record conc:", err)
			return 2
		}
		// first a Run that passes the signature check but fails inside an operator (an element type the first operator refuses):
		// whatever the error path leaves behind must not disturb the Runs that follow
		for _, dt := range []tensor.Dtype{tensor.Int32, tensor.Bool, tensor.Float64} {
			feed := gonnx.Tensors{}
			for _, in := range sm.inNames {
				shape := append([]int{}, sm.inShapes[in]...)
				shape[sm.inBatch[in]] = 2
				feed[in] = tensor.New(tensor.Of(dt), tensor.WithShape(shape...))
			}
			failed := false
			guard(func() Observation {
				if _, err := sm.model.Run(feed); err != nil {
					failed = true
				}
				return Observation{Kind: "value"}
			})
			if failed {
				break
			}
		}
		// (a model with tensors of a mebibyte: few Runs, they are long - what it is there for shows in every overlapping pair)
		heavy := name == "large_constant_bias"
		// a pool of inputs with their sequential baseline
		nKeys := 6
		pool := make([][]map[string][]float32, nKeys)
		for k := range pool {
			n := 1 + rng.Intn(3)
			if heavy {
				n = 1
			}
			pool[k] = make([]map[string][]float32, n)
			for i := range pool[k] {
				pool[k][i] = map[string][]float32{}
				for _, in := range sm.inNames {
					d := make([]float32, sm.sampleSize(in))
					for j := range d {
						d[j] = float32(rng.Intn(65)-32) / 16
					}
					pool[k][i][in] = d
				}
			}
			out, err := sm.model.Run(sm.stack(pool[k]))
			if err != nil {
				emit(map[string]interface{}{"ev": "Failed", "model": name, "why": err.Error(), "g": 0, "seq": 0, "key": k + 1, "digest": ""})
				continue
			}
			emit(map[string]interface{}{"ev": "Baseline", "model": name, "g": 0, "seq": 0, "key": k + 1, "digest": digestOf(out, sm.outNames)})
		}
		for _, G := range []int{2, 4, 8, 16} {
			if trials < 10 && G > 4 {
				continue
			}
			if concMode == "hot" && G != 8 {
				continue
			}
			if heavy && concMode != "hot" && G != 4 {
				continue
			}
			var wg sync.WaitGroup
			stop := make(chan struct{})
			// loading further models concurrently must not disturb the Runs
			wg.Add(1)
			go func() {
				defer wg.Done()
				for {
					select {
					case <-stop:
						return
					default:
					}
					if _, err := gonnx.NewModelFromBytes(modelBytes); err != nil {
						emit(map[string]interface{}{"ev": "Failed", "model": name, "why": "concurrent load: " + err.Error(), "g": 0, "seq": 0, "key": 0, "digest": ""})
						return
					}
				}
			}()
			var rw sync.WaitGroup
			for gi := 1; gi <= G; gi++ {
				seed := rng.Int63()
				rw.Add(1)
				go func(gi int, seed int64) {
					defer rw.Done()
					lr := rand.New(rand.NewSource(seed))
					runs := 1 + trials/4
					if concMode == "hot" {
						runs = 10 * trials // small generated models: many short Runs, so that node executions really overlap
					}
					if heavy {
						runs = 3
					}
					for seq := 1; seq <= runs; seq++ {
						k := lr.Intn(nKeys)
						// every goroutine builds its own input tensors
						var out gonnx.Tensors
						var err error
						o := guard(func() Observation {
							out, err = sm.model.Run(sm.stack(pool[k]))
							if err != nil {
								return observeErr(err)
							}
							return Observation{Kind: "value"}
						})
						if o.Kind != "value" {
							emit(map[string]interface{}{"ev": "Failed", "model": name, "why": o.Short(), "g": gi + 100*G, "seq": seq, "key": k + 1, "digest": ""})
							continue
						}
						emit(map[string]interface{}{"ev": "RunEnd", "model": name, "g": gi + 100*G, "seq": seq, "key": k + 1, "digest": digestOf(out, sm.outNames)})
					}
				}(gi, seed)
			}
			rw.Wait()
			close(stop)
			wg.Wait()
		}
		if concMode == "hot" {
			// Runs that START at the same instant: four goroutines released together by closing a channel, round after round
			// (a spin barrier: the goroutines leave it within nanoseconds of each other; bounded by a time budget per model)
			budget := time.Duration(200*trials) * time.Millisecond
			if heavy && budget > 1500*time.Millisecond {
				budget = 1500 * time.Millisecond
			}
			deadline := time.Now().Add(budget)
			for round := 1; round <= 400*trials && time.Now().Before(deadline); round++ {
				var ready atomic.Int32
				var bw sync.WaitGroup
				for gi := 1; gi <= 4; gi++ {
					bw.Add(1)
					go func(gi int) {
						defer bw.Done()
						k := (round + gi) % nKeys
						feed := sm.stack(pool[k])
						ready.Add(1)
						for ready.Load() < 4 {
						}
						var out gonnx.Tensors
						o := guard(func() Observation {
							var err error
							out, err = sm.model.Run(feed)
							if err != nil {
								return observeErr(err)
							}
							return Observation{Kind: "value"}
						})
						if o.Kind != "value" {
							emit(map[string]interface{}{"ev": "Failed", "model": name, "why": o.Short(), "g": gi + 900, "seq": round, "key": k + 1, "digest": ""})
							return
						}
						emit(map[string]interface{}{"ev": "RunEnd", "model": name, "g": gi + 900, "seq": round, "key": k + 1, "digest": digestOf(out, sm.outNames)})
					}(gi)
				}
				bw.Wait()
			}
		}
	}
	// Runs that are REFUSED are results too: a Run returns the same error (class and text) concurrently as alone. Two small
	// models with free dimensions; some keys broadcast / multiply fine, the others fail inside an operator, each with its own shapes
	reluActs := func(n int) Attr {
		a := make([]string, n)
		for i := range a {
			a[i] = "relu"
		}
		return Attr{"activations", "ss", rawJ(a)}
	}
	for _, em := range []struct {
		name  string
		m     mModel
		cols  []int
		shape func(k, cols int) []int
	}{
		{"refused_broadcasts", mModel{
			Nodes:  []mNode{{Op: "Add", Attrs: []Attr{}, Ins: []string{"x", "w"}, Outs: []string{"y"}}, {Op: "Mul", Attrs: []Attr{}, Ins: []string{"y", "w"}, Outs: []string{"z"}}},
			Inputs: []mInput{{Name: "x", Dt: "f32", Dims: []mDim{{Kind: "sym"}, {Kind: "sym"}}}}, Outputs: []string{"z"},
			Inits: []mInit{{"w", itensorF([]int{4}, []int{1, -2, 3, 0})}}}, []int{4, 5, 1, 9, 7, 3}, nil},
		{"refused_products", mModel{
			Nodes:  []mNode{{Op: "MatMul", Attrs: []Attr{}, Ins: []string{"x", "w"}, Outs: []string{"y"}}, {Op: "PRelu", Attrs: []Attr{}, Ins: []string{"y", "s"}, Outs: []string{"z"}}},
			Inputs: []mInput{{Name: "x", Dt: "f32", Dims: []mDim{{Kind: "sym"}, {Kind: "sym"}}}}, Outputs: []string{"z"},
			Inits: []mInit{{"w", itensorF([]int{3, 2}, []int{1, -2, 3, 0, 2, -1})}, {"s", itensorF([]int{2}, []int{2, -1})}}}, []int{3, 2, 5, 3, 4, 6}, nil},
		// recurrent cells whose input size matches the weights for some inputs only: the others fail inside the time-step loop
		{"refused_recurrent", mModel{
			Nodes: []mNode{
				{Op: "LSTM", Attrs: []Attr{aI("hidden_size", 2), reluActs(3)}, Ins: []string{"x", "lw", "lr"}, Outs: []string{"LY", "LYh"}},
				{Op: "GRU", Attrs: []Attr{aI("hidden_size", 2), reluActs(2)}, Ins: []string{"x", "gw", "gr"}, Outs: []string{"GY", "GYh"}},
				{Op: "RNN", Attrs: []Attr{aI("hidden_size", 2), reluActs(1)}, Ins: []string{"x", "rw", "rr"}, Outs: []string{"RY", "RYh"}}},
			Inputs: []mInput{{Name: "x", Dt: "f32", Dims: []mDim{{Kind: "sym"}, {Kind: "sym"}, {Kind: "sym"}}}}, Outputs: []string{"LYh", "GYh", "RYh"},
			Inits: []mInit{{"lw", itensorF([]int{1, 8, 3}, []int{1, 0, -1, 0, 1, 1, -1, 1, 0, 1, 1, -1, 0, -1, 1, 1, 0, 0, -1, 1, 1, 0, 1, -1})},
				{"lr", itensorF([]int{1, 8, 2}, []int{1, 0, 0, 1, -1, 1, 1, -1, 0, 1, 1, 0, 1, 1, -1, 0})},
				{"gw", itensorF([]int{1, 6, 3}, []int{1, 0, -1, 0, 1, 1, -1, 1, 0, 1, 1, -1, 0, -1, 1, 1, 0, 0})}, {"gr", itensorF([]int{1, 6, 2}, []int{1, 0, 0, 1, -1, 1, 1, -1, 0, 1, 1, 0})},
				{"rw", itensorF([]int{1, 2, 3}, []int{1, 0, -1, 0, 1, 1})}, {"rr", itensorF([]int{1, 2, 2}, []int{1, 0, 0, 1})}}},
			[]int{3, 2, 3, 5, 3, 4}, func(k, cols int) []int { return []int{2 + k%2, 1 + k%3, cols} }},
	} {
		b, err := buildModel(em.m)
		if err != nil {
			fmt.Fprintln(os.Stderr, "record conc:", em.name, err)
			return 2
		}
		model, err := gonnx.NewModelFromBytes(b)
		if err != nil {
			fmt.Fprintln(os.Stderr, "record conc:", em.name, err)
			return 2
		}
		mkFeed := func(k int) gonnx.Tensors {
			shape := []int{1 + k%3, em.cols[k]}
			if em.shape != nil {
				shape = em.shape(k, em.cols[k])
			}
			n := 1
			for _, d := range shape {
				n *= d
			}
			d := make([]float32, n)
			for i := range d {
				d[i] = float32((i*7+k)%11-5) / 4
			}
			return gonnx.Tensors{"x": tensor.New(tensor.WithShape(shape...), tensor.WithBacking(d))}
		}
		outcome := func(k int) string {
			var dg string
			o := guard(func() Observation {
				out, err := model.Run(mkFeed(k))
				if err != nil {
					dg = "error: " + err.Error()
				} else {
					dg = digestOf(out, em.m.Outputs)
				}
				return Observation{Kind: "value"}
			})
			if o.Kind != "value" {
				return "panic: " + o.Short()
			}
			return dg
		}
		refused := 0
		for k := range em.cols {
			dg := outcome(k)
			if strings.HasPrefix(dg, "error: ") {
				refused++
			}
			emit(map[string]interface{}{"ev": "Baseline", "model": em.name, "g": 0, "seq": 0, "key": k + 1, "digest": dg})
		}
		if refused < 2 || refused == len(em.cols) {
			fmt.Fprintln(os.Stderr, "record conc:", em.name, "is expected to accept some inputs and to refuse several, refused", refused)
			return 2
		}
		runs := 4 + trials
		if concMode == "hot" {
			runs = 20 * trials
		}
		var rw sync.WaitGroup
		for gi := 1; gi <= 8; gi++ {
			seed := rng.Int63()
			rw.Add(1)
			go func(gi int, seed int64) {
				defer rw.Done()
				lr := rand.New(rand.NewSource(seed))
				for seq := 1; seq <= runs; seq++ {
					k := lr.Intn(len(em.cols))
					emit(map[string]interface{}{"ev": "RunEnd", "model": em.name, "g": gi + 700, "seq": seq, "key": k + 1, "digest": outcome(k)})
				}
			}(gi, seed)
		}
		rw.Wait()
	}
	// rank-0 graphs: every tensor is a scalar, every Run is a few hundred nanoseconds of allocation-heavy work, so that very many
	// Runs overlap with each other and with the garbage collector (a temporary tensor that is reclaimed while its memory is
	// still being read shows up here, about once in 10^5 Runs)
	for _, sc := range []struct {
		name string
		op   string
	}{{"scalar_prelu", "PRelu"}, {"scalar_mul", "Mul"}, {"scalar_sub", "Sub"}} {
		sm := mModel{
			Nodes:  []mNode{{Op: sc.op, Attrs: []Attr{}, Ins: []string{"x", "w"}, Outs: []string{"y"}}, {Op: "Abs", Attrs: []Attr{}, Ins: []string{"y"}, Outs: []string{"z"}}},
			Inputs: []mInput{{Name: "x", Dt: "f32", Dims: []mDim{}}}, Outputs: []string{"y", "z"},
			Inits: []mInit{{"w", AbsTensor{Dt: "f32", Shape: []int{}, Data: []Elem{{Kind: "rec", C: "fin", N: 1, D: 2}}}}}}
		b, err := buildModel(sm)
		if err != nil {
			fmt.Fprintln(os.Stderr, "record conc:", sc.name, err)
			return 2
		}
		model, err := gonnx.NewModelFromBytes(b)
		if err != nil {
			fmt.Fprintln(os.Stderr, "record conc:", sc.name, err)
			return 2
		}
		vals := []float32{-3, 2.5, -0.75, 8}
		outcome := func(k int) string {
			var dg string
			o := guard(func() Observation {
				out, err := model.Run(gonnx.Tensors{"x": tensor.New(tensor.FromScalar(vals[k]))})
				if err != nil {
					dg = "error: " + err.Error()
				} else {
					dg = digestOf(out, sm.Outputs)
				}
				return Observation{Kind: "value"}
			})
			if o.Kind != "value" {
				return "panic: " + o.Short()
			}
			return dg
		}
		base := make([]string, len(vals))
		for k := range vals {
			base[k] = outcome(k)
			emit(map[string]interface{}{"ev": "Baseline", "model": sc.name, "g": 0, "seq": 0, "key": k + 1, "digest": base[k]})
		}
		runs := 400 * trials
		if concMode == "hot" {
			runs = 2500 * trials
		}
		var rw sync.WaitGroup
		for gi := 1; gi <= 16; gi++ {
			rw.Add(1)
			go func(gi int) {
				defer rw.Done()
				logged := 0
				for seq := 1; seq <= runs; seq++ {
					k := (seq + gi) % len(vals)
					dg := outcome(k)
					heartbeat.Add(1)
					// (only deviating Runs and a sample of the others are logged: the trace would otherwise hold millions of events)
					if dg != base[k] || seq%(runs/20+1) == 0 {
						logged++
						emit(map[string]interface{}{"ev": "RunEnd", "model": sc.name, "g": gi + 600, "seq": logged, "key": k + 1, "digest": dg})
					}
				}
			}(gi)
		}
		rw.Wait()
	}
	// random DAG programs over the operator catalogue (the same generator as the node-level trace recorder): every operator
	// family is run from 8 goroutines at once, each Run with its own tensors, against the sequential result of the same input
	nProg := 3
	if concMode == "hot" {
		nProg = 2 + trials/2
		if nProg > 12 {
			nProg = 12
		}
	}
	for pi := 0; pi < nProg; pi++ {
		m, inShapes, _, ok := randomProgram(rng)
		if !ok {
			continue
		}
		b, err := buildModel(m)
		if err != nil {
			fmt.Fprintln(os.Stderr, "record conc: random program:", err)
			return 2
		}
		model, err := gonnx.NewModelFromBytes(b)
		if err != nil {
			fmt.Fprintln(os.Stderr, "record conc: random program:", err)
			return 2
		}
		name := fmt.Sprintf("program%d", pi+1)
		const nKeys = 4
		var pool [nKeys]map[string]AbsTensor
		mkFeed := func(k int) gonnx.Tensors {
			f := gonnx.Tensors{}
			for n, at := range pool[k] {
				t, _ := MkTensor(at)
				f[n] = t
			}
			return f
		}
		usable := true
		for k := range pool {
			pool[k] = map[string]AbsTensor{"a": rtensor(rng, "f32", inShapes["a"], -3, 3), "b": rtensor(rng, "f32", inShapes["b"], -3, 3)}
			out, err := model.Run(mkFeed(k))
			if err != nil {
				usable = false
				break
			}
			emit(map[string]interface{}{"ev": "Baseline", "model": name, "g": 0, "seq": 0, "key": k + 1, "digest": digestOf(out, m.Outputs)})
		}
		if !usable {
			continue
		}
		runs := 1 + trials/2
		if concMode == "hot" {
			runs = 6 * trials
			if runs > 150 {
				runs = 150
			}
		}
		var rw sync.WaitGroup
		for gi := 1; gi <= 8; gi++ {
			seed := rng.Int63()
			rw.Add(1)
			go func(gi int, seed int64) {
				defer rw.Done()
				lr := rand.New(rand.NewSource(seed))
				for seq := 1; seq <= runs; seq++ {
					k := lr.Intn(nKeys)
					var out gonnx.Tensors
					o := guard(func() Observation {
						var err error
						out, err = model.Run(mkFeed(k))
						if err != nil {
							return observeErr(err)
						}
						return Observation{Kind: "value"}
					})
					if o.Kind != "value" {
						emit(map[string]interface{}{"ev": "Failed", "model": name, "why": o.Short(), "g": gi + 800, "seq": seq, "key": k + 1, "digest": ""})
						continue
					}
					emit(map[string]interface{}{"ev": "RunEnd", "model": name, "g": gi + 800, "seq": seq, "key": k + 1, "digest": digestOf(out, m.Outputs)})
				}
			}(gi, seed)
		}
		rw.Wait()
	}
	return 0
}

// itensorF builds a float32 tensor description from integers.
func itensorF(shape []int, vals []int) AbsTensor {
	t := AbsTensor{Dt: "f32", Shape: shape, Data: make([]Elem, len(vals))}
	for i, v := range vals {
		t.Data[i] = IntElem(int64(v))
	}
	return t
}
