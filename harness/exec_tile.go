package main

// The tiling law (Outcome.tla, TileLaw): a case flagged with `tile.pos` is executed once more with the inputs at those
// positions repeated K times along axis 0, K chosen so that the operands grow beyond a million elements (a count that is no
// multiple of 2, 3 or a block size), and every result must be the expected result repeated K times along axis 0.

import (
	"fmt"
	"reflect"

	"github.com/advancedclimatesystems/gonnx/ops"
	"github.com/advancedclimatesystems/gonnx/ops/opset13"
	"gorgonia.org/tensor"
)

// TileSpec is the `tile` field of a case.
type TileSpec struct {
	Pos   []int `json:"pos"`   // 0-based input positions that are repeated
	Axes  []int `json:"axes"`  // the axis along which each of them is repeated (default 0)
	OAxes []int `json:"oaxes"` // the axis along which each result is expected to be repeated (default 0)
}

func (t *TileSpec) axisOf(i int) int {
	if i < len(t.Axes) {
		return t.Axes[i]
	}
	return 0
}

func (t *TileSpec) oaxisOf(j int) int {
	if j < len(t.OAxes) {
		return t.OAxes[j]
	}
	return 0
}

// operators whose cost per row is high: a smaller target keeps the mode affordable
var slowTile = map[string]int{"Conv": 60000, "RNN": 20000, "GRU": 20000, "LSTM": 20000, "Gather": 300000}

var hugeTile = map[string]bool{"Reshape": true, "Flatten": true, "Squeeze": true, "Unsqueeze": true, "Shape": true, "Transpose": true, "Cast": true}

func tileFactor(c *Case) int {
	target := 1100000
	if t, ok := slowTile[c.Op]; ok {
		target = t
	}
	if hugeTile[c.Op] {
		target = 4400000 // (operators that only move or relabel elements: beyond 2^22 elements, an odd count)
	}
	minSize := 0
	for _, p := range c.Tile.Pos {
		n := 1
		for _, s := range c.Inputs[p].Shape {
			n *= s
		}
		if minSize == 0 || n < minSize {
			minSize = n
		}
	}
	if minSize == 0 {
		return 0
	}
	k := target/minSize + 1
	for k%2 == 0 || k%3 == 0 || k%5 == 0 {
		k++
	}
	return k
}

func tileTensor(t tensor.Tensor, axis, k int) (tensor.Tensor, error) {
	src := reflect.ValueOf(t.Data())
	if src.Kind() != reflect.Slice || axis >= len(t.Shape()) {
		return nil, fmt.Errorf("cannot repeat a tensor of shape %v along axis %d", t.Shape(), axis)
	}
	n := src.Len()
	block := 1
	for _, d := range t.Shape()[axis:] {
		block *= d
	}
	outer := n / block
	dst := reflect.MakeSlice(src.Type(), n*k, n*k)
	for o := 0; o < outer; o++ {
		for j := 0; j < k; j++ {
			reflect.Copy(dst.Slice((o*k+j)*block, (o*k+j+1)*block), src.Slice(o*block, (o+1)*block))
		}
	}
	shape := append([]int{}, t.Shape()...)
	shape[axis] *= k
	return tensor.New(tensor.WithShape(shape...), tensor.WithBacking(dst.Interface())), nil
}

// compareTiled checks got against want repeated k times along axis 0.
func compareTiled(want AbsTensor, got tensor.Tensor, axis, k int, mode string) (bool, string) {
	if got == nil {
		return false, "nil tensor"
	}
	if dtName(got.Dtype()) != want.Dt {
		return false, fmt.Sprintf("dtype %s, expected %s", dtName(got.Dtype()), want.Dt)
	}
	ws := append([]int{}, want.Shape...)
	if len(ws) <= axis {
		return false, "harness: the expected result of a tiled case has no axis " + fmt.Sprint(axis)
	}
	ws[axis] *= k
	block := 1
	for _, d := range want.Shape[axis:] {
		block *= d
	}
	gs := got.Shape()
	if len(gs) != len(ws) {
		return false, fmt.Sprintf("shape %v, expected %v", []int(gs), ws)
	}
	for i := range gs {
		if gs[i] != ws[i] {
			return false, fmt.Sprintf("shape %v, expected %v", []int(gs), ws)
		}
	}
	els, err := elemsOf(got)
	if err != nil {
		return false, err.Error()
	}
	n := len(want.Data)
	if len(els) != n*k {
		return false, fmt.Sprintf("%d elements, expected %d", len(els), n*k)
	}
	conc := make([]interface{}, n)
	for i := range conc {
		w, err := Concretize(want.Dt, want.Data[i])
		if err != nil {
			return false, "harness: " + err.Error()
		}
		conc[i] = w
	}
	for i, v := range els {
		// element i of the repeated tensor: outer block o, repetition j, offset r inside the block
		o, r := i/(block*k), (i%(block*k))%block
		w := conc[o*block+r]
		if !sameValue(v, w, mode) {
			return false, fmt.Sprintf("element %d of %d is %v, expected %v (repetition %d of %d)", i, len(els), v, w, (i%(block*k))/block+1, k)
		}
	}
	return true, ""
}

// execTiled runs the tiled variant of an operator-level or helper case; nil when the case is not flagged.
func execTiled(c *Case) *ModeResult {
	if c.Tile == nil || len(c.Tile.Pos) == 0 || c.Allowed.Must != "value" {
		return nil
	}
	k := tileFactor(c)
	if k < 2 {
		return nil
	}
	mode := fmt.Sprintf("api:tiled-x%d", k)
	base, err := mkInputs(c)
	if err != nil {
		return &ModeResult{mode, "infra:" + err.Error(), ""}
	}
	inputs := append([]tensor.Tensor{}, base...)
	rows := 0
	for i, p := range c.Tile.Pos {
		if p < 0 || p >= len(inputs) || inputs[p] == nil {
			return &ModeResult{mode, "infra:bad tile position", ""}
		}
		t, err := tileTensor(inputs[p], c.Tile.axisOf(i), k)
		if err != nil {
			return &ModeResult{mode, "infra:" + err.Error(), ""}
		}
		inputs[p] = t
		rows = t.DataSize()
	}
	var results []tensor.Tensor
	obs := guard(func() Observation {
		if c.Kind == "helper" {
			var a, b tensor.Tensor
			var err error
			if c.Op == "MultidirectionalBroadcast" {
				a, b, err = ops.MultidirectionalBroadcast(inputs[0], inputs[1])
			} else {
				a, b, err = ops.UnidirectionalBroadcast(inputs[0], inputs[1])
			}
			if err != nil {
				return observeErr(err)
			}
			results = []tensor.Tensor{a, b}
			return Observation{Kind: "value"}
		}
		ins, outs := ioNames(c)
		node, err := mkNode(c.Op, c.Attrs, ins, outs)
		if err != nil {
			return Observation{Kind: "harness", Note: err.Error()}
		}
		op, err := opset13.GetOperator(c.Op)
		if err != nil {
			return observeErr(err)
		}
		if err := op.Init(node); err != nil {
			return observeErr(err)
		}
		v, err := op.ValidateInputs(inputs)
		if err != nil {
			return observeErr(err)
		}
		res, err := op.Apply(v)
		if err != nil {
			return observeErr(err)
		}
		results = res
		return Observation{Kind: "value"}
	})
	switch obs.Kind {
	case "harness":
		return &ModeResult{mode, "infra:" + obs.Note, ""}
	case "panic":
		return &ModeResult{mode, "violation:panic on operands of " + fmt.Sprint(rows) + " elements: " + obs.Note, obs.Short()}
	case "error":
		return &ModeResult{mode, fmt.Sprintf("violation:error on operands of %d elements where a value is required: %v", rows, obs.Err), obs.Short()}
	}
	cmp := c.Cmp
	if cmp == "" {
		cmp = "num"
	}
	if len(results) < len(c.Allowed.Value) {
		return &ModeResult{mode, fmt.Sprintf("violation:%d results, expected %d", len(results), len(c.Allowed.Value)), ""}
	}
	for j, want := range c.Allowed.Value {
		if ok, why := compareTiled(want, results[j], c.Tile.oaxisOf(j), k, cmp); !ok {
			return &ModeResult{mode, fmt.Sprintf("violation:operands repeated %d times (%d elements): output %d: %s", k, rows, j, why), ""}
		}
	}
	return &ModeResult{mode, "pass", ""}
}
