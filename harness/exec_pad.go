package main

// The zero-padding law (MC_C06!PadLawAt): a recurrent case flagged with `pad` is executed once more with 1024 hidden units and 512
// input features, the additional rows, columns and entries of every operand being zero (block by block: the gates are stacked
// along the hidden axis of W, R, B and P). The specification proves on small paddings that the additional hidden units stay at
// exactly zero and feed nothing back, so every result must be the expected result padded with zeros along its hidden axis. The
// weight matrices of the padded case have more than a million elements - a size at which a library may switch to another strategy.

import (
	"encoding/json"
	"fmt"
	"reflect"

	"github.com/advancedclimatesystems/gonnx/ops/opset13"
	"gorgonia.org/tensor"
)

// PadSpec is the `pad` field of a case.
type PadSpec struct {
	Ins []struct {
		Pos    int    `json:"pos"`    // 0-based input position
		Axis   int    `json:"axis"`   // 0-based axis that grows
		Blocks int    `json:"blocks"` // number of equal blocks along that axis, each padded at its end
		Dim    string `json:"dim"`    // "h" hidden units, "i" input features
	} `json:"ins"`
	Outs []struct {
		Axis int `json:"axis"` // hidden axis of each result
	} `json:"outs"`
	Attr string `json:"attr"` // the attribute that holds the number of hidden units
}

const (
	padHidden   = 1024
	padInput    = 512
	padChannels = 16411 // (Conv: channels x a 2x2 kernel = a window of more than 2^16 elements)
)

// padTensor pads every one of `blocks` equal blocks along `axis` with `extra` zeros at its end.
func padTensor(t tensor.Tensor, axis, blocks, extra int) (tensor.Tensor, error) {
	src := reflect.ValueOf(t.Data())
	shape := t.Shape()
	if src.Kind() != reflect.Slice || axis >= len(shape) || blocks < 1 || shape[axis]%blocks != 0 {
		return nil, fmt.Errorf("cannot pad a tensor of shape %v along axis %d in %d blocks", shape, axis, blocks)
	}
	e := shape[axis] / blocks
	ne := e + extra
	inner := 1
	for _, d := range shape[axis+1:] {
		inner *= d
	}
	outer := src.Len() / (shape[axis] * inner)
	nshape := append([]int{}, shape...)
	nshape[axis] = blocks * ne
	dst := reflect.MakeSlice(src.Type(), outer*blocks*ne*inner, outer*blocks*ne*inner)
	for o := 0; o < outer; o++ {
		for b := 0; b < blocks; b++ {
			from := (o*blocks + b) * e * inner
			to := (o*blocks + b) * ne * inner
			reflect.Copy(dst.Slice(to, to+e*inner), src.Slice(from, from+e*inner))
		}
	}
	return tensor.New(tensor.WithShape(nshape...), tensor.WithBacking(dst.Interface())), nil
}

// padAbs does the same to an expected tensor.
func padAbs(t AbsTensor, axis, extra int) (AbsTensor, error) {
	if axis >= len(t.Shape) {
		return t, fmt.Errorf("expected result of shape %v has no axis %d", t.Shape, axis)
	}
	e := t.Shape[axis]
	ne := e + extra
	inner := 1
	for _, d := range t.Shape[axis+1:] {
		inner *= d
	}
	outer := len(t.Data) / (e * inner)
	out := AbsTensor{Dt: t.Dt, Shape: append([]int{}, t.Shape...), Data: make([]Elem, outer*ne*inner)}
	out.Shape[axis] = ne
	for i := range out.Data {
		out.Data[i] = IntElem(0)
	}
	for o := 0; o < outer; o++ {
		copy(out.Data[o*ne*inner:o*ne*inner+e*inner], t.Data[o*e*inner:(o+1)*e*inner])
	}
	return out, nil
}

func execPadded(c *Case) *ModeResult {
	if c.Pad == nil || len(c.Pad.Ins) == 0 || c.Allowed.Must != "value" {
		return nil
	}
	mode := fmt.Sprintf("api:zero-padded-to-%d-hidden-%d-input", padHidden, padInput)
	if c.Pad.Attr == "" {
		return execPaddedChannels(c)
	}
	inputs, err := mkInputs(c)
	if err != nil {
		return &ModeResult{mode, "infra:" + err.Error(), ""}
	}
	// the current numbers of hidden units and input features, read off the attribute and the first operand
	hidden := 0
	attrs := append([]Attr{}, c.Attrs...)
	for i, a := range attrs {
		if a.Name == c.Pad.Attr {
			if err := json.Unmarshal(a.V, &hidden); err != nil {
				return &ModeResult{mode, "infra:" + err.Error(), ""}
			}
			v, _ := json.Marshal(padHidden)
			attrs[i] = Attr{Name: a.Name, Kind: a.Kind, V: v}
		}
	}
	if hidden < 1 || hidden >= padHidden || inputs[0] == nil {
		return &ModeResult{mode, "infra:bad pad specification", ""}
	}
	features := inputs[0].Shape()[len(inputs[0].Shape())-1]
	for _, p := range c.Pad.Ins {
		if p.Pos < 0 || p.Pos >= len(inputs) || inputs[p.Pos] == nil {
			return &ModeResult{mode, "infra:bad pad position", ""}
		}
		extra := padHidden - hidden
		if p.Dim == "i" {
			extra = padInput - features
		}
		if extra <= 0 {
			continue
		}
		t, err := padTensor(inputs[p.Pos], p.Axis, p.Blocks, extra)
		if err != nil {
			return &ModeResult{mode, "infra:" + err.Error(), ""}
		}
		inputs[p.Pos] = t
	}
	ins, outs := ioNames(c)
	node, err := mkNode(c.Op, attrs, ins, outs)
	if err != nil {
		return &ModeResult{mode, "infra:" + err.Error(), ""}
	}
	var results []tensor.Tensor
	obs := guard(func() Observation {
		op, err := opset13.GetOperator(c.Op)
		if err != nil {
			return observeErr(err)
		}
		if err := op.Init(node); err != nil {
			return observeErr(err)
		}
		v, err := op.ValidateInputs(inputs)
		if err != nil {
			return observeErr(err)
		}
		res, err := op.Apply(v)
		if err != nil {
			return observeErr(err)
		}
		results = res
		return Observation{Kind: "value"}
	})
	if obs.Kind != "value" {
		return &ModeResult{mode, "violation:the zero-padded case (the same recurrence with additional hidden units and input features that are all zero) did not return a value: " + obs.Short(), obs.Short()}
	}
	if len(results) < len(c.Allowed.Value) {
		return &ModeResult{mode, fmt.Sprintf("violation:%d outputs, expected %d", len(results), len(c.Allowed.Value)), ""}
	}
	cmp := c.Cmp
	if cmp == "" {
		cmp = "num"
	}
	for j, want := range c.Allowed.Value {
		if j >= len(c.Pad.Outs) {
			break
		}
		w, err := padAbs(want, c.Pad.Outs[j].Axis, padHidden-hidden)
		if err != nil {
			return &ModeResult{mode, "infra:" + err.Error(), ""}
		}
		if ok, why := CompareTensor(w, results[j], cmp); !ok {
			return &ModeResult{mode, fmt.Sprintf("violation:padded with zeros to %d hidden units and %d input features: output %d: %s", padHidden, padInput, j, why), ""}
		}
	}
	return &ModeResult{mode, "pass", ""}
}

// execPaddedChannels: the same law for Conv (MC_C05!ConvPadLaw): additional input channels whose kernel weights are zero contribute
// nothing, so the flagged case is executed with 16411 channels and must return the expected results unchanged.
func execPaddedChannels(c *Case) *ModeResult {
	what := "channels"
	if c.Op != "Conv" {
		what = "inner-extent" // (MatMul, Gemm: MC_C04!PadLinearCases)
	}
	mode := fmt.Sprintf("api:zero-padded-to-%d-%s", padChannels, what)
	inputs, err := mkInputs(c)
	if err != nil {
		return &ModeResult{mode, "infra:" + err.Error(), ""}
	}
	for _, p := range c.Pad.Ins {
		if p.Pos < 0 || p.Pos >= len(inputs) || inputs[p.Pos] == nil || p.Axis >= len(inputs[p.Pos].Shape()) {
			return &ModeResult{mode, "infra:bad pad position", ""}
		}
		extra := padChannels - inputs[p.Pos].Shape()[p.Axis]/p.Blocks
		if extra <= 0 {
			return &ModeResult{mode, "infra:bad pad specification", ""}
		}
		t, err := padTensor(inputs[p.Pos], p.Axis, p.Blocks, extra)
		if err != nil {
			return &ModeResult{mode, "infra:" + err.Error(), ""}
		}
		inputs[p.Pos] = t
	}
	ins, outs := ioNames(c)
	node, err := mkNode(c.Op, c.Attrs, ins, outs)
	if err != nil {
		return &ModeResult{mode, "infra:" + err.Error(), ""}
	}
	obs := guard(func() Observation {
		op, err := opset13.GetOperator(c.Op)
		if err != nil {
			return observeErr(err)
		}
		if err := op.Init(node); err != nil {
			return observeErr(err)
		}
		v, err := op.ValidateInputs(inputs)
		if err != nil {
			return observeErr(err)
		}
		res, err := op.Apply(v)
		if err != nil {
			return observeErr(err)
		}
		return valueObs(res)
	})
	v := Verdict(c, obs)
	if v != "pass" && len(v) > 10 && v[:10] == "violation:" {
		v = fmt.Sprintf("violation:padded with zeros to %d %s: %s", padChannels, what, v[10:])
	}
	return &ModeResult{mode, v, obs.Short()}
}
