package main

// Direction B for the operator-level properties: randomly generated operator invocations (shapes beyond the exhaustive bounds
// of the TLC generators, random attributes, also invalid requests) are executed against the real operators; every invocation
// is logged as one event with its arguments and the observed outcome. Trace_Ops.tla recomputes the allowed outcome of every
// event with the operator modules of the specification (OpSem.NodeSem) and accepts the trace only if every event is explained.
// The recorder itself passes no verdict.

import (
	"encoding/json"
	"fmt"
	"math/rand"
	"sort"
	"strconv"
	"strings"
)

func init() { recorders["ops"] = recordOps }

// opsFilter is set by the -ops flag (comma-separated operator names; empty: all).
var opsFilter string

type opGen func(r *rand.Rand) (attrs []Attr, inputs []AbsTensor, nout int)

func rawJ(v interface{}) jsonRaw { b, _ := json.Marshal(v); return b }
func aI(name string, v int) Attr { return Attr{name, "i", rawJ(v)} }
func aIs(name string, v []int) Attr {
	if v == nil {
		v = []int{}
	}
	return Attr{name, "is", rawJ(v)}
}
func aF(name string, v int) Attr {
	return Attr{name, "f", rawJ(map[string]interface{}{"c": "fin", "n": v, "d": 1})}
}
func aFs(name string, v []int) Attr { return Attr{name, "fs", rawJ(v)} }
func aS(name string, v string) Attr { return Attr{name, "s", rawJ(v)} }

// largeExtents: extents around the sizes at which vectorised / blocked code paths usually switch
var largeExtents = []int{7, 8, 9, 15, 16, 17, 31, 32, 33, 64, 65}

func rshape(r *rand.Rand, minRank, maxRank, maxExt int) []int {
	n := minRank + r.Intn(maxRank-minRank+1)
	s := make([]int, n)
	for i := range s {
		s[i] = 1 + r.Intn(maxExt)
	}
	// rarely a very long vector or matrix (kernels that split their work into blocks of some thousand elements)
	if n >= 1 && n <= 2 && maxExt >= 4 && r.Intn(60) == 0 {
		s[r.Intn(n)] = []int{8193, 9000, 16385}[r.Intn(3)]
		for i := range s {
			if s[i] < 8000 && s[i] > 2 {
				s[i] = 2
			}
		}
		return s
	}
	// now and then one long axis (the tensor stays below 2048 elements)
	if n > 0 && maxExt >= 4 && r.Intn(8) == 0 {
		i := r.Intn(n)
		old := s[i]
		s[i] = largeExtents[r.Intn(len(largeExtents))]
		if size(s) > 2048 {
			s[i] = old
		}
	}
	return s
}

func size(s []int) int {
	n := 1
	for _, d := range s {
		n *= d
	}
	return n
}

func rtensor(r *rand.Rand, dt string, shape []int, lo, hi int) AbsTensor {
	t := AbsTensor{Dt: dt, Shape: append([]int{}, shape...), Data: make([]Elem, size(shape))}
	for i := range t.Data {
		t.Data[i] = IntElem(int64(lo + r.Intn(hi-lo+1)))
	}
	return t
}

func itensor(dt string, vals []int) AbsTensor {
	t := AbsTensor{Dt: dt, Shape: []int{len(vals)}, Data: make([]Elem, len(vals))}
	for i, v := range vals {
		t.Data[i] = IntElem(int64(v))
	}
	return t
}

var nilT = AbsTensor{Nil: true}

// bpair returns two shapes that are broadcast-compatible (mostly) or not (sometimes).
func bpair(r *rand.Rand) ([]int, []int) {
	full := rshape(r, 0, 4, 5)
	pick := func() []int {
		k := r.Intn(len(full) + 1)
		s := append([]int{}, full[len(full)-k:]...)
		for i := range s {
			if r.Intn(3) == 0 {
				s[i] = 1
			}
		}
		return s
	}
	a, b := pick(), pick()
	if r.Intn(6) == 0 && len(b) > 0 {
		b[r.Intn(len(b))] += 1 + r.Intn(2) // probably incompatible
	}
	return a, b
}

func perm(r *rand.Rand, n int) []int { return r.Perm(n) }

func axisIn(r *rand.Rand, rank int, slack int) int { return -rank - slack + r.Intn(2*rank+2*slack+1) }

var opGens = map[string]opGen{
	"Add": binGen, "Sub": binGen, "Mul": binGen,
	"Relu": unGen, "Abs": unGen,
	"MatMul": func(r *rand.Rand) ([]Attr, []AbsTensor, int) {
		var a, b []int
		switch r.Intn(5) {
		case 0: // batched
			batch := rshape(r, 1, 2, 3)
			m, k, n := 1+r.Intn(4), 1+r.Intn(4), 1+r.Intn(4)
			a = append(append([]int{}, batch...), m, k)
			b = append(append([]int{}, batch...), k, n)
			if r.Intn(2) == 0 {
				b = []int{k, n}
			}
		case 1: // vector operand
			k := 1 + r.Intn(5)
			a, b = []int{k}, []int{k, 1 + r.Intn(4)}
			if r.Intn(2) == 0 {
				a, b = []int{1 + r.Intn(4), k}, []int{k}
			}
		default:
			m, k, n := 1+r.Intn(6), 1+r.Intn(6), 1+r.Intn(6)
			a, b = []int{m, k}, []int{k, n}
			if r.Intn(8) == 0 {
				b[0]++
			}
		}
		return nil, []AbsTensor{rtensor(r, "f32", a, -4, 4), rtensor(r, "f32", b, -4, 4)}, 1
	},
	"Gemm": func(r *rand.Rand) ([]Attr, []AbsTensor, int) {
		m, k, n := 1+r.Intn(5), 1+r.Intn(5), 1+r.Intn(5)
		tA, tB := r.Intn(2), r.Intn(2)
		a, b := []int{m, k}, []int{k, n}
		if tA == 1 {
			a = []int{k, m}
		}
		if tB == 1 {
			b = []int{n, k}
		}
		attrs := []Attr{aI("transA", tA), aI("transB", tB)}
		if r.Intn(2) == 0 {
			attrs = append(attrs, aF("alpha", r.Intn(5)-2), aF("beta", r.Intn(5)-2))
		}
		ins := []AbsTensor{rtensor(r, "f32", a, -4, 4), rtensor(r, "f32", b, -4, 4)}
		switch r.Intn(6) {
		case 0:
		case 1:
			ins = append(ins, rtensor(r, "f32", []int{}, -9, 9))
		case 2:
			ins = append(ins, rtensor(r, "f32", []int{n}, -9, 9))
		case 3:
			ins = append(ins, rtensor(r, "f32", []int{m, 1}, -9, 9))
		case 4:
			ins = append(ins, rtensor(r, "f32", []int{m, n}, -9, 9))
		case 5:
			ins = append(ins, rtensor(r, "f32", []int{1, n}, -9, 9))
		}
		if r.Intn(10) == 0 {
			ins[1].Shape[0]++
			ins[1] = rtensor(r, "f32", ins[1].Shape, -4, 4)
		}
		return attrs, ins, 1
	},
	"Scaler": func(r *rand.Rand) ([]Attr, []AbsTensor, int) {
		s := rshape(r, 1, 3, 5)
		f := s[len(s)-1]
		off, sc := make([]int, f), make([]int, f)
		for i := range off {
			off[i], sc[i] = r.Intn(7)-3, r.Intn(5)-2
		}
		if r.Intn(4) == 0 {
			off, sc = off[:1], sc[:1]
		}
		return []Attr{aFs("offset", off), aFs("scale", sc)}, []AbsTensor{rtensor(r, "f32", s, -9, 9)}, 1
	},
	"LinearRegressor": func(r *rand.Rand) ([]Attr, []AbsTensor, int) {
		n, f, t := 1+r.Intn(4), 1+r.Intn(5), 1+r.Intn(3)
		coef := make([]int, t*f)
		for i := range coef {
			coef[i] = r.Intn(7) - 3
		}
		inter := make([]int, t)
		for i := range inter {
			inter[i] = r.Intn(9) - 4
		}
		return []Attr{aFs("coefficients", coef), aFs("intercepts", inter), aI("targets", t)}, []AbsTensor{rtensor(r, "f32", []int{n, f}, -5, 5)}, 1
	},
	"Flatten": func(r *rand.Rand) ([]Attr, []AbsTensor, int) {
		s := rshape(r, 0, 5, 4)
		var attrs []Attr
		if r.Intn(5) > 0 {
			attrs = []Attr{aI("axis", axisIn(r, len(s), 1))}
		}
		return attrs, []AbsTensor{rtensor(r, "f32", s, -50, 50)}, 1
	},
	"Transpose": func(r *rand.Rand) ([]Attr, []AbsTensor, int) {
		s := rshape(r, 1, 5, 4)
		var attrs []Attr
		if r.Intn(5) > 0 {
			p := perm(r, len(s))
			if r.Intn(8) == 0 && len(p) > 1 {
				p[0] = p[1]
			}
			attrs = []Attr{aIs("perm", p)}
		}
		return attrs, []AbsTensor{rtensor(r, "f32", s, -50, 50)}, 1
	},
	"Concat": func(r *rand.Rand) ([]Attr, []AbsTensor, int) {
		s := rshape(r, 1, 4, 4)
		ax := r.Intn(len(s))
		n := 1 + r.Intn(4)
		var ins []AbsTensor
		for i := 0; i < n; i++ {
			si := append([]int{}, s...)
			si[ax] = 1 + r.Intn(4)
			if r.Intn(12) == 0 {
				si[(ax+1)%len(s)]++
			}
			ins = append(ins, rtensor(r, "f32", si, -50, 50))
		}
		a := ax
		if r.Intn(2) == 0 {
			a = ax - len(s)
		}
		if r.Intn(10) == 0 {
			a = axisIn(r, len(s), 2)
		}
		return []Attr{aI("axis", a)}, ins, 1
	},
	"Reshape": func(r *rand.Rand) ([]Attr, []AbsTensor, int) {
		s := rshape(r, 0, 4, 4)
		n := size(s)
		// factor n into a random target
		var tgt []int
		rem := n
		for rem > 1 && len(tgt) < 4 {
			d := 1 + r.Intn(rem)
			for rem%d != 0 {
				d--
			}
			tgt = append(tgt, d)
			rem /= d
		}
		if len(tgt) == 0 || r.Intn(4) == 0 {
			tgt = append(tgt, 1)
		}
		switch r.Intn(5) {
		case 0:
			tgt[r.Intn(len(tgt))] = -1
		case 1:
			if len(tgt) <= len(s) {
				i := r.Intn(len(tgt))
				if i < len(s) && tgt[i] == s[i] {
					tgt[i] = 0
				}
			}
		case 2:
			if r.Intn(3) == 0 {
				tgt[0]++
			}
		}
		return nil, []AbsTensor{rtensor(r, "f32", s, -50, 50), itensor("i64", tgt)}, 1
	},
	"Squeeze": func(r *rand.Rand) ([]Attr, []AbsTensor, int) {
		s := rshape(r, 1, 5, 3)
		for i := range s {
			if r.Intn(2) == 0 {
				s[i] = 1
			}
		}
		ins := []AbsTensor{rtensor(r, "f32", s, -50, 50)}
		if r.Intn(4) > 0 {
			var axes []int
			for i, d := range s {
				if d == 1 && r.Intn(2) == 0 {
					a := i
					if r.Intn(2) == 0 {
						a = i - len(s)
					}
					axes = append(axes, a)
				}
			}
			if r.Intn(8) == 0 {
				axes = append(axes, axisIn(r, len(s), 1))
			}
			r.Shuffle(len(axes), func(i, j int) { axes[i], axes[j] = axes[j], axes[i] })
			if len(axes) > 0 {
				ins = append(ins, itensor("i64", axes))
			}
		}
		return nil, ins, 1
	},
	"Unsqueeze": func(r *rand.Rand) ([]Attr, []AbsTensor, int) {
		s := rshape(r, 0, 3, 4)
		k := 1 + r.Intn(3)
		out := len(s) + k
		p := perm(r, out)[:k]
		for i := range p {
			if r.Intn(2) == 0 {
				p[i] -= out
			}
		}
		if r.Intn(10) == 0 {
			p[0] = axisIn(r, out, 2)
		}
		return nil, []AbsTensor{rtensor(r, "f32", s, -50, 50), itensor("i64", p)}, 1
	},
	"Shape": func(r *rand.Rand) ([]Attr, []AbsTensor, int) {
		return nil, []AbsTensor{rtensor(r, "f32", rshape(r, 0, 5, 5), -5, 5)}, 1
	},
	"Slice": func(r *rand.Rand) ([]Attr, []AbsTensor, int) {
		s := rshape(r, 1, 4, 6)
		k := 1 + r.Intn(len(s))
		axes := perm(r, len(s))[:k]
		starts, ends, steps := make([]int, k), make([]int, k), make([]int, k)
		for i, a := range axes {
			d := s[a]
			starts[i] = -d - 2 + r.Intn(2*d+5)
			ends[i] = -d - 2 + r.Intn(2*d+5)
			if r.Intn(6) == 0 {
				ends[i] = 2147483647
			}
			steps[i] = 1 + r.Intn(3)
			if r.Intn(4) == 0 {
				steps[i] = -steps[i]
				if r.Intn(3) == 0 {
					ends[i] = -2147483647
				}
			}
			if r.Intn(2) == 0 {
				axes[i] = a - len(s)
			}
		}
		ins := []AbsTensor{rtensor(r, "f32", s, -50, 50), itensor("i64", starts), itensor("i64", ends)}
		switch r.Intn(4) {
		case 0:
			if k == len(s) { // default axes = 0..k-1 only meaningful when the lists are aligned with them
				for i := range axes {
					axes[i] = i
				}
			}
			ins = append(ins, itensor("i64", axes), itensor("i64", steps))
		case 1:
			ins = append(ins, itensor("i64", axes))
		default:
			ins = append(ins, itensor("i64", axes), itensor("i64", steps))
		}
		return nil, ins, 1
	},
	"Gather": func(r *rand.Rand) ([]Attr, []AbsTensor, int) {
		s := rshape(r, 1, 4, 5)
		ax := r.Intn(len(s))
		is := rshape(r, 0, 2, 3)
		idx := rtensor(r, "i64", is, -s[ax], s[ax]-1)
		if r.Intn(10) == 0 && len(idx.Data) > 0 {
			idx.Data[0] = IntElem(int64(s[ax] + 1))
		}
		a := ax
		if r.Intn(2) == 0 {
			a -= len(s)
		}
		var attrs []Attr
		if a != 0 || r.Intn(2) == 0 {
			attrs = []Attr{aI("axis", a)}
		}
		return attrs, []AbsTensor{rtensor(r, "f32", s, -50, 50), idx}, 1
	},
	"Expand": func(r *rand.Rand) ([]Attr, []AbsTensor, int) {
		a, b := bpair(r)
		if len(b) == 0 {
			b = []int{1}
		}
		return nil, []AbsTensor{rtensor(r, "f32", a, -50, 50), itensor("i64", b)}, 1
	},
	"Conv": func(r *rand.Rand) ([]Attr, []AbsTensor, int) {
		nsp := 1 + r.Intn(2)
		N, C, M := 1+r.Intn(2), 1+r.Intn(3), 1+r.Intn(3)
		x, w := []int{N, C}, []int{M, C}
		var ks, st, dl, pads []int
		for i := 0; i < nsp; i++ {
			k := 1 + r.Intn(3)
			ks = append(ks, k)
			st = append(st, 1+r.Intn(3))
			dl = append(dl, 1+r.Intn(2))
			x = append(x, 3+r.Intn(5))
			w = append(w, k)
		}
		for i := 0; i < 2*nsp; i++ {
			pads = append(pads, r.Intn(3))
		}
		var attrs []Attr
		if r.Intn(2) == 0 {
			attrs = append(attrs, aIs("kernel_shape", ks))
		}
		if r.Intn(3) > 0 {
			attrs = append(attrs, aIs("strides", st))
		} else {
			for i := range st {
				st[i] = 1
			}
		}
		if r.Intn(3) > 0 {
			attrs = append(attrs, aIs("dilations", dl))
		}
		switch r.Intn(4) {
		case 0:
			attrs = append(attrs, aS("auto_pad", []string{"SAME_UPPER", "SAME_LOWER"}[r.Intn(2)]))
		case 1:
		default:
			attrs = append(attrs, aIs("pads", pads))
		}
		ins := []AbsTensor{rtensor(r, "f32", x, -3, 3), rtensor(r, "f32", w, -3, 3)}
		if r.Intn(2) == 0 {
			ins = append(ins, rtensor(r, "f32", []int{M}, -9, 9))
		}
		return attrs, ins, 1
	},
	"ReduceMax": redGen, "ReduceMin": redGen,
	"ArgMax": func(r *rand.Rand) ([]Attr, []AbsTensor, int) {
		s := rshape(r, 1, 4, 5)
		var attrs []Attr
		if r.Intn(4) > 0 {
			attrs = append(attrs, aI("axis", axisIn(r, len(s), 0)))
		}
		if r.Intn(2) == 0 {
			attrs = append(attrs, aI("keepdims", r.Intn(2)))
		}
		if r.Intn(12) == 0 {
			attrs = []Attr{aI("axis", len(s)+r.Intn(2))}
		}
		return attrs, []AbsTensor{rtensor(r, "f32", s, -3, 3)}, 1
	},
}

func btensor(r *rand.Rand, shape []int) AbsTensor {
	t := AbsTensor{Dt: "bool", Shape: append([]int{}, shape...), Data: make([]Elem, size(shape))}
	for i := range t.Data {
		t.Data[i] = Elem{Kind: "bool", B: r.Intn(2) == 0}
	}
	return t
}

func cmpGen(r *rand.Rand) ([]Attr, []AbsTensor, int) {
	a, b := bpair(r)
	return nil, []AbsTensor{rtensor(r, "f32", a, -2, 2), rtensor(r, "f32", b, -2, 2)}, 1
}

func logicGen(r *rand.Rand) ([]Attr, []AbsTensor, int) {
	a, b := bpair(r)
	return nil, []AbsTensor{btensor(r, a), btensor(r, b)}, 1
}

// recGen draws a recurrent cell with relu activations (exact on integers), weights in {-1, 0, 1}, optional bias, initial
// state(s), peepholes, linear_before_reset, and a random number of declared outputs.
func recGen(op string, gates int) opGen {
	return func(r *rand.Rand) ([]Attr, []AbsTensor, int) {
		seq, batch, in, hid := 1+r.Intn(3), 1+r.Intn(3), 1+r.Intn(3), 1+r.Intn(3)
		acts := make([]string, map[string]int{"RNN": 1, "GRU": 2, "LSTM": 3}[op])
		for i := range acts {
			acts[i] = "relu"
		}
		attrs := []Attr{aI("hidden_size", hid), {"activations", "ss", rawJ(acts)}}
		if op == "GRU" && r.Intn(2) == 0 {
			attrs = append(attrs, aI("linear_before_reset", 1))
		}
		ins := []AbsTensor{rtensor(r, "f32", []int{seq, batch, in}, -2, 2), rtensor(r, "f32", []int{1, gates * hid, in}, -1, 1), rtensor(r, "f32", []int{1, gates * hid, hid}, -1, 1)}
		opt := func(t AbsTensor) AbsTensor {
			if r.Intn(2) == 0 {
				return t
			}
			return nilT
		}
		ins = append(ins, opt(rtensor(r, "f32", []int{1, 2 * gates * hid}, -1, 1)), nilT, opt(rtensor(r, "f32", []int{1, batch, hid}, -2, 2)))
		if op == "LSTM" {
			ins = append(ins, opt(rtensor(r, "f32", []int{1, batch, hid}, -2, 2)), opt(rtensor(r, "f32", []int{1, 3 * hid}, -1, 1)))
		}
		for len(ins) > 3 && ins[len(ins)-1].Nil {
			ins = ins[:len(ins)-1]
		}
		maxOut := 2
		if op == "LSTM" {
			maxOut = 3
		}
		return attrs, ins, 1 + r.Intn(maxOut)
	}
}

func helperGen(r *rand.Rand) ([]Attr, []AbsTensor, int) {
	a, b := bpair(r)
	if r.Intn(3) == 0 { // rank 5 and longer extents than the exhaustive generator reaches
		a = append([]int{1 + r.Intn(2)}, a...)
	}
	return nil, []AbsTensor{rtensor(r, "f32", a, -99, 99), rtensor(r, "f32", b, 100, 299)}, 2
}

func init() {
	opGens["MultidirectionalBroadcast"], opGens["UnidirectionalBroadcast"] = helperGen, helperGen
	for _, op := range []string{"Equal", "Less", "LessOrEqual", "Greater", "GreaterOrEqual"} {
		opGens[op] = cmpGen
	}
	for _, op := range []string{"And", "Or", "Xor"} {
		opGens[op] = logicGen
	}
	opGens["Not"] = func(r *rand.Rand) ([]Attr, []AbsTensor, int) {
		return nil, []AbsTensor{btensor(r, rshape(r, 0, 4, 4))}, 1
	}
	opGens["RNN"], opGens["GRU"], opGens["LSTM"] = recGen("RNN", 1), recGen("GRU", 3), recGen("LSTM", 4)
}

func binGen(r *rand.Rand) ([]Attr, []AbsTensor, int) {
	a, b := bpair(r)
	return nil, []AbsTensor{rtensor(r, "f32", a, -9, 9), rtensor(r, "f32", b, -9, 9)}, 1
}

func unGen(r *rand.Rand) ([]Attr, []AbsTensor, int) {
	return nil, []AbsTensor{rtensor(r, "f32", rshape(r, 0, 4, 5), -50, 50)}, 1
}

func redGen(r *rand.Rand) ([]Attr, []AbsTensor, int) {
	s := rshape(r, 1, 4, 5)
	var attrs []Attr
	if r.Intn(4) > 0 {
		k := 1 + r.Intn(len(s))
		axes := perm(r, len(s))[:k]
		for i := range axes {
			if r.Intn(2) == 0 {
				axes[i] -= len(s)
			}
		}
		if r.Intn(12) == 0 {
			axes[0] = len(s) + r.Intn(2)
		}
		attrs = append(attrs, aIs("axes", axes))
	}
	if r.Intn(2) == 0 {
		attrs = append(attrs, aI("keepdims", r.Intn(2)))
	}
	return attrs, []AbsTensor{rtensor(r, "f32", s, -50, 50)}, 1
}

// evTensor renders a tensor for the trace: inputs with integer elements (the specification computes on them), outputs with
// every element as a string (an element outside the integers cannot make TLC compare values of different kinds).
func evTensor(t AbsTensor, strings_ bool) interface{} {
	if t.Nil {
		return map[string]interface{}{"nil": true}
	}
	shape := t.Shape
	if shape == nil {
		shape = []int{}
	}
	if !strings_ {
		if t.Dt == "bool" {
			data := make([]bool, len(t.Data))
			for i, e := range t.Data {
				data[i] = e.B
			}
			return map[string]interface{}{"dt": t.Dt, "shape": shape, "data": data}
		}
		data := make([]int64, len(t.Data))
		for i, e := range t.Data {
			data[i] = e.I
		}
		return map[string]interface{}{"dt": t.Dt, "shape": shape, "data": data}
	}
	data := make([]string, len(t.Data))
	for i, e := range t.Data {
		if e.Kind == "int" {
			data[i] = strconv.FormatInt(e.I, 10)
		} else if e.Kind == "bool" {
			data[i] = map[bool]string{true: "TRUE", false: "FALSE"}[e.B] // TLC's ToString of a boolean
		} else if e.Kind == "rec" && e.C == "nz" {
			data[i] = "0" // -0 equals +0 numerically; the integer-valued semantics has one zero
		} else {
			b, _ := json.Marshal(e)
			data[i] = string(b)
		}
	}
	return map[string]interface{}{"dt": t.Dt, "shape": shape, "data": data}
}

func recordOps(rec *recorder, rng *rand.Rand, trials int, repo string) int {
	var names []string
	if opsFilter != "" {
		names = strings.Split(opsFilter, ",")
	} else {
		for k := range opGens {
			names = append(names, k)
		}
	}
	sort.Strings(names)
	for _, n := range names {
		if _, ok := opGens[n]; !ok {
			fmt.Println("unknown operator for the ops recorder:", n)
			return 2
		}
	}
	for i := 0; i < trials; i++ {
		for _, op := range names {
			attrs, inputs, nout := opGens[op](rng)
			if attrs == nil {
				attrs = []Attr{}
			}
			// element types: mostly float32, otherwise one other type for all float operands of the invocation
			if alt := []string{"", "", "", "", "f64", "f64", "i32", "i64"}[rng.Intn(8)]; alt != "" {
				for k := range inputs {
					if !inputs[k].Nil && inputs[k].Dt == "f32" {
						inputs[k].Dt = alt
					}
				}
			}
			c := &Case{Kind: "op", Op: op, Attrs: attrs, Inputs: inputs, Nout: nout}
			var obs Observation
			if op == "MultidirectionalBroadcast" || op == "UnidirectionalBroadcast" {
				c.Kind = "helper"
				obs = execHelper(c)
			} else {
				obs = execOpAPI(c)
			}
			ev := map[string]interface{}{"ev": "Op", "op": op, "attrs": attrs, "nout": nout, "kind": obs.Kind, "changed": obs.Changed != ""}
			ins := make([]interface{}, len(inputs))
			for k, t := range inputs {
				ins[k] = evTensor(t, false)
			}
			ev["inputs"] = ins
			outs := []interface{}{}
			if obs.Kind == "value" {
				for _, t := range obs.Value {
					at, err := AbstractTensor(t)
					if err != nil {
						ev["kind"] = "unreadable"
						break
					}
					outs = append(outs, evTensor(at, true))
				}
			}
			if obs.Kind == "harness" {
				fmt.Println("ops recorder: harness error:", obs.Note)
				return 2
			}
			ev["outs"] = outs
			ev["note"] = obs.Short()
			if len(ev["note"].(string)) > 300 {
				ev["note"] = ev["note"].(string)[:300]
			}
			rec.emit(ev)
		}
	}
	return 0
}
