package main

// C15: input gate (ValidateInputs) of every operator, registry lookups and instance independence.

import (
	"encoding/json"
	"fmt"
	"os"
	"sort"

	"github.com/advancedclimatesystems/gonnx"
	"github.com/advancedclimatesystems/gonnx/onnx"
	"github.com/advancedclimatesystems/gonnx/ops"
	"github.com/advancedclimatesystems/gonnx/ops/opset13"
	"google.golang.org/protobuf/proto"
	"gorgonia.org/tensor"
)

func init() {
	execKinds["gate"] = execGateCase
	execKinds["lookup"] = execLookupCase
	execKinds["registry"] = execRegistryCase
}

// cmdOptable dumps, for every operator name of the opset, min/max input counts and the per-position
// dtype constraints as declared by the real operators (an observation of the code, loaded by Gate.tla).
func cmdOptable(args []string) int {
	out := "optable.json"
	for i, a := range args {
		if a == "-out" && i+1 < len(args) {
			out = args[i+1]
		}
	}
	type entry struct {
		Name string     `json:"name"`
		Min  int        `json:"min"`
		Max  int        `json:"max"`
		Cons [][]string `json:"cons"`
	}
	names := opset13.GetOpNames()
	sort.Strings(names)
	var table []entry
	for _, n := range names {
		op, err := opset13.GetOperator(n)
		if err != nil {
			fmt.Fprintln(os.Stderr, "optable:", n, err)
			return 2
		}
		e := entry{Name: n, Min: op.GetMinInputs(), Max: op.GetMaxInputs(), Cons: [][]string{}}
		func() {
			defer func() { _ = recover() }()
			for _, c := range op.GetInputTypeConstraints() {
				row := []string{}
				for _, d := range c {
					row = append(row, dtName(d))
				}
				sort.Strings(row)
				e.Cons = append(e.Cons, row)
			}
		}()
		table = append(table, e)
	}
	b, _ := json.Marshal(table)
	if err := os.WriteFile(out, b, 0o644); err != nil {
		fmt.Fprintln(os.Stderr, "optable:", err)
		return 2
	}
	fmt.Printf("optable: %d operators\n", len(table))
	return 0
}

// gate case payload: dtypes (or "nil") of the supplied input list; expect = "accept" | "error"; padded length on accept.
type gateX struct {
	Dts    []string `json:"dts"`
	Shk    []string `json:"shk"` // shape of the tensor at each position: one [1] (default), empty [0], empty2 [2,0], scalar [], mat [2,3]
	Expect string   `json:"expect"`
	Padded int      `json:"padded"`
	Errc   []string `json:"errc"`
}

func execGateCase(c *Case) []ModeResult {
	verdict, short := gateOnce(nil, c, false)
	v2, s2 := gateOnce(nil, c, true)
	out := []ModeResult{{"gate", verdict, short}, {"gate:spare-capacity", v2, s2}}
	if v4, s4, ok := gateThroughRun(c); ok {
		out = append(out, ModeResult{"gate:run-node-without-used-outputs", v4, s4})
	}
	if gateHasEqualNeighbours(c) {
		// consecutive positions of one element type and shape may hold the very same tensor object (Gather(x, x), Concat(v, v, v)):
		// every position is still checked against ITS constraint
		v3, s3 := gateOnceObj(nil, c, false, true)
		out = append(out, ModeResult{"gate:equal-positions-one-object", v3, s3})
	}
	return out
}

func gateHasEqualNeighbours(c *Case) bool {
	var x gateX
	if err := json.Unmarshal(c.X, &x); err != nil {
		return false
	}
	kind := func(i int) string {
		if i < len(x.Shk) {
			return x.Shk[i]
		}
		return "one"
	}
	for i := 1; i < len(x.Dts); i++ {
		if x.Dts[i] != "nil" && x.Dts[i] == x.Dts[i-1] && kind(i) == kind(i-1) {
			return true
		}
	}
	return false
}

// gateOnce puts one input list through the gate of op (a fresh instance of c.Op when op is nil).
func gateOnce(op ops.Operator, c *Case, spare bool) (string, string) {
	return gateOnceObj(op, c, spare, false)
}

func gateOnceObj(op ops.Operator, c *Case, spare, oneObject bool) (string, string) {
	var x gateX
	if err := json.Unmarshal(c.X, &x); err != nil {
		return "infra:" + err.Error(), ""
	}
	inputs := make([]tensor.Tensor, len(x.Dts))
	for i, d := range x.Dts {
		if d == "nil" {
			continue
		}
		shape, n := []int{1}, 1
		if i < len(x.Shk) {
			switch x.Shk[i] {
			case "empty":
				shape, n = []int{0}, 0
			case "empty2":
				shape, n = []int{2, 0}, 0
			case "scalar":
				shape, n = []int{}, 1
			case "mat":
				shape, n = []int{2, 3}, 6
			}
		}
		if oneObject && i > 0 && inputs[i-1] != nil && x.Dts[i-1] == d && (i >= len(x.Shk) || x.Shk[i] == x.Shk[i-1]) {
			inputs[i] = inputs[i-1]
			continue
		}
		data := make([]Elem, n)
		for k := range data {
			data[k] = IntElem(1)
		}
		t, err := MkTensor(AbsTensor{Dt: d, Shape: shape, Data: data})
		if err != nil {
			return "infra:" + err.Error(), ""
		}
		inputs[i] = t
	}
	if spare {
		// the same list as a prefix of a longer buffer whose spare capacity holds stale tensors: omitted trailing optional inputs
		// must still come out absent
		buf := make([]tensor.Tensor, len(inputs), len(inputs)+12)
		copy(buf, inputs)
		full := buf[:cap(buf)]
		for i := len(inputs); i < len(full); i++ {
			full[i] = tensor.New(tensor.WithShape(1), tensor.WithBacking([]float32{float32(100 + i)}))
		}
		inputs = buf
	}
	before := snapshotAll(inputs)
	var outs []tensor.Tensor
	o := guard(func() Observation {
		if op == nil {
			var err error
			op, err = opset13.GetOperator(c.Op)
			if err != nil {
				return observeErr(err)
			}
		}
		res, err := op.ValidateInputs(inputs)
		if err != nil {
			return observeErr(err)
		}
		outs = res
		return Observation{Kind: "value"}
	})
	verdict := "pass"
	switch {
	case o.Kind == "panic":
		verdict = "violation:gate panicked: " + o.Note
	case x.Expect == "error":
		if o.Kind != "error" {
			verdict = fmt.Sprintf("violation:input list %v accepted, expected an input error", x.Dts)
		} else if len(x.Errc) > 0 {
			ok := false
			for _, e := range x.Errc {
				if e == o.Errc {
					ok = true
				}
			}
			if !ok {
				verdict = fmt.Sprintf("violation:error class %s (%v), expected one of %v", o.Errc, o.Err, x.Errc)
			}
		}
	case x.Expect == "accept":
		if o.Kind != "value" {
			verdict = fmt.Sprintf("violation:input list %v rejected: %v", x.Dts, o.Err)
			break
		}
		if len(outs) != x.Padded {
			verdict = fmt.Sprintf("violation:accepted list has length %d, expected %d (padded with absent inputs)", len(outs), x.Padded)
			break
		}
		for i := range outs {
			switch {
			case i < len(inputs) && outs[i] != inputs[i]:
				verdict = fmt.Sprintf("violation:position %d is not the supplied tensor object", i)
			case i >= len(inputs) && outs[i] != nil:
				verdict = fmt.Sprintf("violation:padded position %d is not absent", i)
			}
		}
		if d := diffSnapshots(before, snapshotAll(inputs)); d != "" {
			verdict = "violation:gate modified an input: " + d
		}
	}
	return verdict, o.Short()
}

func execLookupCase(c *Case) []ModeResult {
	o := guard(func() Observation {
		op, err := opset13.GetOperator(c.Op)
		if err != nil {
			return observeErr(err)
		}
		if op == nil {
			return Observation{Kind: "nil", Note: "nil operator without error"}
		}
		return Observation{Kind: "value"}
	})
	return []ModeResult{{"lookup", Verdict(c, o), o.Short()}}
}

// registry case payload: a sequence of steps over operator instances.
type regStep struct {
	Act     string      `json:"act"` // lookup | init | apply
	Name    string      `json:"name"`
	Inst    int         `json:"inst"` // 1-based index into the instances created by the lookups so far
	Attrs   []Attr      `json:"attrs"`
	Inputs  []AbsTensor `json:"inputs"`
	Allowed Allowed     `json:"allowed"`
}

func execRegistryCase(c *Case) []ModeResult {
	var steps []regStep
	if err := json.Unmarshal(c.X, &steps); err != nil {
		return []ModeResult{{"registry", "infra:" + err.Error(), ""}}
	}
	var insts []ops.Operator
	var names []string
	var out []ModeResult
	for k, s := range steps {
		s := s
		switch s.Act {
		case "lookup":
			o := guard(func() Observation {
				op, err := opset13.GetOperator(s.Name)
				if err != nil {
					return observeErr(err)
				}
				insts = append(insts, op)
				names = append(names, s.Name)
				return Observation{Kind: "value"}
			})
			if o.Kind != "value" {
				out = append(out, ModeResult{fmt.Sprintf("step%d", k+1), "violation:lookup of " + s.Name + " failed: " + o.Short(), o.Short()})
				return out
			}
			for i := 0; i+1 < len(insts); i++ {
				if insts[i] == insts[len(insts)-1] {
					out = append(out, ModeResult{fmt.Sprintf("step%d", k+1), fmt.Sprintf("violation:lookup %d returned the same operator object as lookup %d", len(insts), i+1), ""})
					return out
				}
			}
		case "init":
			node, err := mkNode(names[s.Inst-1], s.Attrs, nil, []string{"y"})
			if err != nil {
				return []ModeResult{{"registry", "infra:" + err.Error(), ""}}
			}
			o := guard(func() Observation {
				if err := insts[s.Inst-1].Init(node); err != nil {
					return observeErr(err)
				}
				return Observation{Kind: "value"}
			})
			if o.Kind != "value" {
				out = append(out, ModeResult{fmt.Sprintf("step%d", k+1), "violation:Init failed: " + o.Short(), o.Short()})
				return out
			}
		case "apply":
			cc := &Case{Inputs: s.Inputs, Allowed: s.Allowed, Cmp: "bits"}
			inputs, err := mkInputs(cc)
			if err != nil {
				return []ModeResult{{"registry", "infra:" + err.Error(), ""}}
			}
			o := guard(func() Observation {
				op := insts[s.Inst-1]
				validated, err := op.ValidateInputs(inputs)
				if err != nil {
					return observeErr(err)
				}
				res, err := op.Apply(validated)
				if err != nil {
					return observeErr(err)
				}
				return valueObs(res)
			})
			out = append(out, ModeResult{fmt.Sprintf("step%d", k+1), Verdict(cc, o), o.Short()})
		}
	}
	if len(out) == 0 {
		out = append(out, ModeResult{"registry", "pass", ""})
	}
	return out
}

// gateThroughRun: the same input list arrives at the gate through Model.Run, at a node none of whose outputs is used (its only
// output name is empty - all outputs of an operator may be omitted) beside a node that produces the graph output. The gate belongs to
// the node, not to its outputs: a list the gate refuses makes Run fail with an input error all the same. Only refused lists are
// decided here (an accepted list goes on into Apply with placeholder operands), and only operators that can be initialised from a
// node without attributes.
func gateThroughRun(c *Case) (string, string, bool) {
	var x gateX
	if err := json.Unmarshal(c.X, &x); err != nil || x.Expect != "error" {
		return "", "", false
	}
	probe, err := opset13.GetOperator(c.Op)
	if err != nil {
		return "", "", false
	}
	node := &onnx.NodeProto{OpType: c.Op, Name: "gated", Output: []string{""}}
	feed := gonnx.Tensors{}
	g := &onnx.GraphProto{Name: "g"}
	for i, d := range x.Dts {
		if d == "nil" {
			node.Input = append(node.Input, "")
			continue
		}
		name := fmt.Sprintf("in%d", i)
		node.Input = append(node.Input, name)
		t, err := MkTensor(AbsTensor{Dt: d, Shape: []int{1}, Data: []Elem{IntElem(1)}})
		if err != nil {
			return "", "", false
		}
		feed[name] = t
		g.Input = append(g.Input, &onnx.ValueInfoProto{Name: name})
	}
	if guardInline(func() Observation {
		if err := probe.Init(node); err != nil {
			return observeErr(err)
		}
		return Observation{Kind: "value"}
	}).Kind != "value" {
		return "", "", false
	}
	feed["z"] = tensor.New(tensor.WithShape(1), tensor.WithBacking([]float32{-1}))
	g.Input = append(g.Input, &onnx.ValueInfoProto{Name: "z"})
	g.Node = []*onnx.NodeProto{node, {OpType: "Relu", Name: "user", Input: []string{"z"}, Output: []string{"y"}}}
	g.Output = []*onnx.ValueInfoProto{{Name: "y"}}
	b, err := proto.Marshal(mkModel(g, 13))
	if err != nil {
		return "", "", false
	}
	o := guard(func() Observation {
		m, err := gonnx.NewModelFromBytes(b)
		if err != nil {
			return Observation{Kind: "harness", Note: "load: " + err.Error()}
		}
		if _, err := m.Run(feed); err != nil {
			return observeErr(err)
		}
		return Observation{Kind: "value"}
	})
	switch {
	case o.Kind == "harness":
		return "", "", false // (a loader that refuses such a graph: nothing to decide)
	case o.Kind == "panic":
		return "violation:Run panicked: " + o.Note, o.Short(), true
	case o.Kind != "error":
		return fmt.Sprintf("violation:Run accepted a node whose input list %v its gate refuses", x.Dts), o.Short(), true
	case len(x.Errc) > 0:
		for _, e := range x.Errc {
			if e == o.Errc {
				return "pass", o.Short(), true
			}
		}
		return fmt.Sprintf("violation:Run failed with error class %s (%v), expected one of %v", o.Errc, o.Err, x.Errc), o.Short(), true
	}
	return "pass", o.Short(), true
}
