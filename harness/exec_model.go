package main

// Model-level cases (C01, C02, C13, C16, C17, C18): a model description, a history of Run calls (with object
// re-use between calls) and, for C17, a schedule; every call is compared with the outcome the specification allows.

import (
	"encoding/json"
	"fmt"
	"reflect"
	"sort"
	"strings"

	"github.com/advancedclimatesystems/gonnx"
	"github.com/advancedclimatesystems/gonnx/onnx"
	"google.golang.org/protobuf/proto"
	"gorgonia.org/tensor"
)

func init() { execKinds["model"] = execModelCase }

type mNode struct {
	Op    string   `json:"op"`
	Attrs []Attr   `json:"attrs"`
	Ins   []string `json:"ins"`
	Outs  []string `json:"outs"`
}

type mDim struct {
	Kind string `json:"kind"` // fixed | sym | none
	Size int64  `json:"size"`
	Den  string `json:"den"` // ONNX denotation of the dimension (DATA_BATCH, ...): carries no meaning for the signature
}

type mInput struct {
	Name string `json:"name"`
	Dt   string `json:"dt"`
	Dims []mDim `json:"dims"`
}

type mInit struct {
	Name string    `json:"name"`
	T    AbsTensor `json:"t"`
}

type mModel struct {
	Nodes   []mNode  `json:"nodes"`
	Inputs  []mInput `json:"inputs"`
	Outputs []string `json:"outputs"`
	Inits   []mInit  `json:"inits"`
	Opset   int64    `json:"opset"`
	Unnamed bool     `json:"unnamed"` // nodes carry no name (names are optional in ONNX)
	OutInfo []mInput `json:"outinfo"` // type and shape annotations of graph outputs (documentation: Run does not enforce them)
}

// mRef re-uses a tensor object of an earlier call: its input `name` (kind "in") or its output `name` (kind "out").
type mRef struct {
	Call int    `json:"call"` // 1-based
	Kind string `json:"kind"`
	Name string `json:"name"`
}

// tensorMap / refMap: a TLA+ function with an empty domain is printed as [] by ToJson
type tensorMap map[string]AbsTensor

func (m *tensorMap) UnmarshalJSON(b []byte) error {
	*m = tensorMap{}
	if strings.HasPrefix(strings.TrimSpace(string(b)), "[") {
		return nil
	}
	var x map[string]AbsTensor
	if err := json.Unmarshal(b, &x); err != nil {
		return err
	}
	*m = x
	return nil
}

type refMap map[string]mRef

func (m *refMap) UnmarshalJSON(b []byte) error {
	*m = refMap{}
	if strings.HasPrefix(strings.TrimSpace(string(b)), "[") {
		return nil
	}
	var x map[string]mRef
	if err := json.Unmarshal(b, &x); err != nil {
		return err
	}
	*m = x
	return nil
}

type mCall struct {
	Ins     tensorMap `json:"ins"`
	Reuse   refMap    `json:"reuse"`
	Holds   tensorMap `json:"holds"` // contents of a reused input object when the call begins (refilled by the caller if they differ)
	Allowed Allowed   `json:"allowed"`
}

// overwrite copies the values of want into the memory of t (same element type and size): the caller refills its buffer.
func overwrite(t tensor.Tensor, want AbsTensor) error {
	b, err := backing(want)
	if err != nil {
		return err
	}
	dst, src := reflect.ValueOf(t.Data()), reflect.ValueOf(b)
	if dst.Kind() != reflect.Slice || src.Kind() != reflect.Slice || dst.Type() != src.Type() || dst.Len() != src.Len() {
		return fmt.Errorf("refill: cannot write %s%v into a %T of %d elements", want.Dt, want.Shape, t.Data(), t.DataSize())
	}
	reflect.Copy(dst, src)
	return nil
}

type mIntrospect struct {
	Names   []string `json:"names"`
	Outputs []string `json:"outputs"` // OutputNames, in declaration order (checked when present)
	Params  []string `json:"params"`  // ParamNames, as a set (checked when HasParams)
	HasPar  bool     `json:"hasparams"`
	DimSize []struct {
		Name string `json:"name"`
		Axis int    `json:"axis"`
		R    struct {
			Ok   bool  `json:"ok"`
			Size int64 `json:"size"`
		} `json:"r"`
	} `json:"dimsize"`
}

type mCase struct {
	Model      mModel       `json:"model"`
	Calls      []mCall      `json:"calls"`
	Checks     []string     `json:"checks"` // inputs_unchanged, weights_unchanged, fresh_equal
	Introspect *mIntrospect `json:"introspect"`
}

// checkIntrospection compares InputNames / InputShapes / InputDimSize with what the specification derives from the signature.
func checkIntrospectionOnce(model *gonnx.Model, mc *mCase) Observation {
	return guard(func() Observation {
		names := model.InputNames()
		if fmt.Sprint(names) != fmt.Sprint(mc.Introspect.Names) {
			return Observation{Kind: "nil", Note: fmt.Sprintf("InputNames %v, expected %v", names, mc.Introspect.Names)}
		}
		shapes := model.InputShapes()
		for _, in := range mc.Model.Inputs {
			sh, ok := shapes[in.Name]
			if !ok || len(sh) != len(in.Dims) {
				return Observation{Kind: "nil", Note: fmt.Sprintf("InputShapes[%s] = %v, expected rank %d", in.Name, sh, len(in.Dims))}
			}
			for i, d := range in.Dims {
				if (d.Kind == "fixed") == sh[i].IsDynamic || (d.Kind == "fixed" && sh[i].Size != d.Size) {
					return Observation{Kind: "nil", Note: fmt.Sprintf("InputShapes[%s][%d] = %+v, declared %+v", in.Name, i, sh[i], d)}
				}
			}
		}
		if mc.Introspect.Outputs != nil {
			if got := model.OutputNames(); fmt.Sprint(got) != fmt.Sprint(mc.Introspect.Outputs) {
				return Observation{Kind: "nil", Note: fmt.Sprintf("OutputNames %v, expected %v", got, mc.Introspect.Outputs)}
			}
		}
		if mc.Introspect.HasPar {
			got := append([]string{}, model.ParamNames()...)
			want := append([]string{}, mc.Introspect.Params...)
			sort.Strings(got)
			sort.Strings(want)
			if fmt.Sprint(got) != fmt.Sprint(want) {
				return Observation{Kind: "nil", Note: fmt.Sprintf("ParamNames %v, expected %v", got, want)}
			}
		}
		for _, q := range mc.Introspect.DimSize {
			n, err := model.InputDimSize(q.Name, q.Axis)
			if (err == nil) != q.R.Ok || (q.R.Ok && int64(n) != q.R.Size) {
				return Observation{Kind: "nil", Note: fmt.Sprintf("InputDimSize(%s,%d) = %d, %v; expected ok=%v size=%d", q.Name, q.Axis, n, err, q.R.Ok, q.R.Size)}
			}
		}
		return Observation{Kind: "value"}
	})
}

func checkIntrospection(model *gonnx.Model, mc *mCase) []ModeResult {
	var out []ModeResult
	o := checkIntrospectionOnce(model, mc)
	v := "pass"
	if o.Kind != "value" {
		v = "violation:introspection: " + o.Short()
	}
	out = append(out, ModeResult{"introspect", v, ""})
	if v == "pass" {
		// what the introspection methods hand out is the caller's to keep and to write into (an application fills the batch size it
		// has at hand into the reported shape to size its buffers): the model reports and enforces the DECLARED signature afterwards
		// as before. Everything returned is scribbled over, then asked for again (the calls of the case follow).
		o2 := guard(func() Observation {
			shapes := model.InputShapes()
			for name, sh := range shapes {
				for i := range sh {
					sh[i].Size, sh[i].IsDynamic = 97, false
				}
				shapes[name] = append(sh, sh...)
			}
			shapes["scribbled"] = nil
			for _, names := range [][]string{model.InputNames(), model.OutputNames(), model.ParamNames()} {
				for i := range names {
					names[i] = "scribbled"
				}
			}
			for _, sh := range model.OutputShapes() {
				for i := range sh {
					sh[i].Size, sh[i].IsDynamic = 97, false
				}
			}
			return Observation{Kind: "value"}
		})
		if o2.Kind == "value" {
			again := *mc
			o3 := checkIntrospectionOnce(model, &again)
			if o3.Kind != "value" {
				out = append(out, ModeResult{"introspect:after-the-caller-wrote-into-what-was-returned", "violation:introspection: " + o3.Short(), ""})
			} else {
				out = append(out, ModeResult{"introspect:after-the-caller-wrote-into-what-was-returned", "pass", ""})
			}
		}
	}
	return out
}

func buildModel(m mModel) ([]byte, error) {
	g := &onnx.GraphProto{Name: "g"}
	for i, n := range m.Nodes {
		node, err := mkNode(n.Op, n.Attrs, n.Ins, n.Outs)
		if err != nil {
			return nil, fmt.Errorf("node %d: %w", i, err)
		}
		if !m.Unnamed {
			node.Name = fmt.Sprintf("n%d_%s", i, n.Op)
		}
		g.Node = append(g.Node, node)
	}
	for _, in := range m.Inputs {
		dims := make([]DimSpec, len(in.Dims))
		for i, d := range in.Dims {
			switch d.Kind {
			case "fixed":
				dims[i] = DimSpec{Size: d.Size}
			case "sym":
				dims[i] = DimSpec{Param: fmt.Sprintf("d%d", i)}
			case "zero", "symempty":
				dims[i] = DimSpec{Enc: d.Kind}
			}
			dims[i].Den = d.Den
		}
		dt := in.Dt
		if dt == "" {
			dt = "f32"
		}
		g.Input = append(g.Input, mkValueInfo(in.Name, dt, dims))
	}
	for i, it := range m.Inits {
		enc := it.T.Enc
		if enc == "" {
			enc = []string{"raw", "typed"}[i%2]
		}
		tp, err := mkTensorProto(it.Name, it.T, enc)
		if err != nil {
			return nil, err
		}
		g.Initializer = append(g.Initializer, tp)
	}
	for _, o := range m.Outputs {
		vi := &onnx.ValueInfoProto{Name: o}
		for _, oi := range m.OutInfo {
			if oi.Name == o {
				dims := make([]DimSpec, len(oi.Dims))
				for i, d := range oi.Dims {
					switch d.Kind {
					case "fixed":
						dims[i] = DimSpec{Size: d.Size}
					case "sym":
						dims[i] = DimSpec{Param: fmt.Sprintf("o%d", i)}
					}
				}
				vi = mkValueInfo(o, oi.Dt, dims)
			}
		}
		g.Output = append(g.Output, vi)
	}
	opset := m.Opset
	if opset == 0 {
		opset = 13
	}
	return proto.Marshal(mkModel(g, opset))
}

func snapshotMap(ts gonnx.Tensors) map[string]Snapshot {
	out := map[string]Snapshot{}
	for k, t := range ts {
		out[k] = TakeSnapshot(t)
	}
	return out
}

func diffSnapshotMaps(a, b map[string]Snapshot) string {
	keys := make([]string, 0, len(a))
	for k := range a {
		keys = append(keys, k)
	}
	sort.Strings(keys)
	for _, k := range keys {
		if !a[k].Equal(b[k]) {
			return fmt.Sprintf("%s: %s -> %s", k, a[k], b[k])
		}
	}
	return ""
}

// runCall executes one call and classifies it.
func runCall(model *gonnx.Model, outputs []string, feed gonnx.Tensors) Observation {
	return guard(func() Observation {
		res, err := model.Run(feed)
		if err != nil {
			return observeErr(err)
		}
		if len(res) != len(uniq(outputs)) {
			return Observation{Kind: "nil", Note: fmt.Sprintf("result has %d entries for %d declared outputs", len(res), len(outputs))}
		}
		return collect(outputs, res)
	})
}

func uniq(s []string) []string {
	seen := map[string]bool{}
	var out []string
	for _, x := range s {
		if !seen[x] {
			seen[x] = true
			out = append(out, x)
		}
	}
	return out
}

func sameOutputs(a, b Observation) (bool, string) {
	if a.Kind != b.Kind {
		return false, fmt.Sprintf("outcome %s vs %s on a freshly loaded model", a.Kind, b.Kind)
	}
	if a.Kind != "value" {
		return true, ""
	}
	for i := range a.Value {
		if !TakeSnapshotValues(a.Value[i]).Equal(TakeSnapshotValues(b.Value[i])) {
			return false, fmt.Sprintf("output %d differs bit-wise from a freshly loaded model: %s vs %s", i, TakeSnapshotValues(a.Value[i]), TakeSnapshotValues(b.Value[i]))
		}
	}
	return true, ""
}

// TakeSnapshotValues is a snapshot that ignores strides (two equal tensors may be laid out differently).
func TakeSnapshotValues(t tensor.Tensor) Snapshot {
	s := TakeSnapshot(t)
	s.Strides = nil
	if t != nil {
		if els, err := elemsOf(t); err == nil {
			var sb strings.Builder
			for _, e := range els {
				sb.WriteString(bitsString(e))
				sb.WriteByte(',')
			}
			s.Bits = sb.String()
		}
	}
	return s
}

func execModelCase(c *Case) []ModeResult {
	var mc mCase
	if err := json.Unmarshal(c.X, &mc); err != nil {
		return []ModeResult{{"model", "infra:" + err.Error(), ""}}
	}
	checks := map[string]bool{}
	for _, k := range mc.Checks {
		checks[k] = true
	}
	bytesModel, err := buildModel(mc.Model)
	if err != nil {
		return []ModeResult{{"model", "infra:" + err.Error(), ""}}
	}
	var model *gonnx.Model
	load := guard(func() Observation {
		m, err := gonnx.NewModelFromBytes(bytesModel)
		if err != nil {
			return observeErr(err)
		}
		model = m
		return Observation{Kind: "value"}
	})
	if load.Kind != "value" {
		lc := &Case{Allowed: Allowed{Must: "value"}}
		if len(mc.Calls) > 0 && mc.Calls[0].Allowed.Must == "error" {
			// a model that cannot be loaded is an acceptable way of refusing it when its first call must fail anyway
			return []ModeResult{{"load", "pass", load.Short()}}
		}
		return []ModeResult{{"load", Verdict(lc, load), load.Short()}}
	}
	var res []ModeResult
	if mc.Introspect != nil {
		res = append(res, checkIntrospection(model, &mc)...)
	}
	type callObjs struct {
		ins  gonnx.Tensors
		outs gonnx.Tensors
	}
	var history []callObjs
	for k, call := range mc.Calls {
		feed := gonnx.Tensors{}
		for name, at := range call.Ins {
			t, err := MkTensor(at)
			if err != nil {
				return []ModeResult{{"model", "infra:" + err.Error(), ""}}
			}
			feed[name] = t
		}
		for name, ref := range call.Reuse {
			if ref.Call < 1 || ref.Call > len(history) {
				return []ModeResult{{"model", "infra:bad reuse reference", ""}}
			}
			h := history[ref.Call-1]
			var t tensor.Tensor
			if ref.Kind == "in" {
				t = h.ins[ref.Name]
			} else {
				t = h.outs[ref.Name]
			}
			if t == nil {
				// the referenced call produced nothing (it failed): the spec's expectation for this call already accounts for that
				continue
			}
			if want, ok := call.Holds[name]; ok {
				// the caller has refilled this buffer since the call it is taken from: write the new contents into the SAME object
				if same, _ := CompareTensor(want, t, "bits"); !same {
					// (the caller may also have given its tensor another shape in place: same object, same memory)
					if size := t.DataSize(); !shapeEq(t.Shape(), want.Shape) && size == len(want.Data) {
						if err := t.Reshape(want.Shape...); err != nil {
							return []ModeResult{{"model", "infra:" + err.Error(), ""}}
						}
					}
					if err := overwrite(t, want); err != nil {
						return []ModeResult{{"model", "infra:" + err.Error(), ""}}
					}
				}
			}
			feed[name] = t
		}
		beforeIn := snapshotMap(feed)
		beforeW := snapshotMap(model.VerifParameters())
		obs := runCall(model, mc.Model.Outputs, feed)
		cc := &Case{Allowed: call.Allowed, Cmp: c.Cmp}
		v := Verdict(cc, obs)
		mode := fmt.Sprintf("call%d", k+1)
		res = append(res, ModeResult{mode, v, obs.Short()})
		if checks["inputs_unchanged"] {
			if d := diffSnapshotMaps(beforeIn, snapshotMap(feed)); d != "" {
				res = append(res, ModeResult{mode + ":inputs", "violation:Run modified a caller tensor: " + d, ""})
			}
		}
		if checks["weights_unchanged"] {
			if d := diffSnapshotMaps(beforeW, snapshotMap(model.VerifParameters())); d != "" {
				res = append(res, ModeResult{mode + ":weights", "violation:Run modified a weight: " + d, ""})
			}
		}
		if checks["fresh_equal"] {
			fresh, err := gonnx.NewModelFromBytes(bytesModel)
			if err == nil {
				// same input objects: by now they are known to be unchanged (or already reported)
				fobs := runCall(fresh, mc.Model.Outputs, feed)
				if ok, why := sameOutputs(obs, fobs); !ok {
					res = append(res, ModeResult{mode + ":fresh", "violation:history dependence: " + why, ""})
				}
			}
		}
		h := callObjs{ins: feed, outs: gonnx.Tensors{}}
		if obs.Kind == "value" {
			for i, o := range mc.Model.Outputs {
				h.outs[o] = obs.Value[i]
			}
		}
		history = append(history, h)
	}
	if c.Prop == "C01" && len(mc.Calls) > 0 && len(mc.Calls[0].Reuse) == 0 {
		res = append(res, defaultDomainSpelledOut(c, &mc, bytesModel)...)
	}
	if len(mc.Calls) > 0 && len(mc.Calls[0].Reuse) == 0 && skipsAnInput(mc.Model) {
		res = append(res, strayEmptyName(c, &mc, bytesModel)...)
	}
	if len(res) == 0 {
		res = append(res, ModeResult{"load", "pass", ""})
	}
	return res
}

func skipsAnInput(m mModel) bool {
	for _, n := range m.Nodes {
		for _, in := range n.Ins {
			if in == "" {
				return true
			}
		}
	}
	return false
}

// strayEmptyName: an empty input name of a node means "this optional input is absent" (RunSem!GatherVals), whatever else is around
// under that name - a stray entry "" in the caller's feed, or an initializer that carries no name. The first call is repeated on
// fresh models with each of the two, and is held to the outcome the specification gives for the first call.
func strayEmptyName(c *Case, mc *mCase, bytesModel []byte) []ModeResult {
	call := mc.Calls[0]
	mkFeed := func() (gonnx.Tensors, error) {
		feed := gonnx.Tensors{}
		for name, at := range call.Ins {
			t, err := MkTensor(at)
			if err != nil {
				return nil, err
			}
			feed[name] = t
		}
		return feed, nil
	}
	var res []ModeResult
	cc := &Case{Allowed: call.Allowed, Cmp: c.Cmp}
	if feed, err := mkFeed(); err == nil {
		if fresh, err := gonnx.NewModelFromBytes(bytesModel); err == nil {
			feed[""] = tensor.New(tensor.WithShape(1), tensor.WithBacking([]float32{100}))
			obs := runCall(fresh, mc.Model.Outputs, feed)
			res = append(res, ModeResult{"call1:stray-empty-name-in-feed", Verdict(cc, obs), obs.Short()})
		}
	}
	mp := &onnx.ModelProto{}
	if err := proto.Unmarshal(bytesModel, mp); err == nil && mp.Graph != nil {
		mp.Graph.Initializer = append(mp.Graph.Initializer, &onnx.TensorProto{DataType: int32(onnx.TensorProto_FLOAT), Dims: []int64{1}, FloatData: []float32{100}})
		if b, err := proto.Marshal(mp); err == nil {
			if feed, err := mkFeed(); err == nil {
				if fresh, err := gonnx.NewModelFromBytes(b); err == nil {
					obs := runCall(fresh, mc.Model.Outputs, feed)
					res = append(res, ModeResult{"call1:unnamed-initializer", Verdict(cc, obs), obs.Short()})
				} // (a loader that refuses an initializer without a name is within its rights: nothing to decide then)
			}
		}
	}
	return res
}

func shapeEq(a tensor.Shape, b []int) bool {
	if len(a) != len(b) {
		return false
	}
	for i := range a {
		if a[i] != b[i] {
			return false
		}
	}
	return true
}

// defaultDomainSpelledOut: "ai.onnx" is the name of the default operator set - a node that spells it out is the same node as one
// that leaves its domain empty (ONNX IR). The first call is repeated on a fresh model whose nodes all carry domain "ai.onnx" and is
// held to the outcome the specification gives for the first call.
func defaultDomainSpelledOut(c *Case, mc *mCase, bytesModel []byte) []ModeResult {
	mp := &onnx.ModelProto{}
	if err := proto.Unmarshal(bytesModel, mp); err != nil || mp.Graph == nil {
		return nil
	}
	for _, n := range mp.Graph.Node {
		n.Domain = "ai.onnx"
	}
	b, err := proto.Marshal(mp)
	if err != nil {
		return nil
	}
	call := mc.Calls[0]
	feed := gonnx.Tensors{}
	for name, at := range call.Ins {
		t, err := MkTensor(at)
		if err != nil {
			return nil
		}
		feed[name] = t
	}
	fresh, err := gonnx.NewModelFromBytes(b)
	if err != nil {
		return []ModeResult{{"call1:node-domain-ai.onnx", "violation:a model whose nodes spell out the default domain is refused at load: " + err.Error(), ""}}
	}
	obs := runCall(fresh, mc.Model.Outputs, feed)
	return []ModeResult{{"call1:node-domain-ai.onnx", Verdict(&Case{Allowed: call.Allowed, Cmp: c.Cmp}, obs), obs.Short()}}
}
