package main

// Direction B for C01 / C02: random DAG programs (longer than the programs the TLC generator enumerates) are built from the
// operator catalogue, loaded as a Model and run several times with different inputs. A recording spy wrapped around the
// exported Model.GetOperator field logs, per node and in execution order, the node the interpreter initialised the operator
// with, the tensors it gathered for it and what the operator returned; Run's own result closes the run. Trace_Run.tla replays
// these events on the interpreter specification: the gathered tensors must be what the environment binds to the node's input
// names, the operator outcome must be what OpSem allows, and the returned map must be the environment's values of the graph
// outputs. The recorder passes no verdict.

import (
	"fmt"
	"math/rand"

	"github.com/advancedclimatesystems/gonnx"
	"github.com/advancedclimatesystems/gonnx/onnx"
	"github.com/advancedclimatesystems/gonnx/ops"
	"gorgonia.org/tensor"
)

func init() { recorders["run"] = recordRun }

type scopeT struct {
	name  string
	shape []int
}

type progBuilder struct {
	r     *rand.Rand
	scope []scopeT
	nodes []mNode
	inits []mInit
	nname int
}

func (b *progBuilder) fresh(prefix string) string {
	b.nname++
	return fmt.Sprintf("%s%d", prefix, b.nname)
}

func (b *progBuilder) addInit(t AbsTensor) string {
	n := b.fresh("w")
	b.inits = append(b.inits, mInit{Name: n, T: t})
	return n
}

func (b *progBuilder) pick(pred func(scopeT) bool) (scopeT, bool) {
	var c []scopeT
	for _, s := range b.scope {
		if pred(s) {
			c = append(c, s)
		}
	}
	if len(c) == 0 {
		return scopeT{}, false
	}
	return c[b.r.Intn(len(c))], true
}

func bcastShape(a, c []int) ([]int, bool) {
	n := len(a)
	if len(c) > n {
		n = len(c)
	}
	out := make([]int, n)
	for i := 0; i < n; i++ {
		da, dc := 1, 1
		if i >= n-len(a) {
			da = a[i-(n-len(a))]
		}
		if i >= n-len(c) {
			dc = c[i-(n-len(c))]
		}
		switch {
		case da == dc:
			out[i] = da
		case da == 1:
			out[i] = dc
		case dc == 1:
			out[i] = da
		default:
			return nil, false
		}
	}
	return out, true
}

func (b *progBuilder) emit(op string, attrs []Attr, ins []string, outShape []int) {
	if attrs == nil {
		attrs = []Attr{}
	}
	out := b.fresh("t")
	b.nodes = append(b.nodes, mNode{Op: op, Attrs: attrs, Ins: ins, Outs: []string{out}})
	b.scope = append(b.scope, scopeT{out, outShape})
}

// step appends one random node whose inputs come from the scope (and fresh weights); false when the drawn operator does not fit.
func (b *progBuilder) step() bool {
	r := b.r
	any := func(scopeT) bool { return true }
	switch r.Intn(14) {
	case 0, 1: // elementwise binary with another scope tensor or a weight
		a, _ := b.pick(any)
		op := []string{"Add", "Sub", "Mul"}[r.Intn(3)]
		if c, ok := b.pick(func(s scopeT) bool { _, ok := bcastShape(a.shape, s.shape); return ok }); ok && r.Intn(3) > 0 {
			o, _ := bcastShape(a.shape, c.shape)
			if r.Intn(2) == 0 {
				b.emit(op, nil, []string{a.name, c.name}, o)
			} else {
				b.emit(op, nil, []string{c.name, a.name}, o)
			}
			return true
		}
		ws := append([]int{}, a.shape...)
		if len(ws) > 0 && r.Intn(2) == 0 {
			ws = ws[r.Intn(len(ws)):]
		}
		for i := range ws {
			if r.Intn(3) == 0 {
				ws[i] = 1
			}
		}
		w := b.addInit(rtensor(r, "f32", ws, -2, 2))
		o, _ := bcastShape(a.shape, ws)
		b.emit(op, nil, []string{a.name, w}, o)
	case 2:
		a, _ := b.pick(any)
		b.emit([]string{"Relu", "Abs"}[r.Intn(2)], nil, []string{a.name}, a.shape)
	case 3:
		a, ok := b.pick(func(s scopeT) bool { return len(s.shape) >= 2 })
		if !ok {
			return false
		}
		p := r.Perm(len(a.shape))
		o := make([]int, len(p))
		for i, k := range p {
			o[i] = a.shape[k]
		}
		b.emit("Transpose", []Attr{aIs("perm", p)}, []string{a.name}, o)
	case 4:
		a, _ := b.pick(any)
		ax := r.Intn(len(a.shape) + 1)
		b.emit("Flatten", []Attr{aI("axis", ax)}, []string{a.name}, []int{size(a.shape[:ax]), size(a.shape[ax:])})
	case 5:
		a, _ := b.pick(any)
		n := size(a.shape)
		var tgt []int
		rem := n
		for rem > 1 && len(tgt) < 3 {
			d := 1 + r.Intn(rem)
			for rem%d != 0 {
				d--
			}
			tgt = append(tgt, d)
			rem /= d
		}
		if len(tgt) == 0 {
			tgt = []int{1}
		}
		spec := append([]int{}, tgt...)
		if r.Intn(3) == 0 {
			spec[r.Intn(len(spec))] = -1
		}
		b.emit("Reshape", nil, []string{a.name, b.addInit(itensor("i64", spec))}, tgt)
	case 6:
		a, ok := b.pick(func(s scopeT) bool { return len(s.shape) >= 1 })
		if !ok {
			return false
		}
		ax := r.Intn(len(a.shape))
		c, _ := b.pick(func(s scopeT) bool {
			if len(s.shape) != len(a.shape) {
				return false
			}
			for i := range s.shape {
				if i != ax && s.shape[i] != a.shape[i] {
					return false
				}
			}
			return true
		})
		o := append([]int{}, a.shape...)
		o[ax] += c.shape[ax]
		b.emit("Concat", []Attr{aI("axis", ax-r.Intn(2)*len(a.shape))}, []string{a.name, c.name}, o)
	case 7:
		a, ok := b.pick(func(s scopeT) bool { return len(s.shape) <= 3 })
		if !ok {
			return false
		}
		ax := r.Intn(len(a.shape) + 1)
		o := append(append(append([]int{}, a.shape[:ax]...), 1), a.shape[ax:]...)
		b.emit("Unsqueeze", nil, []string{a.name, b.addInit(itensor("i64", []int{ax}))}, o)
	case 8:
		a, ok := b.pick(func(s scopeT) bool {
			for _, d := range s.shape {
				if d == 1 {
					return true
				}
			}
			return false
		})
		if !ok {
			return false
		}
		var o []int
		for _, d := range a.shape {
			if d != 1 {
				o = append(o, d)
			}
		}
		if o == nil {
			o = []int{}
		}
		b.emit("Squeeze", nil, []string{a.name}, o)
	case 9:
		a, ok := b.pick(func(s scopeT) bool { return len(s.shape) == 2 })
		if !ok {
			return false
		}
		n := 1 + r.Intn(4)
		w := b.addInit(rtensor(r, "f32", []int{a.shape[1], n}, -2, 2))
		if r.Intn(2) == 0 {
			b.emit("MatMul", nil, []string{a.name, w}, []int{a.shape[0], n})
		} else {
			c := b.addInit(rtensor(r, "f32", []int{n}, -3, 3))
			b.emit("Gemm", []Attr{aF("alpha", r.Intn(3)-1), aF("beta", 1+r.Intn(2))}, []string{a.name, w, c}, []int{a.shape[0], n})
		}
	case 10: // Slice that keeps at least two elements on the sliced axis (the unit-axis results are an open finding of C08)
		a, ok := b.pick(func(s scopeT) bool {
			for _, d := range s.shape {
				if d >= 3 {
					return true
				}
			}
			return false
		})
		if !ok {
			return false
		}
		var axs []int
		for i, d := range a.shape {
			if d >= 3 {
				axs = append(axs, i)
			}
		}
		ax := axs[r.Intn(len(axs))]
		d := a.shape[ax]
		st := r.Intn(d - 1)
		en := st + 2 + r.Intn(d-st-1)
		o := append([]int{}, a.shape...)
		o[ax] = en - st
		b.emit("Slice", nil, []string{a.name, b.addInit(itensor("i64", []int{st})), b.addInit(itensor("i64", []int{en})), b.addInit(itensor("i64", []int{ax}))}, o)
	case 11:
		a, ok := b.pick(func(s scopeT) bool { return len(s.shape) >= 1 })
		if !ok {
			return false
		}
		k := 1 + r.Intn(len(a.shape))
		axes := r.Perm(len(a.shape))[:k]
		keep := r.Intn(2)
		var o []int
		for i, d := range a.shape {
			red := false
			for _, x := range axes {
				if x == i {
					red = true
				}
			}
			switch {
			case !red:
				o = append(o, d)
			case keep == 1:
				o = append(o, 1)
			}
		}
		if o == nil {
			o = []int{}
		}
		b.emit([]string{"ReduceMax", "ReduceMin"}[r.Intn(2)], []Attr{aIs("axes", axes), aI("keepdims", keep)}, []string{a.name}, o)
	case 12:
		a, ok := b.pick(func(s scopeT) bool { return len(s.shape) >= 1 })
		if !ok {
			return false
		}
		ax := r.Intn(len(a.shape))
		is := rshape(r, 0, 2, 3)
		idx := b.addInit(rtensor(r, "i64", is, -a.shape[ax], a.shape[ax]-1))
		o := append(append(append([]int{}, a.shape[:ax]...), is...), a.shape[ax+1:]...)
		b.emit("Gather", []Attr{aI("axis", ax)}, []string{a.name, idx}, o)
	case 13:
		a, _ := b.pick(any)
		tgt := append([]int{}, a.shape...)
		for i := range tgt {
			if tgt[i] == 1 && r.Intn(2) == 0 {
				tgt[i] = 1 + r.Intn(3)
			}
		}
		if r.Intn(2) == 0 {
			tgt = append([]int{1 + r.Intn(2)}, tgt...)
		}
		b.emit("Expand", nil, []string{a.name, b.addInit(itensor("i64", tgt))}, tgt)
	}
	return true
}

// recSpy records what one operator instance was initialised with, was given and returned.
type recSpy struct {
	ops.Operator
	log *[]map[string]interface{}
	ev  map[string]interface{}
}

func evTensors(ts []tensor.Tensor, asStrings bool) []interface{} {
	out := []interface{}{}
	for _, t := range ts {
		at, err := AbstractTensor(t)
		if err != nil {
			out = append(out, map[string]interface{}{"unreadable": err.Error()})
			continue
		}
		out = append(out, evTensor(at, asStrings))
	}
	return out
}

func (s *recSpy) Init(n *onnx.NodeProto) error {
	s.ev = map[string]interface{}{"ev": "Node", "op": n.GetOpType(), "ins": append([]string{}, n.GetInput()...), "outs": append([]string{}, n.GetOutput()...),
		"kind": "value", "inputs": []interface{}{}, "results": []interface{}{}}
	*s.log = append(*s.log, s.ev)
	err := s.Operator.Init(n)
	if err != nil {
		s.ev["kind"] = "error"
	}
	return err
}

func (s *recSpy) ValidateInputs(in []tensor.Tensor) ([]tensor.Tensor, error) {
	out, err := s.Operator.ValidateInputs(in)
	if err != nil {
		s.ev["kind"] = "error"
		return out, err
	}
	s.ev["inputs"] = evTensors(out, true)
	return out, err
}

func (s *recSpy) Apply(in []tensor.Tensor) ([]tensor.Tensor, error) {
	out, err := s.Operator.Apply(in)
	if err != nil {
		s.ev["kind"] = "error"
		return out, err
	}
	s.ev["results"] = evTensors(out, true)
	return out, err
}

func absMax(ts gonnx.Tensors) float64 {
	m := 0.0
	for _, t := range ts {
		if t == nil {
			continue
		}
		it := t.Iterator()
		for i, err := it.Start(); err == nil; i, err = it.Next() {
			v, _ := toFloat(t.Data(), i)
			if v < 0 {
				v = -v
			}
			if v > m {
				m = v
			}
		}
	}
	return m
}

func toFloat(data interface{}, i int) (float64, bool) {
	switch d := data.(type) {
	case []float32:
		return float64(d[i]), true
	case []int64:
		return float64(d[i]), true
	case float32:
		return float64(d), true
	case int64:
		return float64(d), true
	}
	return 0, false
}

// randomProgram grows a program node by node from the operator catalogue; a node that fails or whose values leave the
// exactly representable range is taken back. It returns the model, the shapes of its two inputs and a feed generator.
func randomProgram(rng *rand.Rand) (mModel, map[string][]int, func() (gonnx.Tensors, map[string]interface{}), bool) {
	b := &progBuilder{r: rng}
	inShapes := map[string][]int{"a": rshape(rng, 1, 3, 4), "b": rshape(rng, 1, 3, 4)}
	b.scope = []scopeT{{"a", inShapes["a"]}, {"b", inShapes["b"]}}
	b.addInit(rtensor(rng, "f32", []int{2}, -1, 1)) // never empty: an empty TLA+ function has no JSON form
	want := 4 + rng.Intn(6)
	mk := func() mModel {
		m := mModel{Nodes: b.nodes, Inits: b.inits, Opset: 13}
		for _, n := range []string{"a", "b"} {
			in := mInput{Name: n, Dt: "f32"}
			for range inShapes[n] {
				in.Dims = append(in.Dims, mDim{Kind: "none"})
			}
			m.Inputs = append(m.Inputs, in)
		}
		used := map[string]bool{}
		for _, n := range b.nodes {
			for _, i := range n.Ins {
				used[i] = true
			}
		}
		for _, n := range b.nodes {
			for _, o := range n.Outs {
				if !used[o] || rng.Intn(4) == 0 {
					m.Outputs = append(m.Outputs, o)
				}
			}
		}
		return m
	}
	feed := func() (gonnx.Tensors, map[string]interface{}) {
		f, ev := gonnx.Tensors{}, map[string]interface{}{}
		for _, n := range []string{"a", "b"} {
			at := rtensor(rng, "f32", inShapes[n], -3, 3)
			t, _ := MkTensor(at)
			f[n] = t
			ev[n] = evTensor(at, false)
		}
		return f, ev
	}
	for tries := 0; len(b.nodes) < want && tries < 60; tries++ {
		save := *b
		saveNodes, saveInits, saveScope := append([]mNode{}, b.nodes...), append([]mInit{}, b.inits...), append([]scopeT{}, b.scope...)
		if !b.step() {
			continue
		}
		bytesModel, err := buildModel(mk())
		ok := err == nil
		if ok {
			model, err := gonnx.NewModelFromBytes(bytesModel)
			ok = err == nil
			if ok {
				for k := 0; k < 2 && ok; k++ {
					f, _ := feed()
					out, err := model.Run(f)
					ok = err == nil && absMax(out) < 20000
				}
			}
		}
		if !ok { // take the node back (the specification's integers are 32 bits wide; failing requests are C03..C09 material)
			*b = save
			b.nodes, b.inits, b.scope = saveNodes, saveInits, saveScope
		}
	}
	return mk(), inShapes, feed, len(b.nodes) > 0
}

func recordRun(rec *recorder, rng *rand.Rand, trials int, repo string) int {
	for trial := 0; trial < trials; trial++ {
		m, _, feed, ok := randomProgram(rng)
		if !ok {
			continue
		}

		bytesModel, err := buildModel(m)
		if err != nil {
			fmt.Println("run recorder:", err)
			return 2
		}
		model, err := gonnx.NewModelFromBytes(bytesModel)
		if err != nil {
			fmt.Println("run recorder: load:", err)
			return 2
		}
		var log []map[string]interface{}
		orig := model.GetOperator
		model.GetOperator = func(name string) (ops.Operator, error) {
			op, err := orig(name)
			if err != nil {
				return nil, err
			}
			return &recSpy{Operator: op, log: &log}, nil
		}
		nodes := []interface{}{}
		for _, n := range m.Nodes {
			nodes = append(nodes, map[string]interface{}{"op": n.Op, "attrs": n.Attrs, "ins": n.Ins, "outs": n.Outs})
		}
		inits := map[string]interface{}{}
		for _, it := range m.Inits {
			inits[it.Name] = evTensor(it.T, false)
		}
		runs := 2 + rng.Intn(2)
		for k := 0; k < runs; k++ {
			f, fev := feed()
			begin := map[string]interface{}{"ev": "RunBegin", "trial": trial, "run": k + 1, "ins": fev}
			if k == 0 {
				begin["ev"] = "Load"
				begin["model"] = map[string]interface{}{"nodes": nodes, "outputs": m.Outputs, "inits": inits}
			}
			log = nil
			obs := runCall(model, m.Outputs, f)
			rec.emit(begin)
			for _, ev := range log {
				rec.emit(ev)
			}
			end := map[string]interface{}{"ev": "RunEnd", "kind": obs.Kind, "names": m.Outputs, "out": []interface{}{}}
			if obs.Kind == "value" {
				end["out"] = evTensors(obs.Value, true)
			}
			rec.emit(end)
		}
	}
	return 0
}
