package main

// Direction B at the level of shapes: `harness record shapes` applies binary operators to EVERY broadcast-compatible ordered pair of
// shapes of rank <= 4 over a set of extents (hundreds of thousands of pairs, in one process, in a fixed order) plus a share of
// incompatible pairs, and logs for each application the two shapes and the observed result shape (or "error"). Trace_Shapes.tla
// recomputes BCompat / BShape for every event. Values are not compared here (the generators do that on small shapes): what this
// reaches is anything that confuses one PAIR of shapes with another - a plan memoised under a lossy key, a table indexed by a
// digest of the dimensions - which only shows for particular pairs among very many.

import (
	"fmt"
	"math/rand"
	"strconv"
	"strings"

	"github.com/advancedclimatesystems/gonnx/ops"
	"github.com/advancedclimatesystems/gonnx/ops/opset13"
	"gorgonia.org/tensor"
)

func init() { recorders["shapes"] = recordShapes }

var shapeExtents = "1,2,3,4,5,7,9"

func recordShapes(rec *recorder, rng *rand.Rand, trials int, repo string) int {
	var ext []int
	for _, s := range strings.Split(shapeExtents, ",") {
		v, err := strconv.Atoi(strings.TrimSpace(s))
		if err != nil || v < 1 {
			fmt.Println("record shapes: bad extent", s)
			return 2
		}
		ext = append(ext, v)
	}
	// per axis: the compatible pairs (x, y) of extents - equal, or one of them 1
	type pr struct{ a, b int }
	var axis []pr
	for _, x := range ext {
		for _, y := range ext {
			if x == y || x == 1 || y == 1 {
				axis = append(axis, pr{x, y})
			}
		}
	}
	opNames := []string{"Add", "Mul", "Less", "Sub"}
	buf := map[int]tensor.Tensor{}
	mk := func(shape []int) tensor.Tensor {
		n := 1
		for _, d := range shape {
			n *= d
		}
		// tensors of one size share a zero backing per call site: only shapes matter here, and operands are never written
		return tensor.New(tensor.WithShape(shape...), tensor.WithBacking(make([]float32, n)))
	}
	_ = buf
	count := 0
	apply := func(a, b []int, k int) {
		opName := opNames[k%len(opNames)]
		A, B := mk(a), mk(b)
		o := guard(func() Observation {
			op, err := opset13.GetOperator(opName)
			if err != nil {
				return observeErr(err)
			}
			v, err := op.ValidateInputs([]tensor.Tensor{A, B})
			if err != nil {
				return observeErr(err)
			}
			res, err := op.Apply(v)
			if err != nil {
				return observeErr(err)
			}
			return valueObs(res)
		})
		e := map[string]interface{}{"ev": "Pair", "op": opName, "a": a, "b": b, "kind": o.Kind, "oshape": []int{}}
		if o.Kind == "value" && len(o.Value) == 1 && o.Value[0] != nil {
			e["oshape"] = append([]int{}, o.Value[0].Shape()...)
		}
		if o.Kind == "panic" {
			e["note"] = o.Note
		}
		rec.emit(e)
		count++
	}
	var _ ops.Operator
	k := 0
	// rank 4 against rank 4, and against every lower rank (the shorter shape is a suffix pattern: leading axes are dropped)
	for r := 4; r >= 1; r-- {
		idx := make([]int, r)
		for {
			a, b := make([]int, r), make([]int, r)
			for i, j := range idx {
				a[i], b[i] = axis[j].a, axis[j].b
			}
			apply(a, b, k)
			k++
			if r == 4 && k%7 == 0 {
				// the same pair with the second operand given at a lower rank (leading 1s dropped), when it has any
				lead := 0
				for lead < len(b)-1 && b[lead] == 1 {
					lead++
				}
				if lead > 0 {
					apply(a, b[lead:], k)
				}
			}
			if k%50 == 0 {
				// an incompatible neighbour: one extent of b replaced by another extent that is neither equal nor 1
				bb := append([]int{}, b...)
				p := rng.Intn(r)
				for _, x := range ext {
					if x != 1 && x != a[p] && a[p] != 1 {
						bb[p] = x
						apply(a, bb, k)
						break
					}
				}
			}
			// odometer
			p := r - 1
			for p >= 0 {
				idx[p]++
				if idx[p] < len(axis) {
					break
				}
				idx[p] = 0
				p--
			}
			if p < 0 {
				break
			}
		}
	}
	_ = trials
	return 0
}
