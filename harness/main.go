package main

// verif harness: binds the TLA+ specification in /verif/spec to the gonnx implementation.
//   harness replay  : Direction A - cases/behaviours printed by TLC are executed against the real code
//   harness record  : Direction B - the real code is driven from the Go side and ndjson traces are written for TLC
//   harness optable : dumps the arity / type-constraint table of the real operators for Gate.tla

import (
	"bufio"
	"crypto/sha1"
	"encoding/hex"
	"encoding/json"
	"flag"
	"fmt"
	"io"
	"os"
	"path/filepath"
	"runtime"
	"sort"
	"strconv"
	"strings"
	"sync"
)

func main() {
	if len(os.Args) < 2 {
		fmt.Fprintln(os.Stderr, "usage: harness replay|record|optable ...")
		os.Exit(2)
	}
	if os.Getenv("VERIF_GC_PRESSURE") != "" {
		// development aid: the collector runs back to back, so that memory reached only through an address (the tensor library
		// builds slices from uintptr values) is reclaimed while it is still read - see DESIGN 14.4 (ConstantOfShape, PRelu)
		go func() {
			for {
				runtime.GC()
			}
		}()
	}
	switch os.Args[1] {
	case "replay":
		os.Exit(cmdReplay(os.Args[2:]))
	case "record":
		os.Exit(cmdRecord(os.Args[2:]))
	case "optable":
		os.Exit(cmdOptable(os.Args[2:]))
	case "hammer":
		os.Exit(cmdHammer(os.Args[2:]))
	case "coldstart":
		os.Exit(cmdColdstart(os.Args[2:]))
	default:
		fmt.Fprintln(os.Stderr, "unknown subcommand", os.Args[1])
		os.Exit(2)
	}
}

// extractCase returns the JSON text of a case line, or "" if the line is not a case.
// Accepted: a raw JSON object, or TLC's rendering of PrintT(<<"CASE", json>>).
func extractCase(line string) string {
	line = strings.TrimSpace(line)
	if strings.HasPrefix(line, "{") {
		return line
	}
	const pre = `<<"CASE", `
	if strings.HasPrefix(line, pre) && strings.HasSuffix(line, ">>") {
		q := strings.TrimSuffix(strings.TrimPrefix(line, pre), ">>")
		s, err := strconv.Unquote(q)
		if err != nil {
			return ""
		}
		return s
	}
	return ""
}

func execCase(c *Case) []ModeResult {
	switch c.Kind {
	case "op":
		return execOpCase(c)
	case "helper":
		return execHelperCase(c)
	default:
		if f, ok := execKinds[c.Kind]; ok {
			return f(c)
		}
		return []ModeResult{{"?", "infra:unknown case kind " + c.Kind, ""}}
	}
}

// safeExec: a panic of the harness itself while executing one case is reported for that case (exit 2 material), it does not
// take the other cases down with it.
func safeExec(c *Case) (res []ModeResult) {
	defer func() {
		if r := recover(); r != nil {
			res = []ModeResult{{"harness", fmt.Sprintf("infra:the harness panicked on this case: %v", r), ""}}
		}
	}()
	return execCase(c)
}

// execKinds is filled by the files implementing further case kinds.
var execKinds = map[string]func(*Case) []ModeResult{}

type Summary struct {
	Prop          string         `json:"prop"`
	Cases         int            `json:"cases"`
	Distinct      int            `json:"distinct"`
	Nontrivial    int            `json:"distinct_nontrivial"`
	Executions    int            `json:"executions"`
	Pass          int            `json:"pass"`
	Violations    int            `json:"violations"`
	Infra         int            `json:"infra"`
	Known         map[string]int `json:"known"`
	Features      map[string]int `json:"features"`
	Must          map[string]int `json:"must"`
	Families      map[string]int `json:"families"`
	Samples       []jsonRaw      `json:"samples"`
	ViolationList []string       `json:"violation_replays"`
	InfraNotes    []string       `json:"infra_notes"`
}

func nontrivial(c *Case) bool {
	switch c.Allowed.Must {
	case "error":
		return true
	case "value", "value_or_error":
		for _, t := range c.Allowed.Value {
			if len(t.Data) > 1 {
				return true
			}
		}
		return c.Kind != "op" && c.Kind != "helper"
	}
	return false
}

func cmdReplay(args []string) int {
	fs := flag.NewFlagSet("replay", flag.ExitOnError)
	in := fs.String("in", "-", "file with case lines (TLC output or ndjson), - for stdin")
	out := fs.String("out", "", "summary json path")
	replayDir := fs.String("replaydir", "work/replay", "directory for replay files of violations")
	propFlag := fs.String("prop", "", "property id used in VIOLATION lines when a case has none")
	maxPrint := fs.Int("maxprint", 10, "print at most this many violation lines")
	nsamples := fs.Int("samples", 3, "cases kept as samples in the summary")
	verbose := fs.Bool("v", false, "print every case result")
	stride := fs.Int("stride", 1, "replay only the cases whose text hashes to 0 modulo this number (a deterministic subset)")
	_ = fs.Parse(args)

	var r io.Reader = os.Stdin
	if *in != "-" {
		f, err := os.Open(*in)
		if err != nil {
			fmt.Fprintln(os.Stderr, "harness:", err)
			return 2
		}
		defer f.Close()
		r = f
	}
	type job struct {
		text string
	}
	type result struct {
		c    *Case
		text string
		res  []ModeResult
		err  error
	}
	jobs := make(chan job, 256)
	results := make(chan result, 256)
	var wg sync.WaitGroup
	nw := runtime.NumCPU()
	for w := 0; w < nw; w++ {
		wg.Add(1)
		go func() {
			defer wg.Done()
			for j := range jobs {
				c := &Case{}
				if err := json.Unmarshal([]byte(j.text), c); err != nil {
					results <- result{text: j.text, err: err}
					continue
				}
				results <- result{c: c, text: j.text, res: safeExec(c)}
			}
		}()
	}
	go func() {
		sc := bufio.NewScanner(r)
		sc.Buffer(make([]byte, 1<<20), 1<<28)
		for sc.Scan() {
			if t := extractCase(sc.Text()); t != "" {
				if *stride > 1 {
					if h := sha1.Sum([]byte(t)); (int(h[0])<<8|int(h[1]))%*stride != 0 {
						continue
					}
				}
				jobs <- job{t}
			}
		}
		close(jobs)
		wg.Wait()
		close(results)
	}()

	reuse := newReusePass()
	sum := Summary{Prop: *propFlag, Known: map[string]int{}, Features: map[string]int{}, Must: map[string]int{}, Families: map[string]int{}}
	seen := map[string]bool{}
	printed := 0
	for res := range results {
		sum.Cases++
		if res.err != nil {
			sum.Infra++
			sum.InfraNotes = append(sum.InfraNotes, "unparseable case: "+res.err.Error())
			continue
		}
		c := res.c
		reuse.add(c, res.text)
		h := sha1.Sum([]byte(res.text))
		id := hex.EncodeToString(h[:8])
		if !seen[id] {
			seen[id] = true
			sum.Distinct++
			if nontrivial(c) {
				sum.Nontrivial++
			}
		}
		for _, f := range c.Feat {
			sum.Features[f]++
		}
		sum.Must[c.Allowed.Must]++
		sum.Families[c.Fam]++
		if len(sum.Samples) < *nsamples && len(res.text) < 4000 {
			sum.Samples = append(sum.Samples, jsonRaw(res.text))
		}
		prop := c.Prop
		if prop == "" {
			prop = *propFlag
		}
		violated := false
		var lines []string
		for _, mr := range res.res {
			sum.Executions++
			switch {
			case mr.Verdict == "pass":
				sum.Pass++
			case strings.HasPrefix(mr.Verdict, "known:"):
				sum.Known[strings.TrimPrefix(mr.Verdict, "known:")]++
			case strings.HasPrefix(mr.Verdict, "violation:"):
				violated = true
				lines = append(lines, fmt.Sprintf("mode=%s %s | observed: %s", mr.Mode, mr.Verdict, mr.Obs))
			default:
				sum.Infra++
				if len(sum.InfraNotes) < 20 {
					sum.InfraNotes = append(sum.InfraNotes, mr.Mode+" "+mr.Verdict)
				}
			}
			if *verbose {
				fmt.Printf("case %s %s/%s mode=%s %s | %s\n", id, c.Fam, c.Op, mr.Mode, mr.Verdict, mr.Obs)
			}
		}
		if violated {
			sum.Violations++
			_ = os.MkdirAll(*replayDir, 0o755)
			path := filepath.Join(*replayDir, fmt.Sprintf("%s-%s.json", prop, id))
			_ = os.WriteFile(path, []byte(res.text+"\n"), 0o644)
			_ = os.WriteFile(path+".txt", []byte(strings.Join(lines, "\n")+"\n"), 0o644)
			sum.ViolationList = append(sum.ViolationList, path)
			if printed < *maxPrint {
				printed++
				abs, _ := filepath.Abs(path)
				fmt.Printf("VIOLATION property=%s replay=%s\n", prop, abs)
				for _, l := range lines {
					if len(l) > 600 {
						l = l[:600] + "..."
					}
					fmt.Printf("  %s/%s %s\n", c.Fam, c.Op, l)
				}
			}
		}
	}
	// instance re-use pass: one operator instance per (operator, attributes, input ranks) applied to all its cases in turn
	for _, rv := range reuse.run() {
		sum.Executions++
		if rv.verdict == "pass" {
			sum.Pass++
			continue
		}
		sum.Violations++
		_ = os.MkdirAll(*replayDir, 0o755)
		h := sha1.Sum([]byte(rv.text))
		path := filepath.Join(*replayDir, fmt.Sprintf("%s-reuse-%s.json", rv.prop, hex.EncodeToString(h[:8])))
		_ = os.WriteFile(path, []byte(rv.text+"\n"), 0o644)
		_ = os.WriteFile(path+".txt", []byte(rv.verdict+"\n"), 0o644)
		sum.ViolationList = append(sum.ViolationList, path)
		if printed < *maxPrint {
			printed++
			abs, _ := filepath.Abs(path)
			fmt.Printf("VIOLATION property=%s replay=%s\n  %s\n", rv.prop, abs, rv.verdict)
		}
	}
	if *out != "" {
		b, _ := json.MarshalIndent(sum, "", " ")
		if err := os.WriteFile(*out, b, 0o644); err != nil {
			fmt.Fprintln(os.Stderr, "harness:", err)
			return 2
		}
	}
	keys := make([]string, 0, len(sum.Known))
	for k := range sum.Known {
		keys = append(keys, k)
	}
	sort.Strings(keys)
	for _, k := range keys {
		fmt.Printf("KNOWN-SEEN %s %d\n", k, sum.Known[k])
	}
	fmt.Printf("REPLAY-SUMMARY cases=%d distinct=%d executions=%d pass=%d violations=%d infra=%d\n",
		sum.Cases, sum.Distinct, sum.Executions, sum.Pass, sum.Violations, sum.Infra)
	switch {
	case sum.Violations > 0:
		return 1
	case sum.Infra > 0 || sum.Cases == 0:
		for _, n := range sum.InfraNotes {
			fmt.Fprintln(os.Stderr, "infra:", n)
		}
		return 2
	}
	return 0
}
