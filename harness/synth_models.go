package main

// Generated models for the free-running concurrency stress (C17): every operator family that reads weights, derives
// per-call state from its inputs, or decodes a tensor while the model is running. The first dimension of the input is the
// (dynamic) batch axis.

import (
	"fmt"
	"math/rand"
)

type synthModel struct {
	name string
	m    mModel
}

func fTensor(r *rand.Rand, shape []int, lo, hi int) AbsTensor {
	return rtensor(r, "f32", shape, lo, hi)
}

func dynInput(name string, rest ...int) mInput {
	in := mInput{Name: name, Dt: "f32", Dims: []mDim{{Kind: "sym"}}}
	for _, d := range rest {
		in.Dims = append(in.Dims, mDim{Kind: "fixed", Size: int64(d)})
	}
	return in
}

func synthModels(r *rand.Rand) []synthModel {
	relu := func(n int) Attr {
		a := make([]string, n)
		for i := range a {
			a[i] = "relu"
		}
		return Attr{"activations", "ss", rawJ(a)}
	}
	big := make([]int, 4096)
	for i := range big {
		big[i] = i%17 - 8
	}
	bigT := AbsTensor{Dt: "f32", Shape: []int{4096}, Data: make([]Elem, 4096), Enc: "raw"}
	for i, v := range big {
		bigT.Data[i] = IntElem(int64(v))
	}
	// a model with many initializers (per-Model tables sized by the number of weights): y = x + w1 + ... + w70
	many := mModel{Inputs: []mInput{dynInput("x", 3)}, Outputs: []string{"s70"}}
	prev := "x"
	for i := 1; i <= 70; i++ {
		w, o := fmt.Sprintf("mw%d", i), fmt.Sprintf("s%d", i)
		many.Inits = append(many.Inits, mInit{w, fTensor(r, []int{3}, -2, 2)})
		many.Nodes = append(many.Nodes, mNode{Op: "Add", Attrs: []Attr{}, Ins: []string{prev, w}, Outs: []string{o}})
		prev = o
	}
	// two Constant nodes without node names and with different values
	constT := func(base int) AbsTensor {
		t := AbsTensor{Dt: "f32", Shape: []int{6000}, Data: make([]Elem, 6000), Enc: "raw"}
		for i := range t.Data {
			t.Data[i] = IntElem(int64(base + i%13))
		}
		return t
	}
	// tensors of a mebibyte and more (2^18 + 37 float32): a raw Constant decoded in every Run, and a bias weight of lower rank than
	// the operand it is added to, shared by all Runs (a size at which a library may switch to another strategy)
	const largeN = 262144 + 37
	largeT := func(base int) AbsTensor {
		t := AbsTensor{Dt: "f32", Shape: []int{largeN}, Data: make([]Elem, largeN), Enc: "raw"}
		for i := range t.Data {
			t.Data[i] = IntElem(int64(base + i%29))
		}
		return t
	}
	return []synthModel{
		{"many_weights", many},
		{"large_constant_bias", mModel{
			Nodes: []mNode{
				{Op: "Constant", Attrs: []Attr{{"value", "t", rawJ(largeT(3))}}, Ins: []string{}, Outs: []string{"lc"}},
				{Op: "Add", Attrs: []Attr{}, Ins: []string{"x", "lc"}, Outs: []string{"ya"}},
				{Op: "Mul", Attrs: []Attr{}, Ins: []string{"x", "lbias"}, Outs: []string{"yb"}}},
			Inputs: []mInput{dynInput("x", largeN)}, Outputs: []string{"ya", "yb"}, Inits: []mInit{{"lbias", largeT(-7)}}}},
		{"two_unnamed_constants", mModel{Unnamed: true,
			Nodes: []mNode{
				{Op: "Constant", Attrs: []Attr{{"value", "t", rawJ(constT(100))}}, Ins: []string{}, Outs: []string{"ca"}},
				{Op: "Add", Attrs: []Attr{}, Ins: []string{"x", "ca"}, Outs: []string{"ya"}},
				{Op: "Constant", Attrs: []Attr{{"value", "t", rawJ(constT(-500))}}, Ins: []string{}, Outs: []string{"cb"}},
				{Op: "Add", Attrs: []Attr{}, Ins: []string{"x", "cb"}, Outs: []string{"yb"}},
				{Op: "Constant", Attrs: []Attr{{"value", "t", rawJ(AbsTensor{Dt: "f32", Shape: []int{1}, Data: []Elem{IntElem(7)}})}}, Ins: []string{}, Outs: []string{"cc"}},
				{Op: "Mul", Attrs: []Attr{}, Ins: []string{"x", "cc"}, Outs: []string{"yc"}}},
			Inputs: []mInput{dynInput("x", 6000)}, Outputs: []string{"ya", "yb", "yc"}, Inits: []mInit{{"unused", fTensor(r, []int{2}, 0, 1)}}}},
		// one shared weight read by an operator of every single-input family at once (whatever an operator does to its operand
		// while it runs, it does to the weight all Runs share)
		{"weight_fanout", mModel{
			Nodes: []mNode{
				{Op: "ReduceMax", Attrs: []Attr{aIs("axes", []int{0}), aI("keepdims", 0)}, Ins: []string{"fw"}, Outs: []string{"rmax"}},
				{Op: "ReduceMin", Attrs: []Attr{aIs("axes", []int{-1})}, Ins: []string{"fw"}, Outs: []string{"rmin"}},
				{Op: "ArgMax", Attrs: []Attr{aI("axis", 1), aI("keepdims", 1)}, Ins: []string{"fw"}, Outs: []string{"am"}},
				{Op: "Softmax", Attrs: []Attr{aI("axis", 0)}, Ins: []string{"fw"}, Outs: []string{"sm"}},
				{Op: "Abs", Attrs: []Attr{}, Ins: []string{"fw"}, Outs: []string{"ab"}},
				{Op: "Cast", Attrs: []Attr{aI("to", 7)}, Ins: []string{"fw"}, Outs: []string{"ci"}},
				{Op: "Squeeze", Attrs: []Attr{}, Ins: []string{"fw3"}, Outs: []string{"sq"}},
				{Op: "Unsqueeze", Attrs: []Attr{}, Ins: []string{"fw", "ax1"}, Outs: []string{"us"}},
				{Op: "Slice", Attrs: []Attr{}, Ins: []string{"fw", "st", "en", "ax1"}, Outs: []string{"sl"}},
				{Op: "Gather", Attrs: []Attr{aI("axis", 1)}, Ins: []string{"fw", "gi"}, Outs: []string{"ga"}},
				{Op: "Concat", Attrs: []Attr{aI("axis", 0)}, Ins: []string{"fw", "fw"}, Outs: []string{"cc"}},
				{Op: "Expand", Attrs: []Attr{}, Ins: []string{"fw3", "esh"}, Outs: []string{"ex"}},
				{Op: "Mul", Attrs: []Attr{}, Ins: []string{"x", "rmax"}, Outs: []string{"y"}}},
			Inputs: []mInput{dynInput("x", 24)}, Outputs: []string{"y", "rmin", "am", "sm", "ab", "ci", "sq", "us", "sl", "ga", "cc", "ex"},
			Inits: []mInit{{"fw", fTensor(r, []int{16, 24}, -3, 3)}, {"fw3", fTensor(r, []int{16, 1, 24}, -3, 3)}, {"ax1", itensor("i64", []int{1})},
				{"st", itensor("i64", []int{5})}, {"en", itensor("i64", []int{20})}, {"gi", itensor("i64", []int{23, 0, 7})}, {"esh", itensor("i64", []int{16, 2, 24})}}}},
		// views of weights: a transposed matrix weight, a permuted 3-D weight, a reshaped one - the weight objects are shared by all Runs
		{"weight_views", mModel{
			Nodes: []mNode{
				{Op: "Transpose", Attrs: []Attr{aIs("perm", []int{1, 0})}, Ins: []string{"vw"}, Outs: []string{"wt"}},
				{Op: "MatMul", Attrs: []Attr{}, Ins: []string{"x", "wt"}, Outs: []string{"y"}},
				{Op: "Transpose", Attrs: []Attr{aIs("perm", []int{2, 0, 1})}, Ins: []string{"vw3"}, Outs: []string{"p"}},
				{Op: "Flatten", Attrs: []Attr{aI("axis", 2)}, Ins: []string{"vw3"}, Outs: []string{"f"}},
				{Op: "Reshape", Attrs: []Attr{}, Ins: []string{"vw3", "shp"}, Outs: []string{"rs"}},
				{Op: "MatMul", Attrs: []Attr{}, Ins: []string{"x", "rs"}, Outs: []string{"z"}}},
			Inputs: []mInput{dynInput("x", 48)}, Outputs: []string{"y", "p", "f", "z"},
			Inits: []mInit{{"vw", fTensor(r, []int{48, 48}, -2, 2)}, {"vw3", fTensor(r, []int{8, 6, 48}, -2, 2)}, {"shp", itensor("i64", []int{48, 48})}}}},
		{"two_dilated_convs", mModel{
			Nodes: []mNode{
				{Op: "Conv", Attrs: []Attr{aIs("dilations", []int{2, 2}), aIs("pads", []int{2, 2, 2, 2})}, Ins: []string{"x", "k1", "b1"}, Outs: []string{"t"}},
				{Op: "Conv", Attrs: []Attr{aIs("dilations", []int{2, 2}), aIs("pads", []int{2, 2, 2, 2})}, Ins: []string{"t", "k2"}, Outs: []string{"y"}},
				{Op: "Conv", Attrs: []Attr{aIs("dilations", []int{2, 2})}, Ins: []string{"x", "k2"}, Outs: []string{"z"}}},
			Inputs: []mInput{dynInput("x", 4, 8, 8)}, Outputs: []string{"y", "z"},
			Inits: []mInit{{"k1", fTensor(r, []int{4, 4, 3, 3}, -2, 2)}, {"k2", fTensor(r, []int{4, 4, 3, 3}, -2, 2)}, {"b1", fTensor(r, []int{4}, -3, 3)}}}},
		{"raw_constant_add", mModel{
			Nodes: []mNode{
				{Op: "Constant", Attrs: []Attr{{"value", "t", rawJ(bigT)}}, Ins: []string{}, Outs: []string{"c"}},
				{Op: "Add", Attrs: []Attr{}, Ins: []string{"x", "c"}, Outs: []string{"y"}}},
			Inputs: []mInput{dynInput("x", 4096)}, Outputs: []string{"y"}, Inits: []mInit{{"unused", fTensor(r, []int{2}, 0, 1)}}}},
		{"gru_state_weight", mModel{
			Nodes: []mNode{
				{Op: "Transpose", Attrs: []Attr{aIs("perm", []int{1, 0, 2})}, Ins: []string{"x"}, Outs: []string{"xt"}},
				{Op: "GRU", Attrs: []Attr{aI("hidden_size", 3), relu(2)}, Ins: []string{"xt", "w", "r", "b"}, Outs: []string{"Y", "Yh"}},
				{Op: "LSTM", Attrs: []Attr{aI("hidden_size", 3), relu(3)}, Ins: []string{"xt", "lw", "lr", "lb", "", "", "", "p"}, Outs: []string{"LY", "LYh", "LYc"}},
				{Op: "RNN", Attrs: []Attr{aI("hidden_size", 3), relu(1)}, Ins: []string{"xt", "rw", "rr"}, Outs: []string{"RY", "RYh"}},
				{Op: "Transpose", Attrs: []Attr{aIs("perm", []int{1, 0, 2})}, Ins: []string{"Yh"}, Outs: []string{"yh"}},
				{Op: "Transpose", Attrs: []Attr{aIs("perm", []int{1, 0, 2})}, Ins: []string{"LYc"}, Outs: []string{"lyc"}},
				{Op: "Transpose", Attrs: []Attr{aIs("perm", []int{1, 0, 2})}, Ins: []string{"RYh"}, Outs: []string{"ryh"}}},
			Inputs: []mInput{dynInput("x", 4, 2)}, Outputs: []string{"yh", "lyc", "ryh"},
			Inits: []mInit{{"w", fTensor(r, []int{1, 9, 2}, -1, 1)}, {"r", fTensor(r, []int{1, 9, 3}, -1, 1)}, {"b", fTensor(r, []int{1, 18}, -1, 1)},
				{"lw", fTensor(r, []int{1, 12, 2}, -1, 1)}, {"lr", fTensor(r, []int{1, 12, 3}, -1, 1)}, {"lb", fTensor(r, []int{1, 24}, -1, 1)}, {"p", fTensor(r, []int{1, 9}, -1, 1)},
				{"rw", fTensor(r, []int{1, 3, 2}, -1, 1)}, {"rr", fTensor(r, []int{1, 3, 3}, -1, 1)}}}},
		{"linear_heads", mModel{
			Nodes: []mNode{
				{Op: "Gemm", Attrs: []Attr{aF("alpha", 2), aF("beta", 3), aI("transB", 1)}, Ins: []string{"x", "gw", "gc"}, Outs: []string{"g"}},
				{Op: "Scaler", Attrs: []Attr{aFs("offset", []int{1, -1, 2}), aFs("scale", []int{2, 3, -1})}, Ins: []string{"g"}, Outs: []string{"s"}},
				{Op: "LinearRegressor", Attrs: []Attr{aFs("coefficients", []int{1, -2, 3, 0, 1, -1}), aFs("intercepts", []int{5, -5}), aI("targets", 2)}, Ins: []string{"s"}, Outs: []string{"l"}},
				{Op: "PRelu", Attrs: []Attr{}, Ins: []string{"l", "slope"}, Outs: []string{"p"}},
				{Op: "ReduceMax", Attrs: []Attr{aIs("axes", []int{-1}), aI("keepdims", 1)}, Ins: []string{"p"}, Outs: []string{"m"}},
				{Op: "ArgMax", Attrs: []Attr{aI("axis", 1)}, Ins: []string{"g"}, Outs: []string{"am"}}},
			Inputs: []mInput{dynInput("x", 4)}, Outputs: []string{"p", "m", "am"},
			Inits: []mInit{{"gw", fTensor(r, []int{3, 4}, -2, 2)}, {"gc", fTensor(r, []int{1, 3}, -2, 2)}, {"slope", fTensor(r, []int{2}, -2, 2)}}}},
	}
}

// batchSynthModels: the generated models whose every operator acts per sample along the leading (batch) axis, used by the batch
// relation recorder (Trace_Batch.tla) next to the repository's sample models.
func batchSynthModels(r *rand.Rand) []synthModel {
	var out []synthModel
	for _, m := range synthModels(r) {
		// (rows of thousands of values are too long a JSON line for the trace specification; views of weights have no batch axis)
		if m.name != "raw_constant_add" && m.name != "two_unnamed_constants" && m.name != "weight_views" && m.name != "weight_fanout" && m.name != "large_constant_bias" {
			out = append(out, m)
		}
	}
	return append(out,
		synthModel{"gather_steps", mModel{
			Nodes: []mNode{
				{Op: "Gather", Attrs: []Attr{aI("axis", 1)}, Ins: []string{"x", "last"}, Outs: []string{"y"}}, // scalar index: "take the last time step"
				{Op: "Gather", Attrs: []Attr{aI("axis", 2)}, Ins: []string{"x", "cols"}, Outs: []string{"z"}},
				{Op: "Gather", Attrs: []Attr{aI("axis", -2)}, Ins: []string{"x", "first"}, Outs: []string{"f"}}},
			Inputs: []mInput{dynInput("x", 4, 3)}, Outputs: []string{"y", "z", "f"},
			Inits: []mInit{{"last", AbsTensor{Dt: "i64", Shape: []int{}, Data: []Elem{IntElem(-1)}}}, {"cols", itensor("i64", []int{0, 2})},
				{"first", AbsTensor{Dt: "i64", Shape: []int{}, Data: []Elem{IntElem(0)}}}}}},
		synthModel{"strided_same_convs", mModel{
			Nodes: []mNode{
				{Op: "Conv", Attrs: []Attr{aS("auto_pad", "SAME_UPPER"), aIs("strides", []int{2, 3})}, Ins: []string{"x", "k", "b"}, Outs: []string{"y"}},
				{Op: "Conv", Attrs: []Attr{aS("auto_pad", "SAME_LOWER"), aIs("strides", []int{3, 2}), aIs("dilations", []int{1, 2})}, Ins: []string{"x", "k"}, Outs: []string{"z"}}},
			Inputs: []mInput{dynInput("x", 2, 6, 5)}, Outputs: []string{"y", "z"},
			Inits: []mInit{{"k", fTensor(r, []int{3, 2, 3, 2}, -2, 2)}, {"b", fTensor(r, []int{3}, -3, 3)}}}},
		synthModel{"per_sample_reductions", mModel{
			Nodes: []mNode{
				{Op: "Softmax", Attrs: []Attr{aI("axis", 1)}, Ins: []string{"x"}, Outs: []string{"s"}},
				{Op: "LogSoftmax", Attrs: []Attr{aI("axis", -1)}, Ins: []string{"x"}, Outs: []string{"ls"}},
				{Op: "ReduceMax", Attrs: []Attr{aIs("axes", []int{1}), aI("keepdims", 0)}, Ins: []string{"x"}, Outs: []string{"m"}},
				{Op: "ReduceMin", Attrs: []Attr{aIs("axes", []int{-1, 1})}, Ins: []string{"x"}, Outs: []string{"n"}},
				{Op: "ArgMax", Attrs: []Attr{aI("axis", 2), aI("keepdims", 0)}, Ins: []string{"x"}, Outs: []string{"am"}}},
			Inputs: []mInput{dynInput("x", 3, 4)}, Outputs: []string{"s", "ls", "m", "n", "am"}, Inits: []mInit{{"unused", fTensor(r, []int{2}, 0, 1)}}}},
		// dense layers with pruned (exactly zero) weights, in the layout exporters emit (Gemm with transB=1) and as a plain product: the
		// batch recorder gives samples of this model non-finite and exactly zero features, and compares the CLASS (+Inf, -Inf, NaN) of
		// every result between batch compositions - which products a zero cancels must not depend on who else is in the batch
		synthModel{"pruned_dense", mModel{
			Nodes: []mNode{
				{Op: "Gemm", Attrs: []Attr{aI("transB", 1)}, Ins: []string{"x", "pw", "pb"}, Outs: []string{"y"}},
				{Op: "MatMul", Attrs: []Attr{}, Ins: []string{"x", "pm"}, Outs: []string{"z"}},
				{Op: "Gemm", Attrs: []Attr{}, Ins: []string{"x", "pm"}, Outs: []string{"g"}}},
			Inputs: []mInput{dynInput("x", 3)}, Outputs: []string{"y", "z", "g"},
			Inits: []mInit{{"pw", itensorF([]int{2, 3}, []int{1, -1, 2, 0, 3, 0})}, {"pb", itensorF([]int{2}, []int{1, -2})},
				{"pm", itensorF([]int{3, 2}, []int{0, 1, 2, 0, 0, -1})}}}},
		// Softmax over an inner axis only (the tensor library's LAST-axis kernel is the open finding KF-C09-softmax-lastaxis-max): the
		// batch recorder gives one sample of a batch a logit of 3e8 for this model
		synthModel{"softmax_inner_axis", mModel{
			Nodes:  []mNode{{Op: "Softmax", Attrs: []Attr{aI("axis", 1)}, Ins: []string{"x"}, Outs: []string{"s"}}},
			Inputs: []mInput{dynInput("x", 3, 2)}, Outputs: []string{"s"}, Inits: []mInit{{"unused", fTensor(r, []int{2}, 0, 1)}}}},
		synthModel{"per_sample_shapes", mModel{
			Nodes: []mNode{
				{Op: "Flatten", Attrs: []Attr{aI("axis", 1)}, Ins: []string{"x"}, Outs: []string{"f"}},
				{Op: "Reshape", Attrs: []Attr{}, Ins: []string{"x", "shp"}, Outs: []string{"r"}},
				{Op: "Transpose", Attrs: []Attr{aIs("perm", []int{0, 2, 1})}, Ins: []string{"x"}, Outs: []string{"t"}},
				{Op: "Slice", Attrs: []Attr{}, Ins: []string{"x", "st", "en", "ax"}, Outs: []string{"sl"}},
				{Op: "Concat", Attrs: []Attr{aI("axis", 1)}, Ins: []string{"x", "x"}, Outs: []string{"c"}},
				{Op: "Unsqueeze", Attrs: []Attr{}, Ins: []string{"x", "ax1"}, Outs: []string{"u"}},
				{Op: "MatMul", Attrs: []Attr{}, Ins: []string{"f", "w"}, Outs: []string{"mm"}},
				{Op: "Expand", Attrs: []Attr{}, Ins: []string{"u", "eshp"}, Outs: []string{"e"}}},
			Inputs: []mInput{dynInput("x", 2, 3)}, Outputs: []string{"f", "r", "t", "sl", "c", "u", "mm", "e"},
			Inits: []mInit{{"shp", itensor("i64", []int{0, -1})}, {"st", itensor("i64", []int{1})}, {"en", itensor("i64", []int{3})}, {"ax", itensor("i64", []int{2})},
				{"ax1", itensor("i64", []int{1})}, {"w", fTensor(r, []int{6, 2}, -2, 2)}, {"eshp", itensor("i64", []int{1, 2, 2, 3})}}}},
	)
}
