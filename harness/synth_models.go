package main

// Generated models for the free-running concurrency stress (C17): every operator family that reads weights, derives
// per-call state from its inputs, or decodes a tensor while the model is running. The first dimension of the input is the
// (dynamic) batch axis.

import "math/rand"

type synthModel struct {
	name string
	m    mModel
}

func fTensor(r *rand.Rand, shape []int, lo, hi int) AbsTensor {
	return rtensor(r, "f32", shape, lo, hi)
}

func dynInput(name string, rest ...int) mInput {
	in := mInput{Name: name, Dt: "f32", Dims: []mDim{{Kind: "sym"}}}
	for _, d := range rest {
		in.Dims = append(in.Dims, mDim{Kind: "fixed", Size: int64(d)})
	}
	return in
}

func synthModels(r *rand.Rand) []synthModel {
	relu := func(n int) Attr {
		a := make([]string, n)
		for i := range a {
			a[i] = "relu"
		}
		return Attr{"activations", "ss", rawJ(a)}
	}
	big := make([]int, 4096)
	for i := range big {
		big[i] = i%17 - 8
	}
	bigT := AbsTensor{Dt: "f32", Shape: []int{4096}, Data: make([]Elem, 4096), Enc: "raw"}
	for i, v := range big {
		bigT.Data[i] = IntElem(int64(v))
	}
	return []synthModel{
		{"two_dilated_convs", mModel{
			Nodes: []mNode{
				{Op: "Conv", Attrs: []Attr{aIs("dilations", []int{2, 2}), aIs("pads", []int{2, 2, 2, 2})}, Ins: []string{"x", "k1", "b1"}, Outs: []string{"t"}},
				{Op: "Conv", Attrs: []Attr{aIs("dilations", []int{2, 2}), aIs("pads", []int{2, 2, 2, 2})}, Ins: []string{"t", "k2"}, Outs: []string{"y"}},
				{Op: "Conv", Attrs: []Attr{aIs("dilations", []int{2, 2})}, Ins: []string{"x", "k2"}, Outs: []string{"z"}}},
			Inputs: []mInput{dynInput("x", 4, 8, 8)}, Outputs: []string{"y", "z"},
			Inits: []mInit{{"k1", fTensor(r, []int{4, 4, 3, 3}, -2, 2)}, {"k2", fTensor(r, []int{4, 4, 3, 3}, -2, 2)}, {"b1", fTensor(r, []int{4}, -3, 3)}}}},
		{"raw_constant_add", mModel{
			Nodes: []mNode{
				{Op: "Constant", Attrs: []Attr{{"value", "t", rawJ(bigT)}}, Ins: []string{}, Outs: []string{"c"}},
				{Op: "Add", Attrs: []Attr{}, Ins: []string{"x", "c"}, Outs: []string{"y"}}},
			Inputs: []mInput{dynInput("x", 4096)}, Outputs: []string{"y"}, Inits: []mInit{{"unused", fTensor(r, []int{2}, 0, 1)}}}},
		{"gru_state_weight", mModel{
			Nodes: []mNode{
				{Op: "Transpose", Attrs: []Attr{aIs("perm", []int{1, 0, 2})}, Ins: []string{"x"}, Outs: []string{"xt"}},
				{Op: "GRU", Attrs: []Attr{aI("hidden_size", 3), relu(2)}, Ins: []string{"xt", "w", "r", "b"}, Outs: []string{"Y", "Yh"}},
				{Op: "LSTM", Attrs: []Attr{aI("hidden_size", 3), relu(3)}, Ins: []string{"xt", "lw", "lr", "lb", "", "", "", "p"}, Outs: []string{"LY", "LYh", "LYc"}},
				{Op: "RNN", Attrs: []Attr{aI("hidden_size", 3), relu(1)}, Ins: []string{"xt", "rw", "rr"}, Outs: []string{"RY", "RYh"}},
				{Op: "Transpose", Attrs: []Attr{aIs("perm", []int{1, 0, 2})}, Ins: []string{"Yh"}, Outs: []string{"yh"}},
				{Op: "Transpose", Attrs: []Attr{aIs("perm", []int{1, 0, 2})}, Ins: []string{"LYc"}, Outs: []string{"lyc"}},
				{Op: "Transpose", Attrs: []Attr{aIs("perm", []int{1, 0, 2})}, Ins: []string{"RYh"}, Outs: []string{"ryh"}}},
			Inputs: []mInput{dynInput("x", 4, 2)}, Outputs: []string{"yh", "lyc", "ryh"},
			Inits: []mInit{{"w", fTensor(r, []int{1, 9, 2}, -1, 1)}, {"r", fTensor(r, []int{1, 9, 3}, -1, 1)}, {"b", fTensor(r, []int{1, 18}, -1, 1)},
				{"lw", fTensor(r, []int{1, 12, 2}, -1, 1)}, {"lr", fTensor(r, []int{1, 12, 3}, -1, 1)}, {"lb", fTensor(r, []int{1, 24}, -1, 1)}, {"p", fTensor(r, []int{1, 9}, -1, 1)},
				{"rw", fTensor(r, []int{1, 3, 2}, -1, 1)}, {"rr", fTensor(r, []int{1, 3, 3}, -1, 1)}}}},
		{"linear_heads", mModel{
			Nodes: []mNode{
				{Op: "Gemm", Attrs: []Attr{aF("alpha", 2), aF("beta", 3), aI("transB", 1)}, Ins: []string{"x", "gw", "gc"}, Outs: []string{"g"}},
				{Op: "Scaler", Attrs: []Attr{aFs("offset", []int{1, -1, 2}), aFs("scale", []int{2, 3, -1})}, Ins: []string{"g"}, Outs: []string{"s"}},
				{Op: "LinearRegressor", Attrs: []Attr{aFs("coefficients", []int{1, -2, 3, 0, 1, -1}), aFs("intercepts", []int{5, -5}), aI("targets", 2)}, Ins: []string{"s"}, Outs: []string{"l"}},
				{Op: "PRelu", Attrs: []Attr{}, Ins: []string{"l", "slope"}, Outs: []string{"p"}},
				{Op: "ReduceMax", Attrs: []Attr{aIs("axes", []int{-1}), aI("keepdims", 1)}, Ins: []string{"p"}, Outs: []string{"m"}},
				{Op: "ArgMax", Attrs: []Attr{aI("axis", 1)}, Ins: []string{"g"}, Outs: []string{"am"}}},
			Inputs: []mInput{dynInput("x", 4)}, Outputs: []string{"p", "m", "am"},
			Inits: []mInit{{"gw", fTensor(r, []int{3, 4}, -2, 2)}, {"gc", fTensor(r, []int{1, 3}, -2, 2)}, {"slope", fTensor(r, []int{2}, -2, 2)}}}},
	}
}
