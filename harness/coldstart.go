package main

// Cold start: the FIRST uses of the library in a fresh process, made by many goroutines at the same instant.
//
// Whatever the library builds lazily on first use (a lookup table, a registry, a cached constraint list) is built while several
// callers - each with its own operator instance and its own tensors - arrive together. The operator-level cases of a property
// say what each caller must get. "First use" exists once per process, so the parent re-executes the harness: each child takes
// one operator, prepares the node and the operands of up to 2*GOMAXPROCS of its value cases WITHOUT touching the library, releases
// all goroutines from a spin barrier (and a second group from a closed channel) into GetOperator / Init / ValidateInputs / Apply,
// and judges every result by the case's expected outcome. A child the Go runtime aborts inside the library (concurrent map
// access) is a violation as well.
//
//   harness coldstart -in cases -out summary.json -prop Cxx -replaydir dir -per 24        (parent)
//   harness coldstart -child file -out summary.json ...                                   (child, internal)

import (
	"bufio"
	"crypto/sha1"
	"encoding/hex"
	"encoding/json"
	"flag"
	"fmt"
	"os"
	"os/exec"
	"path/filepath"
	"regexp"
	"runtime"
	"sort"
	"strings"
	"sync"
	"sync/atomic"

	"github.com/advancedclimatesystems/gonnx/onnx"
	"github.com/advancedclimatesystems/gonnx/ops/opset13"
	"gorgonia.org/tensor"
)

func cmdColdstart(args []string) int {
	fs := flag.NewFlagSet("coldstart", flag.ExitOnError)
	in := fs.String("in", "", "file with case lines (TLC output or ndjson)")
	out := fs.String("out", "", "summary json path")
	replayDir := fs.String("replaydir", "work/replay", "directory for replay files of violations")
	propFlag := fs.String("prop", "", "property id")
	per := fs.Int("per", 24, "fresh processes per operator")
	maxChildren := fs.Int("max", 600, "at most this many fresh processes")
	child := fs.String("child", "", "internal: execute the cases of this file from a barrier")
	_ = fs.Parse(args)
	if *child != "" {
		return coldChild(*child, *out, *replayDir, *propFlag)
	}
	f, err := os.Open(*in)
	if err != nil {
		fmt.Fprintln(os.Stderr, "harness:", err)
		return 2
	}
	defer f.Close()
	byOp := map[string][]string{}
	sc := bufio.NewScanner(f)
	sc.Buffer(make([]byte, 1<<20), 1<<28)
	for sc.Scan() {
		t := extractCase(sc.Text())
		if t == "" || len(t) > 20000 {
			continue
		}
		var c Case
		if json.Unmarshal([]byte(t), &c) != nil || c.Kind != "op" || c.Allowed.Must != "value" || c.Tile != nil || len(c.Known) > 0 {
			continue
		}
		byOp[c.Op] = append(byOp[c.Op], t)
	}
	opsList := make([]string, 0, len(byOp))
	for op := range byOp {
		opsList = append(opsList, op)
	}
	sort.Strings(opsList)
	sum := Summary{Prop: *propFlag, Known: map[string]int{}, Features: map[string]int{}, Must: map[string]int{}, Families: map[string]int{}}
	if len(opsList) == 0 {
		return writeColdSummary(*out, &sum, 0)
	}
	tmp, err := os.MkdirTemp(filepath.Dir(*out), "cold-")
	if err != nil {
		fmt.Fprintln(os.Stderr, "harness:", err)
		return 2
	}
	defer os.RemoveAll(tmp)
	n := *per * len(opsList)
	if n > *maxChildren {
		n = *maxChildren
	}
	g := 2 * runtime.GOMAXPROCS(0)
	fatal := regexp.MustCompile(`fatal error: ([^\n]*)`)
	for i := 0; i < n; i++ {
		op := opsList[i%len(opsList)]
		cases := byOp[op]
		round := i / len(opsList)
		// spread over the operator's cases (other element types, other shapes), another selection in every round
		var pick []string
		for k := 0; k < g && k < len(cases); k++ {
			pick = append(pick, cases[(round*7+k*(len(cases)/g+1))%len(cases)])
		}
		cf := filepath.Join(tmp, fmt.Sprintf("child%d.ndjson", i))
		cs := filepath.Join(tmp, fmt.Sprintf("child%d.summary.json", i))
		_ = os.WriteFile(cf, []byte(strings.Join(pick, "\n")+"\n"), 0o644)
		cmd := exec.Command(os.Args[0], "coldstart", "-child", cf, "-out", cs, "-replaydir", *replayDir, "-prop", *propFlag)
		var stdout, stderr strings.Builder
		cmd.Stdout, cmd.Stderr = &stdout, &stderr
		_ = cmd.Run()
		fmt.Print(stdout.String())
		b, err := os.ReadFile(cs)
		if err != nil {
			// the child died: a verdict about the code only when the runtime aborted it inside the library
			se := stderr.String()
			if m := fatal.FindStringSubmatch(se); m != nil && strings.Contains(se, "github.com/advancedclimatesystems/gonnx/ops") && !strings.Contains(m[1], "out of memory") {
				_ = os.MkdirAll(*replayDir, 0o755)
				h := sha1.Sum([]byte(se))
				path := filepath.Join(*replayDir, fmt.Sprintf("%s-coldstart-%s.txt", *propFlag, hex.EncodeToString(h[:8])))
				if len(se) > 30000 {
					se = se[:30000]
				}
				_ = os.WriteFile(path, []byte(fmt.Sprintf("operator %s, %d goroutines released at once in a fresh process\n%s\n%s", op, g, strings.Join(pick, "\n"), se)), 0o644)
				abs, _ := filepath.Abs(path)
				fmt.Printf("VIOLATION property=%s replay=%s\n  cold-start/%s mode=api:cold-start violation:the Go runtime aborted a fresh process whose first %s operators were used by %d goroutines at once: fatal error: %s\n", *propFlag, abs, op, op, g, m[1])
				sum.Violations++
				sum.ViolationList = append(sum.ViolationList, path)
				sum.Cases++
				sum.Executions++
				continue
			}
			sum.Infra++
			if len(sum.InfraNotes) < 5 {
				tail := se
				if len(tail) > 600 {
					tail = tail[len(tail)-600:]
				}
				sum.InfraNotes = append(sum.InfraNotes, "cold-start child died: "+tail)
			}
			continue
		}
		var s Summary
		if json.Unmarshal(b, &s) != nil {
			sum.Infra++
			continue
		}
		sum.Cases += s.Cases
		sum.Executions += s.Executions
		sum.Pass += s.Pass
		sum.Violations += s.Violations
		sum.Infra += s.Infra
		sum.ViolationList = append(sum.ViolationList, s.ViolationList...)
		sum.InfraNotes = append(sum.InfraNotes, s.InfraNotes...)
		if sum.Violations >= 10 {
			break // settled
		}
	}
	return writeColdSummary(*out, &sum, n)
}

func writeColdSummary(out string, sum *Summary, children int) int {
	if out != "" {
		b, _ := json.MarshalIndent(sum, "", " ")
		if err := os.WriteFile(out, b, 0o644); err != nil {
			fmt.Fprintln(os.Stderr, "harness:", err)
			return 2
		}
	}
	fmt.Printf("COLDSTART-SUMMARY children=%d cases=%d executions=%d pass=%d violations=%d infra=%d\n", children, sum.Cases, sum.Executions, sum.Pass, sum.Violations, sum.Infra)
	switch {
	case sum.Violations > 0:
		return 1
	case sum.Infra > 0:
		return 2
	}
	return 0
}

func coldChild(file, out, replayDir, prop string) int {
	b, err := os.ReadFile(file)
	if err != nil {
		fmt.Fprintln(os.Stderr, "harness:", err)
		return 2
	}
	type prepared struct {
		c      *Case
		text   string
		node   *onnx.NodeProto
		inputs []tensor.Tensor
		obs    Observation
	}
	var ps []*prepared
	for _, line := range strings.Split(string(b), "\n") {
		if strings.TrimSpace(line) == "" {
			continue
		}
		c := &Case{}
		if json.Unmarshal([]byte(line), c) != nil {
			continue
		}
		ins, outs := ioNames(c)
		node, err := mkNode(c.Op, c.Attrs, ins, outs)
		if err != nil {
			continue
		}
		inputs, err := mkInputs(c)
		if err != nil {
			continue
		}
		ps = append(ps, &prepared{c: c, text: line, node: node, inputs: inputs})
	}
	sum := Summary{Prop: prop, Known: map[string]int{}, Features: map[string]int{}, Must: map[string]int{}, Families: map[string]int{}}
	if len(ps) == 0 {
		return writeColdSummary(out, &sum, 0)
	}
	run := func(p *prepared) {
		p.obs = guardInline(func() Observation {
			op, err := opset13.GetOperator(p.c.Op)
			if err != nil {
				return observeErr(err)
			}
			if err := op.Init(p.node); err != nil {
				return observeErr(err)
			}
			v, err := op.ValidateInputs(p.inputs)
			if err != nil {
				return observeErr(err)
			}
			res, err := op.Apply(v)
			if err != nil {
				return observeErr(err)
			}
			return valueObs(res)
		})
	}
	// first group: as many spinning goroutines as there are processors less one; second group: released by a closed channel
	spin := runtime.GOMAXPROCS(0) - 1
	if spin < 1 {
		spin = 1
	}
	if spin > len(ps) {
		spin = len(ps)
	}
	var ready atomic.Int32
	var start atomic.Bool
	gate := make(chan struct{})
	var wg sync.WaitGroup
	for i, p := range ps {
		wg.Add(1)
		go func(i int, p *prepared) {
			defer wg.Done()
			if i < spin {
				ready.Add(1)
				for !start.Load() {
				}
			} else {
				<-gate
			}
			run(p)
		}(i, p)
	}
	for int(ready.Load()) < spin {
		runtime.Gosched()
	}
	start.Store(true)
	close(gate)
	wg.Wait()
	for _, p := range ps {
		sum.Cases++
		sum.Executions++
		v := Verdict(p.c, p.obs)
		switch {
		case v == "pass":
			sum.Pass++
		case strings.HasPrefix(v, "known:"):
			sum.Known[strings.TrimPrefix(v, "known:")]++
		case strings.HasPrefix(v, "violation:"):
			sum.Violations++
			_ = os.MkdirAll(replayDir, 0o755)
			h := sha1.Sum([]byte(p.text))
			path := filepath.Join(replayDir, fmt.Sprintf("%s-coldstart-%s.json", prop, hex.EncodeToString(h[:8])))
			_ = os.WriteFile(path, []byte(p.text+"\n"), 0o644)
			line := fmt.Sprintf("mode=api:cold-start (first use of the library in a fresh process, %d goroutines released at once) %s | observed: %s", len(ps), v, p.obs.Short())
			_ = os.WriteFile(path+".txt", []byte(line+"\n"), 0o644)
			sum.ViolationList = append(sum.ViolationList, path)
			if sum.Violations <= 3 {
				abs, _ := filepath.Abs(path)
				if len(line) > 600 {
					line = line[:600] + "..."
				}
				fmt.Printf("VIOLATION property=%s replay=%s\n  %s/%s %s\n", prop, abs, p.c.Fam, p.c.Op, line)
			}
		default:
			sum.Infra++
			sum.InfraNotes = append(sum.InfraNotes, v)
		}
	}
	if b, err := json.MarshalIndent(sum, "", " "); err == nil {
		_ = os.WriteFile(out, b, 0o644)
	}
	return 0
}
