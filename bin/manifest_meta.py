"""Texts for MANIFEST.json (kept next to the stage registry so they stay in step)."""

import subprocess
try:
    SOURCE_COMMITS = [l.split()[0] for l in subprocess.run(["git", "-C", "/repo", "log", "--format=%H %s"], capture_output=True, text=True).stdout.splitlines() if " verif hook:" in l]
except Exception:
    SOURCE_COMMITS = []

HOOKS = dict(
    guard="verif",
    enable="go build -tags verif (the harness module in /verif/harness replaces the gonnx module by /repo)",
    baseline_off_cmd="cd /repo && GOFLAGS=-mod=mod GOPROXY=off GOSUMDB=off GOTOOLCHAIN=local go test -vet=off -count=1 -timeout 25m ./...",
    source_commits=SOURCE_COMMITS,
    add_only=True,
)

NOTES = ("All verdicts come from the TLA+ specification in spec/: TLC enumerates or samples cases/behaviours and computes "
         "the outcome each property allows; the harness executes them against code built from /repo's working tree. "
         "Exit 2 = infrastructure trouble, never a violation. VERIF_SEED seeds TLC -simulate and the Go recorders.")

NOT_APPLICABLE = {}

COMMON_NOTE = ("Trusted base: TLC, the TLA+ operator semantics in spec/ (cross-checked by the laws TLC evaluates as invariants), "
               "the harness concretisation of abstract values and its element-by-element reading of gorgonia tensors. Small-scope: "
               "bounds are those in the evidence rule; beyond them only random sampling.")

CHECKS = {
    "C14": dict(
        text="Bounded-exhaustive: TLC enumerates every ordered pair of shapes of rank 0..4 with extents 1..3 (quick) / 1..4 (thorough) and "
             "computes, from the declarative broadcast definition, every element of both results or 'error'; each case is executed on "
             "ops.MultidirectionalBroadcast / ops.UnidirectionalBroadcast and compared bit-exactly, sources snapshotted before/after; "
             "dtype sweep over the 14 element types.",
        note=COMMON_NOTE,
        technique="TLA+ spec + TLC BFS case enumeration, replayed into the Go helpers (spec->code conformance)",
        design_ref="DESIGN.md section 6 (C14)"),
    "C03": dict(
        text="Bounded-exhaustive: TLC enumerates 12 operators x every ordered pair of shapes (rank 0..3, extents 1..2 quick; rank 0..3 "
             "extents 1..3 plus rank 4 extents 1..2 thorough) with distinct ids, and per operator and dtype every ordered pair of a "
             "special-value catalogue (NaN, +-Inf, +-0, +-MaxFloat, fractions; MIN, MAX, MAX-1, UMAX as width-independent symbolic integers); "
             "the TLA+ IEEE / wrap-around semantics gives the exact expected tensor, compared bit for bit in three execution modes.",
        note=COMMON_NOTE + " Division results are compared with the correctly rounded rational. Integer division by zero and mixed operand types are outside the must-domain (no-crash only).",
        technique="TLA+ operator semantics + TLC BFS case enumeration, replayed into operator API and Model.Run",
        design_ref="DESIGN.md section 6 (C03)"),
    "C07": dict(
        text="Bounded-exhaustive: TLC enumerates (input shape, target / axis / axes list) for Reshape, Flatten, Squeeze, Unsqueeze and Shape "
             "within the bounds of the evidence rule, valid and invalid requests alike, computes the ONNX result shape (or 'error') from "
             "spec/OpShape.tla; the real operator must return exactly the input's elements in row-major order with that shape, or an error "
             "for invalid requests - never a panic; three execution modes; all 14 element types on a shape subset.",
        note=COMMON_NOTE,
        technique="TLA+ operator semantics + TLC BFS case enumeration, replayed into operator API and Model.Run",
        design_ref="DESIGN.md section 6 (C07)"),
    "C08": dict(
        text="Bounded-exhaustive: TLC enumerates requests for Transpose, Concat, Slice, Gather and Expand within the bounds of the evidence "
             "rule and computes, from the ONNX index formulae of spec/OpIndex.tla over distinct element ids, the exact expected tensor, 'error' "
             "for invalid requests, or value-or-error where the property offers refusal; bit-exact comparison in three execution modes. "
             "Two open findings (Slice drops unit axes; Slice step on axis 0) are recognised only through defect models that predict the exact wrong tensor.",
        note=COMMON_NOTE,
        technique="TLA+ operator semantics + TLC BFS case enumeration, replayed into operator API and Model.Run; defect models for known findings",
        design_ref="DESIGN.md section 6 (C08)"),
    "C15": dict(
        text="Complete enumeration of the finite space the property quantifies over: TLC loads the arity/type table extracted from the real "
             "operators, checks it against Gate.tla and enumerates every (operator, input count, dtype per position, nil per optional "
             "position) combination with its accept/error outcome; the harness calls ValidateInputs for each (no panic, padded length, "
             "identical tensor objects in order, inputs untouched). Registry.tla is a state machine of lookup/Init/Apply whose every "
             "behaviour up to 5 steps is replayed (fresh instance per lookup, own attribute state); with SingletonInstances TLC produces "
             "the counterexample (anti-vacuity). Unregistered names must give the unsupported-operator error.",
        note=COMMON_NOTE + " exhaustive: true for the gate space.",
        technique="TLA+ Gate/Registry state machine, TLC complete enumeration replayed into ValidateInputs/GetOperator",
        design_ref="DESIGN.md section 6 (C15)"),
    "C04": dict(
        text="Bounded-exhaustive: TLC enumerates operand shape pairs for MatMul (all rank combinations incl. vectors, broadcast and "
             "non-broadcastable batches, unit matrix dimensions), Gemm configurations (transposes, alpha/beta incl. 0, -1, 1/2, every C "
             "broadcast kind and invalid C), LinearRegressor and Scaler layouts, and computes the exact algebraic result on integer ids "
             "from spec/OpLinear.tla (numpy.matmul definition); compared exactly in three execution modes; float32 must compute, other "
             "dtypes may be refused but never answered differently.",
        note=COMMON_NOTE + " The 'within rounding error' clause is decided only on exactly representable data.",
        technique="TLA+ operator semantics + TLC BFS case enumeration, replayed into operator API and Model.Run; defect model for the known finding",
        design_ref="DESIGN.md section 6 (C04)"),
    "C09": dict(
        text="Bounded-exhaustive: TLC enumerates (shape, axis/axes, keepdims) for ArgMax/ReduceMax/ReduceMin with tie patterns and computes "
             "first-occurrence indices / extrema and result shapes from spec/OpReduce.tla; Softmax and LogSoftmax are decided exactly in "
             "the saturation regime (slices of multiples of 1000 at per-slice magnitudes, +-MaxFloat) along every axis, which fixes axis "
             "selection, per-slice independence and finiteness; invalid axes must give errors. Values of Softmax on ordinary inputs are "
             "not recomputed (no reals in TLA+).",
        note=COMMON_NOTE + " ArgMax on NaN is not generated (ONNX silent).",
        technique="TLA+ operator semantics + TLC BFS case enumeration, replayed into operator API and Model.Run; defect model for the known finding",
        design_ref="DESIGN.md section 6 (C09)"),
    "C10": dict(
        text="Bounded-exhaustive for the exactly computable operators (Abs, Relu, PRelu with slope broadcasting, Not) over shapes, dtypes "
             "and the IEEE special-value catalogue; for the 13 transcendental operators the specification holds a reference table "
             "(correctly rounded float32 values at 79 arguments per function, generated with mpmath) whose laws (parity, monotonicity, "
             "range, exact anchors) TLC checks as invariants; TLC embeds the grid in tensors of every rank (f32/f64) and the harness "
             "requires shape/dtype preservation and agreement within the stated ulp tolerance, NaN/Inf/out-of-domain propagation included. "
             "Accuracy off the grid is not decided (TLA+ has no reals).",
        note=COMMON_NOTE,
        technique="TLA+ value semantics + spec-resident reference table, TLC BFS case enumeration replayed into operator API and Model.Run",
        design_ref="DESIGN.md section 6 (C10)"),
    "C11": dict(
        text="Bounded-exhaustive: TLC enumerates every attribute form of Constant (all 11 tensor element types in both encodings), every "
             "(shape, value type, encoding) of ConstantOfShape and all 100 numeric Cast pairs over the in-range value catalogue, computing "
             "the exact expected tensor (element type, shape, values; truncation toward zero) from spec/OpConst.tla; compared bit-exactly "
             "through the operator API and single-node models; unsupported attributes/targets must give errors.",
        note=COMMON_NOTE,
        technique="TLA+ operator semantics + TLC BFS case enumeration, replayed into operator API and Model.Run",
        design_ref="DESIGN.md section 6 (C11)"),
    "C05": dict(
        text="Bounded-exhaustive: TLC enumerates 1-D and 2-D group-1 convolution geometries (non-square images and kernels, anisotropic "
             "strides and dilations, asymmetric pads, the four auto_pad modes, batch/channel/kernel counts, with and without bias) and "
             "computes the ONNX output shape and the direct-sum value of every output element from spec/OpConv.tla on distinct integer "
             "ids; exact comparison in three execution modes (the initializer mode run twice also exposes in-place bias changes).",
        note=COMMON_NOTE,
        technique="TLA+ operator semantics + TLC BFS case enumeration, replayed into operator API and Model.Run; defect model for the known finding",
        design_ref="DESIGN.md section 6 (C05)"),
    "C06": dict(
        text="Bounded-exhaustive on an exactly computable regime: the ONNX recurrences of RNN, GRU and LSTM are written in "
             "spec/OpRecurrent.tla as state machines over time steps (state H, C; packed gate layouts iofc / zrh, bias halves, peepholes, "
             "linear_before_reset); TLC enumerates sizes, every subset of optional inputs and every activation tuple, with weights that "
             "differ per gate block so that any slot permutation changes the expected output, and checks as an invariant that whole = "
             "split(k) for every split point (the splitting law of the recurrences). Each case is executed in three modes; split cases "
             "feed the real final state of the first piece into the second (operator level and two Model.Run calls).",
        note=COMMON_NOTE + " Exactness rests on sigmoid/tanh saturation at |x| >= 1024; trajectories with default activations on ordinary values are outside the claim.",
        technique="TLA+ state-machine semantics of the recurrences + TLC BFS case enumeration with exact-regime guard, replayed into operator API and Model.Run",
        design_ref="DESIGN.md section 6 (C06)"),
    "C12": dict(
        text="Bounded-exhaustive: spec/Decode.tla defines TensorProto decoding on byte tuples (raw payload chunked little-endian, typed "
             "carriers narrowed to the low bytes, element count = product of dims), so 64-bit types need no 64-bit arithmetic in TLC; TLC "
             "enumerates types x encodings x shapes x bit patterns x payload lengths x unsupported codes and computes the exact expected "
             "bytes or 'error'; the harness builds the TensorProto, decodes it through both entry points and compares dtype, shape and "
             "every element bit for bit (NaN payloads included); never a panic.",
        note=COMMON_NOTE,
        technique="TLA+ byte-level decode semantics + TLC BFS case enumeration, replayed into TensorFromProto and NewModelFromBytes+Run; defect model for the known finding",
        design_ref="DESIGN.md section 6 (C12)"),
    "C13": dict(
        text="Bounded-exhaustive: spec/Signature.tla defines the acceptance predicate of Run (presence, rank, fixed dimensions; inputs "
             "shadowed by initializers not required) and spec/RunSem.tla the functional meaning of Run; TLC enumerates declared signatures "
             "x supplied tensor sets and computes accept (with the expected outputs) or reject (with the acceptable error classes "
             "InvalidShape / model error); each case is a real model loaded from bytes and run, with snapshots of all caller tensors and "
             "weights around the call.",
        note=COMMON_NOTE,
        technique="TLA+ Signature/RunSem specification + TLC BFS case enumeration, replayed into NewModelFromBytes + Run",
        design_ref="DESIGN.md section 6 (C13)"),
    "C01": dict(
        text="Bounded-exhaustive over PROGRAMS: spec/RunSem.tla gives Run its functional meaning (environment of names, nodes applied in "
             "list order, positional output binding, empty name = absent input, caller value over initializer default) on top of the "
             "operator semantics; the TLA+ program builder of MC_C01 (actions AddNode over a typed template catalogue) is explored by TLC "
             "breadth-first, so every well-typed program within the bound is produced exactly once together with the expected value of "
             "every tensor; each is marshalled to bytes, loaded with NewModelFromBytes and run, all declared outputs compared exactly, "
             "caller tensors / weights snapshotted and the result compared with a freshly loaded model.",
        note=COMMON_NOTE,
        technique="TLA+ interpreter semantics (RunSem) + TLC BFS over a program-builder state machine, behaviours replayed into NewModelFromBytes + Run",
        design_ref="DESIGN.md section 6 (C01)"),
    "C02": dict(
        text="Bounded-exhaustive over HISTORIES: spec/Interp.tla models model.go as a state machine over a heap of tensor objects with "
             "identity and ownership (weights, caller tensors, per-Run results); TLC explores every bounded history of Run calls "
             "(object re-use, outputs fed back, other batch sizes, failing calls) checking in every state that results equal the "
             "functional semantics (HistoryIndependent), that outputs are complete and - as an action property - that no weight or "
             "caller object ever changes; with the as-is effect summaries TLC produces the violating history (anti-vacuity). Every "
             "history is replayed on one real Model with the same object sharing, each call compared with the spec, with snapshots of "
             "all caller tensors and weights and with a freshly loaded model.",
        note=COMMON_NOTE,
        technique="TLA+ interpreter state machine with object heap, TLC BFS over call histories (invariants + action property), behaviours replayed into Model.Run",
        design_ref="DESIGN.md section 6 (C02)"),
    "C16": dict(
        text="Two-directional: (spec->code) TLC enumerates batch compositions for generated per-sample models, proves the "
             "specification's own BatchIndependent theorem as an invariant and emits, per batch, a history (batch, then each sample "
             "alone) with exact expected outputs that is replayed on one real Model; (code->spec) the recorder drives the repository's "
             "sample models (mlp, gru, ndm, scaler) with random batches, singles, permutations and sub-selections and TLC validates the "
             "recorded trace against Trace_Batch.tla, which has a behaviour only if every sample's rows are the same in every composition.",
        note=COMMON_NOTE,
        technique="TLA+ RunSem + TLC BFS (BatchIndependent invariant) replayed into Model.Run; trace validation of recorded sample-model runs against Trace_Batch.tla",
        design_ref="DESIGN.md section 6 (C16)"),
    "C17": dict(
        text="Model checking of the concurrent design plus conformance in both directions: spec/Interp.tla with two Runs in flight is "
             "explored by TLC at the granularity of the node life cycle (NoConflict, immutability of shared objects as an action "
             "property, every Run equals its sequential meaning); the as-is effect summaries yield the racing schedule (anti-vacuity). "
             "TLC enumerates every node-granular schedule (serialized and overlapped variants) and the harness forces each on real "
             "goroutines through a blocking spy operator installed in the exported Model.GetOperator field, once normally and once under "
             "the race detector; free-running goroutines on the sample models are recorded under the race detector and validated by TLC "
             "against Trace_Conc.tla.",
        note=COMMON_NOTE + " Memory-level races are observed by the race detector on the executed schedules only; it feeds the verdict as an observation instrument (exit 66 = race).",
        technique="TLA+ interpreter state machine with concurrent Runs, TLC interleaving enumeration replayed on goroutines via a spy-operator scheduler (also under -race); trace validation of free-running stress",
        design_ref="DESIGN.md section 6 (C17)"),
    "C18": dict(
        text="The specification defines Load (opset = maximum version over all imports, supported iff 13; every initializer decodable "
             "per Decode.tla) and Run's refusal of unregistered operator types; TLC enumerates the structured space with exact expected "
             "outcomes and error classes (and checks as an invariant that an unregistered operator always makes Run fail with the "
             "unsupported-operator error); the harness marshals each model, loads it under recover() and applies byte-level "
             "perturbation sweeps to every generated model and every sample file, plus seeded random byte strings. The quantifier 'all "
             "byte strings' is only sampled by the sweeps.",
        note=COMMON_NOTE,
        technique="TLA+ Load/Run refusal semantics + TLC BFS over the structured model space, replayed into NewModelFromBytes/Run, with harness-side byte perturbation sweeps",
        design_ref="DESIGN.md section 6 (C18)"),
}

# ---- additions that apply to several checks (kept in one place so the texts stay in step with bin/stages.py)
_OPS_TRACE = (" In addition (code->spec): random invocations of these operators - shapes beyond the exhaustive bounds, random "
              "attributes, invalid requests - are executed against the real operators, logged with arguments and outcome, and the "
              "recorded trace is validated by TLC against Trace_Ops.tla, which recomputes the allowed outcome of every event.")
_REUSE = (" Every case is also applied, in turn with the other cases of its (operator, attributes, input types) group, to ONE "
          "initialised operator instance (re-use mode): state that leaks from one Apply into the next makes a later application deviate.")
for _pid in ("C03", "C04", "C05", "C07", "C08", "C09", "C10"):
    CHECKS[_pid]["text"] += _REUSE + _OPS_TRACE
    CHECKS[_pid]["technique"] += "; operator instance re-use mode; trace validation of recorded random operator invocations against Trace_Ops.tla"
for _pid in ("C11",):
    CHECKS[_pid]["text"] += _REUSE
    CHECKS[_pid]["technique"] += "; operator instance re-use mode"
_RUN_TRACE = (" In addition (code->spec): random DAG programs of 4..9 nodes are loaded and run 2..3 times with fresh inputs; a recording "
              "spy around the exported Model.GetOperator field logs, per node in execution order, the node, the tensors the interpreter "
              "gathered for it and what the operator returned; TLC validates the trace against Trace_Run.tla (the gathered tensors are "
              "the environment's bindings of the node's input names, the environment starts from the weights in every Run, the "
              "returned map is the environment's value of every graph output).")
for _pid in ("C01", "C02"):
    CHECKS[_pid]["text"] += _RUN_TRACE
    CHECKS[_pid]["technique"] += "; node-level trace validation of recorded random programs against Trace_Run.tla"
CHECKS["C15"]["text"] += (" Every input list is also put through the gate of ONE shared instance per operator, in a fixed order, so that "
                          "arity or type state kept between calls is exposed.")
CHECKS["C06"]["text"] += _REUSE + (" Thorough tier, in addition (code->spec): random RNN/GRU/LSTM invocations with relu activations (sequence, batch, input, hidden "
                                   "sizes 1..3, optional bias / initial states / peepholes, linear_before_reset, 1..3 declared outputs) are recorded from the real "
                                   "operators and validated by TLC against Trace_Ops.tla.")
CHECKS["C06"]["technique"] += "; operator instance re-use mode; (thorough) trace validation of recorded random recurrent invocations against Trace_Ops.tla"
CHECKS["C14"]["text"] += _OPS_TRACE.replace("these operators", "the two helpers (shapes up to rank 5)")
CHECKS["C14"]["technique"] += "; trace validation of recorded random helper invocations against Trace_Ops.tla"
CHECKS["C16"]["text"] += (" The recorder also drives eight generated models (dilated and strided SAME convolutions, recurrent cells with weights, peepholes, "
                          "Gather with scalar indices, per-sample reductions and shape operators) through the same batch compositions.")
CHECKS["C12"]["text"] += (" In addition (code->spec): random TensorProtos (every element type and other data_type codes, both encodings, rank 0..4, "
                          "zero and negative dims, payload lengths around the expected one, random bit patterns, wrong typed fields; 2 000 quick / 60 000 "
                          "thorough) are decoded by the real onnx.TensorFromProto, logged as little-endian byte images and validated by TLC against "
                          "Trace_Decode.tla, which recomputes Decode.DecodeAllowed for every event. Every value case is also decoded by 8 goroutines at once.")
CHECKS["C12"]["technique"] += "; trace validation of recorded random decodes against Trace_Decode.tla; concurrent-decode mode"
CHECKS["C17"]["text"] += (" The stress recorder also runs four generated models (two dilated convolutions, a raw-data Constant, recurrent cells with weight "
                          "states and peepholes, linear heads) and random DAG programs over the operator catalogue; a second stage without the race detector "
                          "runs the generated models and programs in a hot loop (8 goroutines, 70-120 short Runs each) and compares every result with the "
                          "sequential baseline; every model is first given a Run that fails inside an operator. A fatal error of the Go runtime raised "
                          "while the faulting goroutine executes the library (concurrent map access) counts as a violation.")
for _pid in ("C03", "C04", "C05", "C06", "C07", "C08", "C09", "C10", "C11"):
    CHECKS[_pid]["text"] += (" Every case is additionally applied twice to the same input tensor objects (second result judged) and run as a model "
                             "whose every input is a weight, twice.")

# ---- rounds 8 and 9
_TILE = (" Tiling law: cases flagged by Outcome!TileLaw (TLC evaluates 'these operands repeated k times along axis 0 give the results "
         "repeated k times' at k = 2 and 3 before it emits the flag) are executed once more with the flagged operands repeated beyond "
         "1.1 million elements (60 000 for Conv) and compared with the repeated expected results; generators also hold literal long "
         "cases of 40003 elements / 20001x2.")
_PROCS = (" A hashed subset of the cases (quick: an eighth, thorough: half) is replayed again under GOMAXPROCS=1 (thorough: also 3): a "
          "result does not depend on the number of usable cores. Every operator-level case is also applied with an input list whose spare "
          "capacity holds stale tensors, and (equal operands) with both operands being one tensor object.")
for _pid in ("C03", "C04", "C05", "C07", "C08", "C09", "C10", "C11", "C14"):
    CHECKS[_pid]["text"] += _TILE
    CHECKS[_pid]["technique"] += "; tiling law evaluated by TLC and executed at a million elements"
for _pid in ("C03", "C04", "C05", "C06", "C07", "C08", "C09", "C10", "C11", "C14"):
    CHECKS[_pid]["text"] += _PROCS
CHECKS["C02"]["text"] += (" Between two calls the caller may refill, in place, a tensor it passed before (Interp!CallerWrite) and pass the same "
                          "object again; before the first call every declared input gets a tensor.")
CHECKS["C12"]["text"] += (" A second Model is built from the SAME ModelProto object and the proto is compared with a copy taken before the first "
                          "load; dims beyond 2^31 (element counts whose product or byte size wraps around 2^64) are spelled in base 65536.")
CHECKS["C13"]["text"] += (" Unspecified dimensions are also written as an explicit dim_value 0 and as an empty dim_param, dimensions may carry an "
                          "ONNX denotation, and an input name may be mapped to a nil tensor (= not supplied).")
CHECKS["C15"]["text"] += " The tensor at a gate position has shape [1], [0], [2,0], [] or [2,3]: the verdict does not depend on it."
CHECKS["C17"]["text"] += (" Generated models with anonymous Constant nodes and with views (Transpose/Reshape/Flatten) of shared weights take part in "
                          "both stresses; Runs that are refused inside an operator take part too, their error text compared with the text of the "
                          "same Run alone.")
CHECKS["C18"]["text"] += (" Opset versions beyond 32 bits (w*2^31+v) and unknown-operator nodes whose inputs do not resolve are part of the "
                          "structured space.")

# ---- round 10
for _pid in ("C03", "C04", "C05", "C06", "C07", "C08", "C09", "C10", "C11"):
    CHECKS[_pid]["text"] += (" One operator instance is also applied while the operand objects hold other values and again after the caller has refilled "
                             "the same objects; in the re-use pass, cases of equal input types and shapes follow each other on one instance and on the "
                             "same tensor objects, and a second instance sees the cases of every element type.")
CHECKS["C06"]["text"] += (" Tiling law along the batch axis (Outcome!TileLawAx): a 2-sample batch repeated several thousand times. sequence_lens has its "
                          "ONNX meaning in the specification: refused, or honoured with that meaning.")
CHECKS["C06"]["technique"] += "; tiling law along the batch axis"
CHECKS["C12"]["text"] += " Long payloads are also loaded from a Deflate-compressed and from a stored zip archive entry (NewModelFromZipFile)."
CHECKS["C13"]["text"] += " Between two calls the caller may give the same tensor object another shape in place (Interp!CallerReshape)."
CHECKS["C17"]["text"] += (" Rank-0 graphs are run about 10^6 times per recording from 16 goroutines (a temporary tensor reclaimed by the garbage collector "
                          "while its memory is read shows up there). A deviation of a free-running stage is a violation only if it recurs in one of up to "
                          "three further recordings (the schedule cannot be replayed); race-detector reports and runtime faults are conclusive at once.")

# ---- round 11
for _pid in ("C03", "C04", "C05", "C06", "C07", "C08", "C09", "C10", "C11"):
    CHECKS[_pid]["text"] += (" The spare-capacity mode uses Clone()s of the operands; an operator is also initialised (twice) from a node whose "
                             "list-valued attributes share one array, and the node must keep its values.")
CHECKS["C09"]["text"] += (" Cases marked `repeat` (ties between +0 and -0 under several reduced axes) are executed 24 times and must return the same "
                          "bits every time.")
CHECKS["C10"]["text"] += (" float64 tensors are also compared at float64 precision against RefTables64 (correctly rounded values from mpmath at 300 "
                          "bits, 60 arguments per function), within 256 units in the last place.")
CHECKS["C17"]["text"] += (" Runs that never return are verdicts: the recorder's watchdog (no Run returned for 120 s) and a return deadline per Run in "
                          "the schedule executor report a deadlock as a violation.")
CHECKS["C18"]["text"] += (" A model inside a zip entry with an honest or forged size header (up to 2^64-1) is loaded with NewModelFromZipFile; an abort "
                          "of the process by the Go runtime while the library is executing counts as a violation.")
CHECKS["C13"]["text"] += " Graph outputs may carry annotations the graph does not compute: Run enforces the input signature only."

# ---- round 12
for _pid in ("C03", "C14"):
    CHECKS[_pid]["text"] += (" In addition (code->spec, at the level of shapes): binary operators are applied to EVERY broadcast-compatible ordered "
                             "pair of shapes of rank <= 4 over the extents 1,2,3,4,5,7,9 (146 000 pairs; thorough: 1..9, 433 000 pairs) in one process, "
                             "with incompatible neighbours, and TLC validates result shape or refusal of every event against Trace_Shapes.tla. "
                             "Operands holding the same elements under different shapes are also built as distinct tensors over one backing slice.")
    CHECKS[_pid]["technique"] += "; shape-level trace validation of all compatible shape pairs (Trace_Shapes.tla)"
for _pid in ("C03", "C04", "C05", "C06", "C07", "C08", "C09", "C10", "C11"):
    CHECKS[_pid]["text"] += " After every application the caller's argument list must still hold the caller's tensor objects."

# ---- round 13
for _pid in ("C03", "C04", "C05", "C06", "C07", "C08", "C09", "C10", "C11"):
    CHECKS[_pid]["text"] += (" Cold-start pass: the value cases of every operator are executed once more as the FIRST uses of the library in fresh "
                             "processes (24 per operator, thorough 60): nodes and operands are prepared without touching the library and 2 x GOMAXPROCS "
                             "goroutines are released from a barrier into GetOperator / Init / ValidateInputs / Apply; whatever is built lazily on first "
                             "use is built under concurrent callers, and every result is judged by the case's expected outcome.")
    CHECKS[_pid]["technique"] += "; cold-start replay in fresh processes"
for _pid in ("C03", "C04", "C05", "C06", "C07", "C08", "C09", "C10", "C11"):
    CHECKS[_pid]["text"] += (" A node whose attribute objects are edited in place between two uses (same AttributeProto objects, other numbers) "
                             "yields the outcome of the numbers it holds now.")
for _pid in ("C01", "C02", "C12", "C13", "C16", "C17", "C18"):
    CHECKS[_pid]["text"] += (" Every guarded call runs under a time limit (240 s): a load or a Run that does not return is reported as neither a value "
                             "nor an error.")
CHECKS["C01"]["text"] += (" Every model case that skips an optional input is repeated on fresh models with a stray entry \"\" in the feed and with an "
                          "initializer that carries no name (RunSem!GatherVals: an empty name is an absent input whatever the environment holds).")
CHECKS["C04"]["text"] += " All-zero operands (A, B, C) under every (alpha, beta) pair and bias form."
CHECKS["C06"]["text"] += " Extents of two decimal digits in pairs whose digit strings coincide ((1,12) and (11,2), ...)."
CHECKS["C08"]["text"] += " Every Slice axes list of length 3 and 4 over rank-2 and rank-3 data, in both spellings of every axis."
CHECKS["C11"]["text"] += " Refused casts also of rank-0 and rank-3 operands."
CHECKS["C12"]["text"] += " Graphs of 2..34 weights of which none, all, every other or the last is malformed are loaded (the load returns, with an error)."
CHECKS["C13"]["text"] += " A declared input that no node reads is part of the signature all the same."
CHECKS["C14"]["text"] += " Every pair of ranks 0..12."
CHECKS["C15"]["text"] += (" Two consecutive positions of one element type are also supplied as ONE tensor object: each position is judged by its own "
                          "constraint.")
CHECKS["C16"]["text"] += " The sample pool contains the all-zero sample; a Gemm with beta = 0.5 is among the models."
CHECKS["C16"]["text"] += (" Round 16: the generated model pruned_dense (Gemm transB=1, MatMul, Gemm against weights with exact zeros) gets samples "
                          "holding +Inf, -Inf, NaN and exactly zero features; Trace_Batch.tla (ClassCode) accepts the trace only if every result has "
                          "the same class (finite within tolerance, +Inf, -Inf, NaN) in the batch, alone, permuted and sub-selected.")
CHECKS["C17"]["text"] += (" The callers of the odd Runs of the model with a defaulted input map that input's name to nil (not supplied): the default is "
                          "used alone and beside other Runs alike.")
CHECKS["C18"]["text"] += " Graphs with 2..34 initializers of every malformed kind: the load returns with an error."

# ---- round 14
for _pid in ("C03", "C04", "C05", "C06", "C07", "C08", "C09", "C10", "C11"):
    CHECKS[_pid]["text"] += (" Cases with a NaN operand are executed again with the NaN that processor arithmetic produces (sign bit set): a NaN is "
                             "any NaN.")
CHECKS["C01"]["text"] += " Programs hold several nodes whose FIRST output is omitted, of different operator types and attributes."
CHECKS["C02"]["text"] += (" A model applies identity-like operators (Expand with nothing to stretch, Concat of one tensor) to weights and consumes "
                          "the results inside the graph: the weights are the same weights in the next Run.")
CHECKS["C05"]["text"] += " Extents that do not fit one byte (256, 257, 258, 300) beside their twins modulo 256."
CHECKS["C12"]["text"] += " A raw-encoded tensor whose typed fields are present but empty decodes like one whose typed fields are absent."
CHECKS["C13"]["text"] += (" Inputs may be declared with an element type the interpreter has no tensors for (FLOAT16, BFLOAT16, STRING, COMPLEX64) or "
                          "another one than supplied: the signature is names, ranks and fixed dimensions.")
CHECKS["C15"]["text"] += (" Every refused input list also arrives at the gate through Model.Run, at a node whose only output name is empty, beside "
                          "a node that produces the graph output.")
CHECKS["C17"]["text"] += (" One generated model holds tensors of a mebibyte (a raw Constant decoded in every Run, a lower-rank bias weight shared "
                          "by all Runs): sizes at which a library may switch to another strategy.")
CHECKS["C18"]["text"] += " Graphs with sparse initializer entries (complete, without values, without indices, empty) are loaded: the load returns."

# ---- round 15
CHECKS["C01"]["text"] += " Every model case is repeated with the default operator-set domain spelled out on every node (\"ai.onnx\")."
CHECKS["C07"]["text"] += " Tiled cases of these operators reach 4.4 million elements (an odd multiple)."
CHECKS["C09"]["text"] += " MIN, MIN+1, MAX-1 and MAX of int64 / int32 pass through ArgMax, ReduceMax and ReduceMin (neighbours one apart at the ends of the range)."
CHECKS["C11"]["text"] += " Floats strictly between -1 and 0 convert to 0 of every unsigned type."
CHECKS["C12"]["text"] += " The raw payload is also decoded from a sub-slice starting at every address modulo 8."
CHECKS["C13"]["text"] += (" After the introspection results have been compared, the harness writes into everything that was returned and compares "
                          "again: the model reports and enforces the declared signature as before.")
CHECKS["C14"]["text"] += " The tiling law along a middle or the last axis stretches an operand to several hundred thousand along that axis."
CHECKS["C18"]["text"] += (" Well-formed models with 10, 5000 and 400000 nested subgraphs are loaded; a runtime abort is attributed to the innermost "
                          "frame that belongs to the library or to the harness.")
for _pid, _what in (("C04", "zero columns / rows of the inner extent of a matrix product contribute nothing: flagged MatMul and Gemm cases are executed with an inner extent of 16411"),
                    ("C05", "input channels whose kernel weights are zero contribute nothing: flagged cases are executed with 16411 channels (a window of more than 2^16 elements)"),
                    ("C06", "hidden units and input features whose weights, biases and initial state are zero stay at exactly zero: flagged cases are executed with 1024 hidden units and 512 input features (weight matrices of more than a million elements)")):
    CHECKS[_pid]["text"] += " Zero-padding law (checked by TLC on small paddings): " + _what + "; the results are the expected ones."
    CHECKS[_pid]["technique"] += "; zero-padding law"
CHECKS["C05"]["text"] += (" Round 17: float64 images and kernels whose products and partial sums need 25..27 significant bits (exact in float64, "
                          "exact expected values from TLC): an accumulation narrower than the declared type is a violation (MC_C05!WideProductCases).")
CHECKS["C04"]["text"] += (" Round 17: MatMul of float64 and int64 operands whose products and sums need 25..26 significant bits (exact expected "
                          "values): a product formed or accumulated in a narrower type than the declared one is a violation (MC_C04!WideMatMulCase).")
