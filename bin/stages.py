"""Stage registry for bin/check: which TLC configurations / recorders decide which property, per tier."""
import json, os, re, subprocess


def mc(name, module, cfg, mode="bfs", exhaustive=None, **kw):
    d = dict(kind="mc", name=name, module=module, cfg=cfg, mode=mode)
    d["exhaustive"] = (mode == "bfs") if exhaustive is None else exhaustive
    d.update(kw)
    return d


def trace(name, record, module, cfg, **kw):
    d = dict(kind="trace", name=name, record=record, module=module, cfg=cfg)
    d.update(kw)
    return d


def design(name, module, cfg, **kw):
    d = dict(kind="design", name=name, module=module, cfg=cfg)
    d.update(kw)
    return d


def ops_trace(tier, ops, quick_n=100, thorough_n=6000):
    """Direction B: random invocations of these operators recorded from the real code, validated by TLC against Trace_Ops.tla."""
    return trace("random-invocations-trace", ["ops", "-ops", ops, "-n", str(quick_n if tier == "quick" else thorough_n)], "Trace_Ops.tla", "Trace_Ops.cfg")


def shape_pairs_trace(tier):
    """Direction B at the level of shapes: every broadcast-compatible ordered pair of shapes of rank <= 4 over the extents (quick:
    1,2,3,4,5,7,9 - about 146 000 pairs; thorough: 1..9 - about 410 000) through binary operators in one process, validated by TLC."""
    return trace("all-shape-pairs-trace", ["shapes", "-extents", "1,2,3,4,5,7,9" if tier == "quick" else "1,2,3,4,5,6,7,8,9"],
                 "Trace_Shapes.tla", "Trace_Shapes.cfg")


# --------------------------------------------------------------------------------------------- stage runners
def run_stage(ctx, st):
    res = dict(mc=run_mc, trace=run_trace, design=run_design)[st["kind"]](ctx, st)
    if st["kind"] == "trace" and st.get("confirm") and res["violations"] and all(
            v["why"].startswith("trace event") for v in res["violations"]):
        # A deviation of a FREE-RUNNING concurrent execution cannot be replayed (the schedule is not under control). It is a verdict
        # only if it recurs: the stage is recorded again (other seeds) up to `confirm` times; a deviation that never recurs is written
        # to the evidence as unconfirmed and is not a violation (race-detector reports and runtime faults are conclusive at once).
        recurred = False
        for i in range(st["confirm"]):
            r2 = run_trace(dict(ctx, seed=int(ctx["seed"]) + 1000 * (i + 1)), dict(st, name="%s-confirm%d" % (st["name"], i + 1)))
            res["tlc_runs"] += r2.get("tlc_runs", [])
            res["evaluations"] = res.get("evaluations", 0) + r2.get("evaluations", 0)
            res["validated"] = res.get("validated", 0) + r2.get("validated", 0)
            res["infra"] += r2.get("infra", [])
            if r2["violations"]:
                res["violations"] += r2["violations"]
                recurred = True
                break
        if not recurred:
            res["unconfirmed"] = [v["why"][:400] for v in res["violations"]]
            res["note"] = ("a deviating concurrent Run was observed once and did not recur in %d further recordings: "
                           "not reproducible, reported here and not as a violation" % st["confirm"])
            res["violations"] = []
    return res


def tlc_error_text(r):
    return "TLC rc=%d on %s/%s:\n%s" % (r["rc"], r["module"], r["config"], "\n".join(r["tail"][-25:]))


def replay_once(ctx, st, res, harness, env, out, summ, r, first, procs):
    """one harness replay of the case file; fills res; returns True when the stage must stop (race report, no summary)"""
    extra = [] if procs is None or not st.get("procs_stride") else ["-stride", str(st["procs_stride"])]
    p = subprocess.run([harness, "replay", "-in", out, "-out", summ, "-prop", ctx["pid"],
                        "-replaydir", ctx["replaydir"]] + extra, cwd=ctx["verif"], text=True, capture_output=True, env=env)
    if st.get("race") and p.returncode == 66:
        path = os.path.join(ctx["replaydir"], "%s-race-%s.txt" % (ctx["pid"], st["name"]))
        open(path, "w").write(p.stderr[-20000:])
        res["violations"].append(dict(replay=path, why="the Go race detector reported a data race while replaying %s: %s" % (
            st["cfg"], " ".join(p.stderr.split("\n")[:12])[:600])))
        res["evaluations"] = 0
        return True
    if not os.path.exists(summ):
        # the replay process died. A verdict about the code only if the Go runtime aborted it ("fatal error: ...", e.g. out of
        # memory) while the faulting goroutine was executing the library, not the harness
        m = re.search(r"fatal error: ([^\n]*)\n(?:.*\n)*?goroutine \d+[^\n]*\[running[^\]\n]*\]:\n((?:.*\n){1,40})", p.stderr)
        frames = [l for l in (m.group(2).split("\n") if m else []) if l and not l.startswith("\t")]
        user = [f for f in frames if not f.startswith("runtime.") and not f.startswith("internal/")]
        # the innermost frame that belongs to the library or to the harness decides whose call it was (third-party code - the
        # protobuf decoder, the tensor library - runs on behalf of whoever called it; a stack overflow prints the innermost and the
        # outermost frames only)
        if not (m and user and user[0].startswith("github.com/advancedclimatesystems/gonnx")):
            m2 = re.search(r"fatal error: ([^\n]*)\n(?:.*\n)*?goroutine \d+[^\n]*\[running[^\]\n]*\]:\n((?:.*\n)*?)\n", p.stderr)
            fr2 = [l for l in (m2.group(2).split("\n") if m2 else []) if l and not l.startswith("\t")]
            owner = [f for f in fr2 if f.startswith("github.com/advancedclimatesystems/gonnx") or f.startswith("main.")]
            if m2 and owner and owner[0].startswith("github.com/advancedclimatesystems/gonnx"):
                m, user = m2, owner
        if m and user and user[0].startswith("github.com/advancedclimatesystems/gonnx"):
            path = os.path.join(ctx["replaydir"], "%s-fatal-%s.txt" % (ctx["pid"], st["name"]))
            open(path, "w").write(p.stderr[-20000:])
            res["violations"].append(dict(replay=path, why="the Go runtime aborted the process while it was executing the library: fatal error: %s (in %s)" % (m.group(1), user[0][:120])))
            res["evaluations"] = res.get("evaluations", 0)
            return True
        res["infra"].append("harness replay produced no summary: " + p.stdout[-2000:] + p.stderr[-2000:])
        return True
    s = json.load(open(summ))
    if first:
        res["_first_summary"] = s
    tag = "" if procs is None else " [GOMAXPROCS=%s]" % procs
    if first:
        res["evaluations"] = s["executions"]
        res["validated"] = s["cases"]
        res["nontrivial"] = s["distinct_nontrivial"]
        res["features"] = s["features"]
        res["must"] = s["must"]
        res["known"] = s["known"]
        res["samples"] = s["samples"] or []
    else:
        res["evaluations"] += s["executions"]
        for k, v in (s["known"] or {}).items():
            res["known"][k] = res["known"].get(k, 0) + v
    if s["violations"]:
        n0 = len(res["violations"])
        blocks = re.split(r"(?m)^VIOLATION ", p.stdout)
        for b in blocks[1:]:
            m = re.match(r"property=\S+ replay=(\S+)\n((?:  .*\n?)*)", b)
            if m:
                res["violations"].append(dict(replay=m.group(1), why=m.group(2).strip() + tag))
        for path in s["violation_replays"][len(res["violations"]) - n0:]:
            res["violations"].append(dict(replay=os.path.abspath(os.path.join(ctx["verif"], path)), why=tag.strip()))
    if s["infra"]:
        res["infra"] += ["harness: " + n + tag for n in (s.get("infra_notes") or ["infra"])][:5]
    return False


def cold_start(ctx, st, res, out):
    """the operator-level value cases once more as the FIRST uses of the library in fresh processes, many goroutines released at the
    same instant (harness/coldstart.go): whatever is built lazily on first use is built under concurrent callers"""
    summ = os.path.join(ctx["work"], st["name"] + ".cold.summary.json")
    p = subprocess.run([ctx["harness"], "coldstart", "-in", out, "-out", summ, "-prop", ctx["pid"], "-replaydir", ctx["replaydir"],
                        "-per", str(st["cold"])], cwd=ctx["verif"], text=True, capture_output=True, env=dict(os.environ))
    if not os.path.exists(summ):
        res["infra"].append("cold-start pass produced no summary: " + p.stdout[-1000:] + p.stderr[-1000:])
        return
    s = json.load(open(summ))
    res["evaluations"] = res.get("evaluations", 0) + s["executions"]
    res["cold_start_executions"] = s["executions"]
    if s["violations"]:
        for b in re.split(r"(?m)^VIOLATION ", p.stdout)[1:]:
            m = re.match(r"property=\S+ replay=(\S+)\n((?:  .*\n?)*)", b)
            if m:
                res["violations"].append(dict(replay=m.group(1), why=m.group(2).strip() + " [cold start]"))
    if s["infra"]:
        res["infra"] += ["harness (cold start): " + n for n in (s.get("infra_notes") or ["infra"])][:5]


def run_mc(ctx, st):
    out = os.path.join(ctx["work"], st["name"] + ".out")
    res = dict(name=st["name"], kind="mc", exhaustive=st["exhaustive"], tlc_runs=[], violations=[], infra=[])
    if st.get("pre"):
        # observation of the code needed by the specification (e.g. the operator table), written into the private spec copy
        specdir = os.path.join(ctx["work"], "spec")
        if not os.path.isdir(specdir):
            import shutil
            shutil.copytree(os.path.join(ctx["verif"], "spec"), specdir)
        p = subprocess.run([ctx["harness"]] + st["pre"][:-1] + [os.path.join(specdir, st["pre"][-1])], cwd=ctx["verif"],
                           text=True, capture_output=True)
        if p.returncode != 0:
            res["infra"].append("pre-step failed: " + p.stdout[-1000:] + p.stderr[-1000:])
            return res
    r = ctx["run_tlc"](ctx["work"], st["module"], st["cfg"], out, mode=st["mode"], simulate=st.get("num"),
                       depth=st.get("depth"), seed=st.get("seed"), timeout=st.get("timeout", 3000),
                       constants=st.get("constants"), workers=st.get("workers") or ctx.get("tlc_workers"))
    res["tlc_runs"].append(r)
    if r["rc"] != 0:
        res["infra"].append(tlc_error_text(r))
        return res
    summ = os.path.join(ctx["work"], st["name"] + ".summary.json")
    harness = ctx["harness"]
    env = dict(os.environ)
    if st.get("race"):
        # the same behaviours under the Go race detector: a report aborts the process with exit code 66
        harness = ctx["build_harness"](ctx["work"], race=True)
        env["GORACE"] = "halt_on_error=1 exitcode=66"
    first = True
    for procs in [None] + list(st.get("procs") or []):
        # the same cases again with another number of usable cores: a result does not depend on how much parallelism there is
        if procs is not None:
            env["GOMAXPROCS"] = str(procs)
            summ = os.path.join(ctx["work"], "%s.procs%s.summary.json" % (st["name"], procs))
        stop = replay_once(ctx, st, res, harness, env, out, summ, r, first, procs)
        first = False
        if stop:
            return res
    if st.get("cold"):
        cold_start(ctx, st, res, out)
    s = res.pop("_first_summary")
    if s["cases"] == 0:
        res["infra"].append("vacuous: %s produced no case (%s)" % (st["cfg"], "\n".join(r["tail"][-15:])))
    if st.get("min_cases") and s["cases"] < st["min_cases"]:
        res["infra"].append("vacuous: %s produced %d cases, expected at least %d" % (st["cfg"], s["cases"], st["min_cases"]))
    return res


TRACE_LINE = re.compile(r'<<"TRACE", (\d+), (\d+)>>')
KNOWN_LINE = re.compile(r'<<"KNOWN", "([^"]+)">>')


def run_trace(ctx, st):
    """record with the real code, validate with TLC."""
    res = dict(name=st["name"], kind="trace", tlc_runs=[], violations=[], infra=[], known={})
    specdir = os.path.join(ctx["work"], "spec")
    if not os.path.isdir(specdir):
        import shutil
        shutil.copytree(os.path.join(ctx["verif"], "spec"), specdir)
    # each trace stage validates in its own copy of the spec directory (stages run in parallel and all read trace.ndjson)
    import shutil
    specdir = os.path.join(ctx["work"], "spec-" + st["name"])
    shutil.copytree(os.path.join(ctx["work"], "spec"), specdir)
    tracefile = os.path.join(specdir, st.get("tracefile", "trace.ndjson"))
    harness = ctx["harness"]
    if st.get("race"):
        harness = ctx["build_harness"](ctx["work"], race=True)
    cmd = [harness, "record"] + [str(a) for a in st["record"]] + ["-out", tracefile, "-seed", str(ctx["seed"]), "-repo", ctx["repo"]]
    env = dict(os.environ)
    if st.get("race"):
        env["GORACE"] = "halt_on_error=1 exitcode=66"
    p = subprocess.run(cmd, cwd=ctx["verif"], text=True, capture_output=True, timeout=st.get("timeout", 3000), env=env)
    if st.get("race") and p.returncode == 66:
        path = os.path.join(ctx["replaydir"], "%s-race-%s.txt" % (ctx["pid"], st["name"]))
        open(path, "w").write(p.stderr[-20000:])
        res["violations"].append(dict(replay=path, why="the Go race detector reported a data race during the free-running stress: " +
                                      " ".join(p.stderr.split("\n")[:12])[:600]))
        return res
    if p.returncode == 3 and "HUNG:" in p.stderr:
        # the recorder's watchdog: concurrent Runs that never return (a deadlock) - conclusive at once
        path = os.path.join(ctx["replaydir"], "%s-hung-%s.txt" % (ctx["pid"], st["name"]))
        open(path, "w").write(p.stderr[-60000:])
        first = [l for l in p.stderr.splitlines() if l.startswith("HUNG:")][0]
        res["violations"].append(dict(replay=path, why="concurrent Runs do not return: " + first[:300]))
        return res
    if p.returncode != 0 and "fatal error:" in p.stderr:
        # the Go runtime aborted the recorder (e.g. "concurrent map read and map write"): a verdict about the code only if the
        # faulting goroutine was executing the library, not the harness
        m = re.search(r"fatal error: ([^\n]*)\n(?:.*\n)*?goroutine \d+[^\n]*\[running[^\]\n]*\]:\n((?:.*\n){1,40})", p.stderr)
        frames = [l for l in (m.group(2).split("\n") if m else []) if l and not l.startswith("\t")]
        user = [f for f in frames if not f.startswith("runtime.") and not f.startswith("internal/")]
        if m and user and user[0].startswith("github.com/advancedclimatesystems/gonnx"):
            path = os.path.join(ctx["replaydir"], "%s-fatal-%s.txt" % (ctx["pid"], st["name"]))
            open(path, "w").write(p.stderr[-20000:])
            res["violations"].append(dict(replay=path, why="the Go runtime aborted the process while it was executing the library: fatal error: %s (in %s)" % (m.group(1), user[0][:120])))
            return res
    if p.returncode != 0 or not os.path.exists(tracefile):
        res["infra"].append("recorder failed rc=%d: %s %s" % (p.returncode, p.stdout[-1500:], p.stderr[-1500:]))
        return res
    nlines = sum(1 for _ in open(tracefile))
    if nlines == 0:
        res["infra"].append("recorder wrote an empty trace")
        return res
    res["samples"] = []
    with open(tracefile) as f:
        for i, line in enumerate(f):
            if i < 2 and len(line) < 3000:
                res["samples"].append(json.loads(line))
    out = os.path.join(ctx["work"], st["name"] + ".out")
    r = ctx["run_tlc"](ctx["work"], st["module"], st["cfg"], out, mode="bfs", workers=1, timeout=st.get("timeout", 3000),
                       extra_java=st.get("java", ""), specdir=specdir)
    res["tlc_runs"].append(r)
    reached = total = None
    with open(out, errors="replace") as f:
        for line in f:
            m = TRACE_LINE.search(line)
            if m:
                reached, total = int(m.group(1)), int(m.group(2))
            m = KNOWN_LINE.search(line)
            if m:
                res["known"][m.group(1)] = res["known"].get(m.group(1), 0) + 1
    res["evaluations"] = nlines
    if reached is None:
        res["infra"].append("trace validation did not finish: " + tlc_error_text(r))
        return res
    res["validated"] = reached
    res["nontrivial"] = reached
    if reached < total or total != nlines:
        # first unconsumed event = the one the specification has no behaviour for
        bad = None
        with open(tracefile) as f:
            for i, line in enumerate(f):
                if i == reached:
                    bad = line
        import hashlib
        h = hashlib.sha1((bad or "").encode()).hexdigest()[:16]
        path = os.path.join(ctx["replaydir"], "%s-trace-%s.json" % (ctx["pid"], h))
        open(path, "w").write(bad or "")
        res["violations"].append(dict(replay=path, why="trace event %d of %d is not a behaviour of %s: %s" % (
            reached + 1, total, st["module"], (bad or "")[:600])))
    return res


def run_design(ctx, st):
    res = dict(name=st["name"], kind="design", tlc_runs=[], violations=[], infra=[])
    if st.get("pre"):
        specdir = os.path.join(ctx["work"], "spec")
        if not os.path.isdir(specdir):
            import shutil
            shutil.copytree(os.path.join(ctx["verif"], "spec"), specdir)
        subprocess.run([ctx["harness"]] + st["pre"][:-1] + [os.path.join(specdir, st["pre"][-1])], cwd=ctx["verif"], capture_output=True)
    out = os.path.join(ctx["work"], st["name"] + ".out")
    r = ctx["run_tlc"](ctx["work"], st["module"], st["cfg"], out, mode=st.get("mode", "bfs"), simulate=st.get("num"),
                       depth=st.get("depth"), timeout=st.get("timeout", 3000), constants=st.get("constants"),
                       workers=st.get("workers"))
    res["tlc_runs"].append(r)
    expect = st.get("expect_rc", 0)
    expect = expect if isinstance(expect, (list, tuple)) else [expect]
    if r["rc"] not in expect:
        res["infra"].append("design-level check failed (specification error, not a verdict about the code): " + tlc_error_text(r))
    res["note"] = st.get("note", "")
    return res


# ------------------------------------------------------------------------------------------------- properties
PROPS = {}
# checks whose generated cases are replayed again under other GOMAXPROCS values (a result does not depend on the core count)
CORE_COUNT_PROPS = {"C03", "C04", "C05", "C06", "C07", "C08", "C09", "C10", "C11", "C14"}

PROPS["C14"] = dict(
    rule="BFS over every ordered pair of shapes (rank 0..4, extents 1..E) x {multi,uni}directional helper, sources carry "
         "distinct ids; non-trivial = expected result has more than one element or is an error; distinct = distinct case text",
    assumptions=["harness concretisation/At()-based reading of gorgonia tensors is correct",
                 "TLC evaluates the TLA+ definitions faithfully"],
    stages=lambda tier: [
        mc("bcast-exhaustive", "MC_C14.tla", "MC_C14_quick.cfg" if tier == "quick" else "MC_C14_thorough.cfg",
           min_cases=20000),
        ops_trace(tier, "MultidirectionalBroadcast,UnidirectionalBroadcast", 300, 4000),
        shape_pairs_trace(tier),
    ],
)

PROPS["C03"] = dict(
    rule="three exhaustive TLC configurations: shapes (12 operators x every ordered pair of shapes, distinct ids), values (per operator and "
         "dtype every ordered pair of the special-value catalogue whose result is determined), types (mixed dtypes: no crash); each case "
         "executed through the operator API, a single-node model and an initializer-fed model run twice; non-trivial = expected value "
         "with more than one element or an expected error",
    assumptions=["IEEE tables of spec/Values.tla", "symbolic two's-complement domain (q,r) of spec/Values.tla"],
    stages=lambda tier: [
        mc("shapes", "MC_C03.tla", "MC_C03_shapes_%s.cfg" % tier, min_cases=2000),
        mc("values", "MC_C03.tla", "MC_C03_values.cfg", min_cases=1000),
        mc("types", "MC_C03.tla", "MC_C03_types.cfg", min_cases=100),
        ops_trace(tier, "Add,Sub,Mul,Equal,Less,LessOrEqual,Greater,GreaterOrEqual,And,Or,Xor", 60, 800),
        shape_pairs_trace(tier),
    ],
)

PROPS["C07"] = dict(
    rule="BFS over input shapes (rank 0..4 extents 1..3, + rank 5 extents 1..2 thorough) x Reshape targets over {-1,0,1,2,3,4,6} of "
         "length <= 3 (4 thorough), Flatten axes -rank-1..rank+1, Squeeze/Unsqueeze axes lists of length <= 2 (3 thorough) incl. negative, "
         "unsorted, duplicate, out-of-range, Shape, dtype sweep over 14 types; each case in three execution modes; non-trivial = expected "
         "tensor with more than one element or an expected error",
    assumptions=["ONNX opset-13 operator documents as transcribed in spec/OpShape.tla"],
    stages=lambda tier: [mc("shape-ops", "MC_C07.tla", "MC_C07_%s.cfg" % tier, min_cases=20000),
                         ops_trace(tier, "Flatten,Reshape,Squeeze,Unsqueeze,Shape")],
)

PROPS["C08"] = dict(
    rule="BFS: Transpose every permutation of every shape rank 1..4 extents 1..3 (+invalid perms); Concat 1..3 inputs x every axis in both "
         "spellings x (mis)matching extents; Slice rank 1..2 (3 thorough) extents 1..4, every (start,end) in [-dim-2,dim+2]^2 x steps "
         "{-2,-1,1,2,3} x axis spellings x optional-input forms, pairs of axes, INT64/INT32 MAX/MIN ends, invalid requests; Gather every axis x "
         "index tensors rank 0..2 with every in-range value and one out-of-range; Expand every (input,target) pair of rank <= 3; dtype "
         "sweep; non-trivial = expected tensor with more than one element or expected error",
    assumptions=["ONNX opset-13 operator documents as transcribed in spec/OpIndex.tla",
                 "Slice: only non-negative, unclamped, positive-step requests are must-compute; others may be refused but never answered differently"],
    stages=lambda tier: [mc("index-ops", "MC_C08.tla", "MC_C08_%s.cfg" % tier, min_cases=100000),
                         ops_trace(tier, "Transpose,Concat,Slice,Gather,Expand")],
)

PROPS["C15"] = dict(
    rule="complete enumeration: 55 operators x every input count 0..max+2 x each of 15 dtypes at each position (others at an allowed "
         "type) x nil at each (pair of) optional position(s), against the arity/type table extracted from the real operators; every "
         "behaviour of Registry.tla with <= 5 lookup/Init/Apply steps; 20 unregistered names; non-trivial = every gate case (each has "
         "a definite accept/error outcome)",
    assumptions=["the gate is specified relative to each operator's own declared min/max/type constraints (GetMinInputs, GetMaxInputs, GetInputTypeConstraints)"],
    stages=lambda tier: [
        mc("gate", "MC_C15.tla", "MC_C15_gate.cfg", pre=["optable", "-out", "optable.json"], min_cases=8000),
        mc("names", "MC_C15.tla", "MC_C15_names.cfg", pre=["optable", "-out", "optable.json"], min_cases=70),
        mc("registry", "MC_C15.tla", "MC_C15_registry.cfg" if tier == "quick" else "MC_C15_registry6.cfg", pre=["optable", "-out", "optable.json"], min_cases=2000),
        design("registry-singleton-antivacuity", "MC_C15.tla", "MC_C15_registry_singleton.cfg", expect_rc=12,
               note="with SingletonInstances = TRUE TLC must find the FreshInstances counterexample",
               pre=["optable", "-out", "optable.json"]),
    ],
)

PROPS["C04"] = dict(
    rule="BFS: MatMul every ordered pair of operand shapes of rank 1..3 extents 1..3 plus rank 4 extents 1..2 (thorough: rank 1..4 extents "
         "1..3 plus rank 5 extents 1..2), integer ids so results are exact; Gemm 4 transpose combinations x (alpha,beta) pairs x 8 kinds "
         "of C x (M,K,N) in {1,2,3}^3, dtype sweep; LinearRegressor targets x features x batch x intercept forms; Scaler shapes x offset/"
         "scale lengths; non-trivial = expected tensor with more than one element or expected error",
    assumptions=["values are compared exactly on integer-valued data (stronger than a rounding bound); the rounding bound on non-integer data is not exercised"],
    stages=lambda tier: [mc("linear-ops", "MC_C04.tla", "MC_C04_%s.cfg" % tier, min_cases=8000),
                         ops_trace(tier, "MatMul,Gemm,Scaler,LinearRegressor")],
)

PROPS["C09"] = dict(
    rule="BFS over every shape of rank 1..3 (4 thorough) extents 1..3: ArgMax every axis in both spellings (+ out of range) x keepdims "
         "{default,0,1} on data with ties; ReduceMax/Min axes absent / every axes list of length <= 2 over [-r-1, r] / sorted triples x "
         "keepdims; Softmax/LogSoftmax in the exact regime (multiples of 1000: result 1/k on the k maxima, 0 elsewhere; LogSoftmax "
         "x-max with a unique maximum) with per-slice patterns and per-slice magnitudes along every axis, f32/f64, +-MaxFloat slices; "
         "non-trivial = expected tensor with more than one element or an expected error",
    assumptions=["exp(-1000) underflows to exactly 0 in float32 and float64 when computed as exp(x - max)"],
    stages=lambda tier: [mc("reduce-ops", "MC_C09.tla", "MC_C09_%s.cfg" % tier, min_cases=10000),
                         ops_trace(tier, "ReduceMax,ReduceMin,ArgMax")],
)

PROPS["C10"] = dict(
    rule="BFS: Abs/Relu/Not over every shape of rank 0..3 extents 1..3 (rank 0..4 thorough) x accepted dtypes x special-value catalogue "
         "(NaN, +-Inf, +-0, +-MaxFloat, MIN/MAX); PRelu over every ordered shape pair of rank <= 3 (unidirectional slope broadcast) x 5 "
         "dtypes; the 13 transcendental operators on the mpmath reference grid (79 float32 arguments each: +-0, subnormal, domain "
         "edges, exp-overflow arguments, +-MaxFloat, +-Inf, NaN) embedded in tensors of every rank, f32 and f64, compared with the "
         "correctly rounded value within the stated ulp tolerance; non-trivial = expected tensor with more than one element",
    assumptions=["RefTables.tla is generated by spec/gen_reftables.py with mpmath at 200 bits; float64 results are compared at float32 resolution",
                 "tolerances: 1 ulp for kernels evaluating in float64, 4 ulp for float32 Tanh, 4 + 2*ceil|x| ulp for float32 Sigmoid"],
    stages=lambda tier: [mc("unary-ops", "MC_C10.tla", "MC_C10_%s.cfg" % tier, min_cases=3000),
                         ops_trace(tier, "Relu,Abs")],
)

PROPS["C11"] = dict(
    rule="BFS: Constant every attribute form (value with each of the 11 tensor types x raw/typed encoding x 5 shapes incl. rank 0, "
         "value_float(s), value_int(s) with extremes, refused forms, zero/two attributes); ConstantOfShape every shape of rank 1..3 "
         "extents 1..3 (rank 1..4 thorough) x 11 value types x both encodings, default value, invalid values/dims, empty shape tensor; "
         "Cast all 10x10 numeric source/target pairs x the in-range value catalogue (fractions truncate toward zero, width boundaries "
         "127/128/255/256/32767/65535, NaN/Inf/-0 between float types) on vectors, scalars and rank-3 tensors, unsupported targets; "
         "non-trivial = expected tensor with more than one element or expected error",
    assumptions=["Cast values outside the target range are not generated (C conversion is undefined there)"],
    stages=lambda tier: [mc("const-ops", "MC_C11.tla", "MC_C11_%s.cfg" % tier, min_cases=2000)],
)

PROPS["C05"] = dict(
    rule="BFS: 1-D complete lattice L<=5 x k<=3 x stride,dilation in 1..2 x pads 0..2 per side x batch 1..2 x bias, 4 auto_pad modes; 2-D "
         "H,W in 2..4 x kh,kw in 1..3 (non-square images and kernels) x 8 anisotropic stride/dilation combinations x 10 asymmetric pad "
         "vectors, auto_pad x 4 stride pairs, N,C,M in 1..2, kernel_shape given, f64, group 2 (thorough: L<=6, H,W<=5, strides/dilations "
         "up to 3, pads up to 3, N,C,M up to 3); images/kernels carry distinct ids so every output element is exact; non-trivial = "
         "expected tensor with more than one element",
    assumptions=["configurations whose output extent would be < 1 or whose attributes are malformed are no-crash only"],
    stages=lambda tier: [mc("conv", "MC_C05.tla", "MC_C05_%s.cfg" % tier, min_cases=9000),
                         ops_trace(tier, "Conv", 300, 3000)],
)

def _c06(tier):
    st = [mc("recurrent", "MC_C06.tla", "MC_C06_%s.cfg" % tier, min_cases=2000)]
    if tier == "thorough":
        # TLC evaluates a whole recurrence per event as one expression (about a second each): thorough tier only
        st.append(trace("random-invocations-trace", ["ops", "-ops", "RNN,GRU,LSTM", "-n", "40"], "Trace_Ops.tla", "Trace_Ops.cfg", timeout=3000))
    return st


PROPS["C06"] = dict(
    rule="BFS: RNN/GRU/LSTM x seq 1..3 x batch 1..2 x input 1..2 x hidden 1..2 x every subset of the optional inputs (bias, initial_h, "
         "initial_c, peepholes; absent ones spelled as skipped inputs) x linear_before_reset, with weights distinct per gate block, per bias "
         "half and per peephole (any permutation changes the result); every activation tuple over {sigmoid, tanh, relu} per slot; invalid "
         "attribute combinations; every split point of the sequence run as two pieces with the real state fed forward (operator level "
         "and two Model.Run calls). Values are exact in the saturation regime (|pre-activation| >= 1024 for sigmoid/tanh slots, relu on "
         "integers); cases leaving the regime are filtered in the spec. non-trivial = expected tensors with more than one element or expected error",
    assumptions=["sigmoid(x) is exactly 0 / 1 and tanh(x) exactly -1 / 1 for |x| >= 1024 in float32 and float64",
                 "default-activation trajectories on ordinary values are not recomputed (no reals in TLA+)"],
    stages=_c06,
)

PROPS["C12"] = dict(
    rule="BFS: 11 element types x {typed field, raw} x 6 shapes of rank 0..4 x element bit patterns (zero, one, all ones, MIN, MAX, NaN with "
         "payload, -0, subnormal, mixed bytes) x carrier fill (sign / zero extended) x payload length {exact, empty, one element short, "
         "one element long, one byte short, one byte long, both encodings populated}, negative and zero dims; every other data_type code "
         "(0, 8, 10, 14, 15, 16, 17, -1, 99) with each typed field and raw data; supported types with the payload in a wrong typed field; "
         "each observed through onnx.TensorFromProto and through NewModelFromBytes + Run; comparison of dtype, shape and exact element "
         "bits; non-trivial = every case with a definite value or error outcome",
    assumptions=["when both a typed field and raw data are populated the typed field is the payload (library convention; ONNX allows only one)",
                 "bool payload bytes other than 0/1 and zero-element tensors are no-crash only"],
    stages=lambda tier: [mc("decode", "MC_C12.tla", "MC_C12_quick.cfg", min_cases=1500),
                         trace("random-protos-trace", ["decode", "-n", "100" if tier == "quick" else "3000"], "Trace_Decode.tla", "Trace_Decode.cfg")],
)

PROPS["C13"] = dict(
    rule="BFS: every single-input signature of rank 1..3 with each dimension fixed (2 or 3), symbolic or unspecified x supplied tensors "
         "with every per-axis size in {d-1, d, d+1, 7}, other ranks (0, r-1, r+1, 5), missing / wrongly named / extra names, input "
         "shadowed by an initializer (supplied or not); every 2- and 3-input signature of rank 1..2 with one input varied at a time, "
         "one missing, two wrong, last shadowed; graph = one Shape node per input so acceptance and the tensor actually used are "
         "observable; caller tensors and weights snapshotted around every call; non-trivial = every case (definite accept / reject outcome)",
    assumptions=["when several inputs are wrong any of their error classes is accepted (the code ranges over a map)"],
    stages=lambda tier: [mc("signature", "MC_C13.tla", "MC_C13_%s.cfg" % tier, min_cases=20000)],
)

def _c01(tier):
    st = [mc("programs-2-nodes", "MC_C01.tla", "MC_C01_quick.cfg", min_cases=5000, workers=4),
          mc("programs-2-nodes-defaulted-input", "MC_C01.tla", "MC_C01_quick_dflt.cfg", min_cases=5000, workers=4),
          mc("recurrent-pipelines-3-nodes", "MC_C01.tla", "MC_C01_rec.cfg" if tier == "thorough" else "MC_C01_rec_small.cfg",
             min_cases=100, timeout=1200, workers=4)]
    st.append(trace("random-programs-node-trace", ["run", "-n", "80" if tier == "quick" else "1500"], "Trace_Run.tla", "Trace_Run.cfg"))
    if tier == "thorough":
        # every 3-node program over the core templates (the full template set has > 600 000 3-node programs: sampled below)
        st.append(mc("programs-3-nodes-core-templates", "MC_C01.tla", "MC_C01_core3.cfg", min_cases=50000, timeout=3000, workers=8))
        st.append(mc("programs-5-nodes-sampled", "MC_C01.tla", "MC_C01_sim.cfg", mode="simulate", num=300, depth=40, workers=8,
                     min_cases=1500, timeout=3000))
    return st


PROPS["C01"] = dict(
    rule="BFS over a program builder: every well-typed program of <= 2 nodes (3 thorough, without the recurrent templates) over a catalogue "
         "of 25 node templates (Add/Sub/Mul fan-in, Relu/Abs, three Gemm attribute sets - repeated operator type with different "
         "attributes -, Transpose, Flatten, Reshape, Concat, Slice with a skipped optional input, Constant, Unsqueeze/Squeeze, GRU/LSTM/RNN "
         "with arbitrary output names, omitted trailing and skipped middle outputs), with and without a caller value for an input that "
         "is also an initializer; every recurrent pipeline of <= 3 nodes; every produced tensor is declared as graph output and compared "
         "exactly with RunSem; each program is marshalled, loaded from bytes and run; non-trivial = every program (all outputs have > 1 element)",
    assumptions=["programs are generated in topological order by construction (single assignment)"],
    stages=_c01,
)

def _c02(tier):
    st = [mc("histories-2-calls", "MC_C02.tla", "MC_C02_quick.cfg", min_cases=1000, workers=6),
          mc("histories-3-calls-single-input-models", "MC_C02.tla", "MC_C02_quick3.cfg", min_cases=1000, workers=6),
          design("asis-effects-antivacuity", "MC_C02.tla", "MC_C02_asis.cfg", expect_rc=[12, 13], workers=2,
                 note="with the as-is effect summaries (in-place reshape of bias / initial state / ArgMax input) TLC must find a history that violates WeightsAndCallerTensorsImmutable")]
    st.append(trace("random-programs-repeated-runs-trace", ["run", "-n", "60" if tier == "quick" else "1000"], "Trace_Run.tla", "Trace_Run.cfg"))
    if tier == "thorough":
        st.append(mc("histories-3-calls", "MC_C02.tla", "MC_C02_thorough.cfg", min_cases=50000, timeout=3000))
    return st


PROPS["C02"] = dict(
    rule="BFS over the Interp state machine (object heap, one Run at a time): for each of 9 models that consume a weight or a caller "
         "tensor as convolution bias, initial recurrent state (GRU/LSTM/RNN), reduction operand, Expand/Concat/Constant/Scaler/Gemm "
         "operand, every history of 2 calls (3 calls for the single-input models; 3 calls for all models in the thorough tier) where "
         "each input of a call is a fresh tensor (batch 1, batch 2 or a wrong rank), the tensor OBJECT of an earlier call, an OUTPUT "
         "object of an earlier call, or missing; after every call: outputs vs the specification, deep snapshots of caller tensors and "
         "of the weights, and bit-wise comparison with a freshly loaded model; non-trivial = every history",
    assumptions=["weights are read through the build-tag accessor VerifParameters"],
    stages=_c02,
)

PROPS["C16"] = dict(
    rule="(A) BFS: 7 per-sample models (Gemm+Relu, MatMul+Add+Abs, Conv+Flatten, Transpose/Squeeze/Unsqueeze, GRU, LSTM, RNN along their "
         "batch axis) x every batch drawn from a pool of 3 samples of size 1..3 (sub-selections, permutations, repeats): the batch and "
         "then each sample alone are run on one real Model and every output is compared exactly with RunSem; TLC also checks the "
         "specification's BatchIndependent theorem on every batch. (B) trace validation: the repository's sample models mlp, gru, ndm, "
         "scaler are run on random batches (size 1..4), every sample alone, a permutation and a sub-selection with a repeated sample; "
         "Trace_Batch.tla accepts the recorded trace only if every row agrees with the row of the same sample in the batch run; the generated "
         "model pruned_dense (Gemm transB=1 / MatMul / Gemm against weights with exact zeros) gets samples with +Inf, -Inf, NaN and exactly "
         "zero features and every result's CLASS (finite value, +Inf, -Inf, NaN) must be the same in every batch composition; "
         "non-trivial = every batch / every recorded event",
    assumptions=["sample-model values are not recomputed (relational check, tolerance 2 + |v|/2^15 in units of 2^-16)"],
    stages=lambda tier: [
        mc("batch-exact", "MC_C16.tla", "MC_C16_%s.cfg" % tier, min_cases=250, workers=8),
        trace("sample-models-batch-relation", ["batch", "-n", "15" if tier == "quick" else "120"], "Trace_Batch.tla", "Trace_Batch.cfg", java="-Xss1024m"),
    ],
)

PROPS["C17"] = dict(
    rule="(S) TLC on Interp with 2 Runs in flight whose node life cycles (Gather/Apply/Bind) interleave freely: NoConflict, weights and "
         "caller tensors immutable (action property), ConcurrentEqualsSequential; with the as-is effect summaries TLC must produce the "
         "racing schedule (anti-vacuity). (A) every node-granular interleaving of 2 Runs (own inputs, different batch sizes) over 5 "
         "models covering every operator family that reads weights or attribute tensors (Conv bias, GRU/LSTM/RNN initial state, "
         "Scaler, LinearRegressor, Constant, Gemm), each also in the variant where adjacent nodes of different Runs execute at the same "
         "time, forced on real goroutines through the blocking spy operator while a third goroutine keeps loading models; every "
         "schedule is executed twice: normally (outputs vs spec, snapshots of inputs and weights) and under the Go race detector. "
         "(B) free-running stress: 2..16 goroutines on the sample models under the race detector, recorded and validated against "
         "Trace_Conc.tla; non-trivial = every schedule / every recorded Run",
    assumptions=["interleavings are exhaustive at node granularity only; below that the race detector observes the executed schedules",
                 "the Run a spy call belongs to is identified by its goroutine id"],
    stages=lambda tier: [
        mc("schedules", "MC_C17.tla", "MC_C17_sched.cfg", min_cases=100, workers=4),
        mc("schedules-race-detector", "MC_C17.tla", "MC_C17_sched.cfg", min_cases=100, workers=4, race=True),
        design("fine-grained-interleavings", "MC_C17.tla", "MC_C17_fine.cfg", workers=4, note="NoConflict, ConcurrentEqualsSequential, immutability under every interleaving of the node life cycle"),
        design("asis-effects-antivacuity", "MC_C17.tla", "MC_C17_asis.cfg", expect_rc=[12, 13], workers=2, note="with in-place effects TLC must find the racing schedule"),
        trace("free-running-stress-race-detector", ["conc", "-n", "12" if tier == "quick" else "60"], "Trace_Conc.tla", "Trace_Conc.cfg", race=True, confirm=3),
        trace("hot-loop-stress-generated-models", ["conc", "-mode", "hot", "-n", "12" if tier == "quick" else "60"], "Trace_Conc.tla", "Trace_Conc.cfg", confirm=3),
    ] + ([mc("schedules-3-runs", "MC_C17.tla", "MC_C17_sched3.cfg", min_cases=1000, workers=8, timeout=3000)] if tier == "thorough" else []),
)

PROPS["C18"] = dict(
    rule="BFS over the structured space: 14 opset import lists (empty, 13, 12, 14, 21, 0, negative, ml-domain entries, mixtures) x graph "
         "present / absent; 9 kinds of initializer (good, short, long, ragged payload, negative dims, unsupported type, huge dims, ...); "
         "each with its exact expected outcome (ok / error / unsupported-opset error) and each additionally perturbed by the harness "
         "(truncation at every offset, every byte set to 00 / FF / 80: ok or error, never a panic); Run on chains of 1..3 nodes with 9 "
         "unregistered operator types at every position, also directly after a multi-output node (unsupported-operator error); the "
         "repository's 6 sample files (two are not models) with the same perturbation sweeps; seeded random byte strings; non-trivial "
         "= every structured case",
    assumptions=["byte-level perturbations are a sweep whose only oracle is 'no panic'; the structured space and the error classes come from the specification"],
    stages=lambda tier: [mc("load", "MC_C18.tla", "MC_C18_%s.cfg" % tier, min_cases=150, workers=4,
                            constants=dict(Seed=str(__import__("os").environ.get("VERIF_SEED", "1") or "1")))],
)
