-------------------------------- MODULE Gate --------------------------------
(***************************************************************************)
(* The input gate of an operator (ops.ValidateInputs, C15):                *)
(*   count check -> padding with absent inputs to the maximum ->           *)
(*   per-position dtype check; Concat (variadic) and PRelu (equal dtypes)  *)
(*   layer their own rule on top.                                          *)
(* The gate is specified relative to the operator's declared table entry   *)
(* e = [name, min, max, cons] (cons[i] = tuple of dtypes allowed at i).    *)
(***************************************************************************)
EXTENDS Attrs

GateTypes == AllDTypes \cup {"int"}          \* the 14 ONNX-mapped types plus gorgonia's native int

Allowed(e, i, dt) == \E j \in 1..Len(e.cons[i]) : e.cons[i][j] = dt
CountOK(e, n) == IF e.min = e.max THEN n = e.min ELSE n >= e.min /\ n <= e.max

\* result: [expect |-> "accept" | "error" | "nocrash", padded |-> length of the list handed to Apply, errc |-> classes]
GateOutcome(e, dts) ==
   LET n == Len(dts) IN
   IF e.name = "Concat"
   THEN (IF n < 1 THEN [expect |-> "error", padded |-> 0, errc |-> <<"Input">>]
         ELSE IF \E i \in 1..n : dts[i] # "nil" /\ dts[i] \notin AllDTypes THEN [expect |-> "error", padded |-> 0, errc |-> <<"Input">>]
         ELSE [expect |-> "accept", padded |-> n, errc |-> <<>>])
   ELSE IF ~CountOK(e, n) THEN [expect |-> "error", padded |-> 0, errc |-> <<"Input">>]
   ELSE IF \E i \in 1..n : dts[i] # "nil" /\ i > Len(e.cons) THEN [expect |-> "nocrash", padded |-> 0, errc |-> <<>>]   \* ill-formed table
   ELSE IF \E i \in 1..n : dts[i] # "nil" /\ ~Allowed(e, i, dts[i]) THEN [expect |-> "error", padded |-> 0, errc |-> <<"Input">>]
   ELSE IF e.name = "PRelu" /\ dts[1] # dts[2] THEN [expect |-> "error", padded |-> 0, errc |-> <<>>]
   ELSE [expect |-> "accept", padded |-> e.max, errc |-> <<>>]

\* well-formedness of a declared entry: the gate can index every position it may be asked to check
WellFormed(e) == e.name = "Concat" \/ (e.min >= 0 /\ e.min <= e.max /\ Len(e.cons) >= e.max /\ \A i \in 1..Len(e.cons) : Len(e.cons[i]) >= 1)
=============================================================================
