------------------------------ MODULE Trace_Ops ------------------------------
(***************************************************************************)
(* Direction B for the operator-level properties (C03..C10, C14):           *)
(* `harness record ops` executes randomly generated operator         *)
(* invocations - shapes beyond the exhaustive bounds of the generators,    *)
(* random attributes, invalid requests as well - against the real          *)
(* operators and logs one event per invocation: operator, attributes,      *)
(* input tensors, and the observed outcome.  This specification recomputes *)
(* the outcome the ONNX definition allows for every event with the         *)
(* operator modules (OpSem.NodeSem) and accepts the trace only if every    *)
(* event is explained by it.  An event explained only by the defect model  *)
(* of an open finding is counted under that finding's id.                  *)
(* Events: [ev, op, attrs, inputs, nout, kind, outs, changed, note];       *)
(* output elements are logged as strings so that an element outside the    *)
(* integers is a mismatch, never a TLC type error.                         *)
(***************************************************************************)
EXTENDS OpSem, Json, TLC

Trace == ndJsonDeserialize("trace.ndjson")
VARIABLES l
Ev == Trace[l]

Str(t) == [dt |-> t.dt, shape |-> t.shape, data |-> [k \in 1..Len(t.data) |-> ToString(t.data[k])]]
\* the operator may return further trailing outputs; absent expected outputs are not compared
ValueMatches(vals, outs) == Len(outs) >= Len(vals) /\ \A i \in 1..Len(vals) : IsNil(vals[i]) \/ Str(vals[i]) = outs[i]

Explained(e, a) ==
   /\ ~e.changed                                           \* no operator may modify the tensors it is given
   /\ CASE a.must = "value"          -> e.kind = "value" /\ ValueMatches(a.value, e.outs)
        [] a.must = "error"          -> e.kind = "error"
        [] a.must = "value_or_error" -> e.kind = "error" \/ (e.kind = "value" /\ ValueMatches(a.value, e.outs))
        [] a.must = "no_crash"       -> e.kind \in {"value", "error"}

\* the two broadcast helpers (C14) are recorded as pseudo-operators returning both operands
HelperOps == {"MultidirectionalBroadcast", "UnidirectionalBroadcast"}
HelperSem(op, A, B) ==
   IF op = "MultidirectionalBroadcast"
   THEN (IF BCompat(A.shape, B.shape) THEN LET s == BShape(A.shape, B.shape) IN MustValue(<<BroadcastTo(A, s), BroadcastTo(B, s)>>) ELSE MustError)
   ELSE (IF UCompat(A.shape, B.shape) THEN MustValue(<<A, BroadcastTo(B, A.shape)>>) ELSE MustError)
AllowedOf(e) == IF e.op \in HelperOps THEN HelperSem(e.op, e.inputs[1], e.inputs[2]) ELSE NodeSem(e.op, e.attrs, e.inputs, e.nout)

\* defect models of the open findings that concern these operators
KnownOf(e) ==
   CASE e.op = "MatMul" -> KnownMatMul(e.inputs[1], e.inputs[2])
     [] e.op = "Conv"   -> KnownConv(e.inputs[1], e.inputs[2], In_(e.inputs, 3), e.attrs)
     [] e.op = "Slice"  -> LET n == Len(e.inputs[2].data)
                               axes == IF IsNil(In_(e.inputs, 4)) THEN [i \in 1..n |-> i - 1] ELSE e.inputs[4].data
                               steps == IF IsNil(In_(e.inputs, 5)) THEN [i \in 1..n |-> 1] ELSE e.inputs[5].data
                           IN KnownSlice(e.inputs[1], e.inputs[2].data, e.inputs[3].data, axes, steps)
     [] OTHER -> <<>>
MatchesKnown(e, k) ==
   ~e.changed /\ (IF k.out.kind = "value" THEN e.kind = "value" /\ ValueMatches(k.out.value, e.outs) ELSE e.kind = k.out.kind)

Init == l = 1
Step ==
   /\ l <= Len(Trace) /\ Ev.ev = "Op"
   /\ LET a == AllowedOf(Ev) IN
      \/ Explained(Ev, a)
      \/ /\ ~Explained(Ev, a)
         /\ \E i \in 1..Len(KnownOf(Ev)) : MatchesKnown(Ev, KnownOf(Ev)[i]) /\ PrintT(<<"KNOWN", KnownOf(Ev)[i].id>>)
   /\ l' = l + 1
Spec == Init /\ [][Step]_l
Post == PrintT(<<"TRACE", TLCGet("stats").diameter - 1, Len(Trace)>>)
=============================================================================
