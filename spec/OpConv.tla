------------------------------- MODULE OpConv -------------------------------
(***************************************************************************)
(* Conv, 1-D and 2-D, group 1 (C05): ONNX output-shape formula, auto_pad   *)
(* rules, and the direct-sum definition over zero-padded input.            *)
(* Element convention: plain integers (ids), exact.                        *)
(***************************************************************************)
EXTENDS OpLinear

\* spatial helpers: nsp = number of spatial axes (1 or 2)
KEff(k, d) == (k - 1) * d + 1
\* auto_pad -> (begin, end) padding of one axis
SamePads(in, k, s, d, upper) ==
   LET out == CeilDiv(in, s)
       total == MaxI(0, (out - 1) * s + KEff(k, d) - in)
       b == IF upper THEN total \div 2 ELSE CeilDiv(total, 2)
   IN <<b, total - b>>
\* pads attribute layout: <<b1, ..., bn, e1, ..., en>>
PadsOf(attrs, inSp, kSp, strides, dils) ==
   LET n == Len(inSp) ap == AttrV(attrs, "auto_pad", "NOTSET") IN
   CASE ap = "NOTSET" -> AttrV(attrs, "pads", [i \in 1..(2 * n) |-> 0])
     [] ap = "VALID"  -> [i \in 1..(2 * n) |-> 0]
     [] ap = "SAME_UPPER" -> [i \in 1..(2 * n) |-> IF i <= n THEN SamePads(inSp[i], kSp[i], strides[i], dils[i], TRUE)[1]
                                                    ELSE SamePads(inSp[i - n], kSp[i - n], strides[i - n], dils[i - n], TRUE)[2]]
     [] ap = "SAME_LOWER" -> [i \in 1..(2 * n) |-> IF i <= n THEN SamePads(inSp[i], kSp[i], strides[i], dils[i], FALSE)[1]
                                                    ELSE SamePads(inSp[i - n], kSp[i - n], strides[i - n], dils[i - n], FALSE)[2]]
OutExt(in, k, s, d, pb, pe) == ((in + pb + pe - KEff(k, d)) \div s) + 1

ConvWellFormed(X, W, B, attrs) ==
   LET r == Len(X.shape) IN
   /\ r \in {3, 4} /\ Len(W.shape) = r
   /\ W.shape[2] = X.shape[2]                       \* group 1: channels agree
   /\ (IsNil(B) \/ (Len(B.shape) = 1 /\ B.shape[1] = W.shape[1]))
   /\ AttrV(attrs, "auto_pad", "NOTSET") \in {"NOTSET", "VALID", "SAME_UPPER", "SAME_LOWER"}
   /\ Len(AttrV(attrs, "strides", [i \in 1..(r - 2) |-> 1])) = r - 2
   /\ Len(AttrV(attrs, "dilations", [i \in 1..(r - 2) |-> 1])) = r - 2
   /\ Len(AttrV(attrs, "pads", [i \in 1..(2 * (r - 2)) |-> 0])) = 2 * (r - 2)
   /\ (HasAttr(attrs, "kernel_shape") => AttrV(attrs, "kernel_shape", <<>>) = Drop(W.shape, 2))

XAt(X, nn, c, p) ==       \* zero-padded read: p is the spatial position (may lie outside)
   IF \A i \in 1..Len(p) : p[i] >= 0 /\ p[i] < X.shape[2 + i] THEN At(X, <<nn, c>> \o p) ELSE 0

ConvGeometry(X, W, attrs) ==
   LET n == Len(X.shape) - 2
       inSp == Drop(X.shape, 2) kSp == Drop(W.shape, 2)
       strides == AttrV(attrs, "strides", [i \in 1..n |-> 1])
       dils == AttrV(attrs, "dilations", [i \in 1..n |-> 1])
       pads == PadsOf(attrs, inSp, kSp, strides, dils)
   IN [n |-> n, inSp |-> inSp, kSp |-> kSp, strides |-> strides, dils |-> dils, pads |-> pads,
       oSp |-> [i \in 1..n |-> OutExt(inSp[i], kSp[i], strides[i], dils[i], pads[i], pads[i + n])]]

ConvValue(X, W, B, attrs) ==
   LET g == ConvGeometry(X, W, attrs)
       oshape == <<X.shape[1], W.shape[1]>> \o g.oSp
       C == X.shape[2]
       Bias(m) == IF IsNil(B) THEN 0 ELSE B.data[m + 1]
   IN IF g.n = 1
      THEN Mk(X.dt, oshape, LAMBDA idx :
              Bias(idx[2]) + SumF(LAMBDA c : SumF(LAMBDA k :
                 At(W, <<idx[2], c, k>>) * XAt(X, idx[1], c, <<idx[3] * g.strides[1] + k * g.dils[1] - g.pads[1]>>),
                 0, g.kSp[1] - 1), 0, C - 1))
      ELSE Mk(X.dt, oshape, LAMBDA idx :
              Bias(idx[2]) + SumF(LAMBDA c : SumF(LAMBDA kh : SumF(LAMBDA kw :
                 At(W, <<idx[2], c, kh, kw>>) * XAt(X, idx[1], c, <<idx[3] * g.strides[1] + kh * g.dils[1] - g.pads[1],
                                                                   idx[4] * g.strides[2] + kw * g.dils[2] - g.pads[2]>>),
                 0, g.kSp[2] - 1), 0, g.kSp[1] - 1), 0, C - 1))

\* the same sum in IEEE arithmetic over the value classes of Values.tla (infinities, NaN, signed zero): every weight takes part
\* in the sum, so a zero weight under an infinite or NaN input element yields NaN
\* (image elements are value records, weights and bias small integers)
XAtF(X, nn, c, p) == IF \A i \in 1..Len(p) : p[i] >= 0 /\ p[i] < X.shape[2 + i] THEN At(X, <<nn, c>> \o p) ELSE Fin(0)
RECURSIVE FSumF(_, _, _)
FSumF(F(_), lo, hi) == IF lo > hi THEN Fin(0) ELSE IF lo = hi THEN FAdd(F(lo), Fin(0))
                       ELSE LET mid == (lo + hi) \div 2 IN FAdd(FSumF(F, lo, mid), FSumF(F, mid + 1, hi))
ConvValueF(X, W, B, attrs) ==
   LET g == ConvGeometry(X, W, attrs)
       oshape == <<X.shape[1], W.shape[1]>> \o g.oSp
       C == X.shape[2]
       Bias(m) == IF IsNil(B) THEN Fin(0) ELSE Fin(B.data[m + 1])
   IN IF g.n = 1
      THEN Mk(X.dt, oshape, LAMBDA idx :
              FAdd(Bias(idx[2]), FSumF(LAMBDA c : FSumF(LAMBDA k :
                 FMul(Fin(At(W, <<idx[2], c, k>>)), XAtF(X, idx[1], c, <<idx[3] * g.strides[1] + k * g.dils[1] - g.pads[1]>>)),
                 0, g.kSp[1] - 1), 0, C - 1)))
      ELSE Mk(X.dt, oshape, LAMBDA idx :
              FAdd(Bias(idx[2]), FSumF(LAMBDA c : FSumF(LAMBDA kh : FSumF(LAMBDA kw :
                 FMul(Fin(At(W, <<idx[2], c, kh, kw>>)), XAtF(X, idx[1], c, <<idx[3] * g.strides[1] + kh * g.dils[1] - g.pads[1],
                                                                           idx[4] * g.strides[2] + kw * g.dils[2] - g.pads[2]>>)),
                 0, g.kSp[2] - 1), 0, g.kSp[1] - 1), 0, C - 1)))

\* KF-C05-dilation-gap-nonfinite (defect model): the code dilates the kernel by inserting explicit zero weights and multiplies
\* them with the image elements under the gaps, so a non-finite element that no tap touches still turns the sum into NaN
Dilated(W, dils) ==
   LET n == Len(W.shape) - 2 IN
   Mk(W.dt, <<W.shape[1], W.shape[2]>> \o [i \in 1..n |-> (W.shape[2 + i] - 1) * dils[i] + 1], LAMBDA idx :
        IF \A i \in 1..n : idx[2 + i] % dils[i] = 0 THEN At(W, <<idx[1], idx[2]>> \o [i \in 1..n |-> idx[2 + i] \div dils[i]]) ELSE 0)
KnownConvF(X, W, B, attrs) ==
   LET n == Len(W.shape) - 2
       dils == AttrV(attrs, "dilations", [i \in 1..n |-> 1])
       undil == SelectSeq(attrs, LAMBDA a : a.name \notin {"dilations", "kernel_shape"})
       asis == ConvValueF(X, Dilated(W, dils), B, undil) IN
   IF asis # ConvValueF(X, W, B, attrs) THEN <<Known("KF-C05-dilation-gap-nonfinite", "value", <<asis>>)>> ELSE <<>>

\* KF-C05-autopad-valid (defect model): auto_pad = VALID is padded like SAME_UPPER (pinned so by the repository's tests)
KnownConv(X, W, B, attrs) ==
   IF AttrV(attrs, "auto_pad", "NOTSET") = "VALID" /\ AttrV(attrs, "group", 1) = 1 /\ ConvWellFormed(X, W, B, attrs)
   THEN LET asis == [i \in 1..Len(attrs) |-> IF attrs[i].name = "auto_pad" THEN AS("auto_pad", "SAME_UPPER") ELSE attrs[i]]
            g == ConvGeometry(X, W, asis) IN
        IF (\A i \in 1..g.n : g.oSp[i] >= 1) /\ ConvValue(X, W, B, asis) # ConvValue(X, W, B, attrs)
        THEN <<Known("KF-C05-autopad-valid", "value", <<ConvValue(X, W, B, asis)>>)>> ELSE <<>>
   ELSE <<>>

SemConv(X, W, B, attrs) ==
   IF AttrV(attrs, "group", 1) # 1 THEN ValueOrError(<<>>)          \* generated only to be refused
   ELSE IF ~ConvWellFormed(X, W, B, attrs) THEN NoCrash
   ELSE LET g == ConvGeometry(X, W, attrs) IN
        IF \E i \in 1..g.n : g.oSp[i] < 1 THEN NoCrash
        \* the property speaks of float32 and float64; ONNX defines Conv for floating-point types only
        ELSE Weaken(X.dt \notin {"f32", "f64"}, MustValue(<<ConvValue(X, W, B, attrs)>>))
=============================================================================
