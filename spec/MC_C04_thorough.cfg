SPECIFICATION Spec
CONSTANTS
  Fams = {"matmul", "gemm", "linreg", "scaler"}
  MMRank = 4
  MMExt = 3
  MMRank5 = TRUE
  GemmFull = TRUE
INVARIANT Laws
CHECK_DEADLOCK FALSE
