SPECIFICATION Spec
CONSTANTS
  Fams = {"matmul", "gemm", "linreg", "scaler"}
  MMRank = 3
  MMExt = 3
  MMRank5 = FALSE
  GemmFull = FALSE
INVARIANT Laws
CHECK_DEADLOCK FALSE
