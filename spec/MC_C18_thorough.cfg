SPECIFICATION Spec
CONSTANTS
  Seed = 1
  RandomStrings = 50000
INVARIANT UnknownAlwaysRefused
CHECK_DEADLOCK FALSE
