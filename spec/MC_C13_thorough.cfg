SPECIFICATION Spec
CONSTANTS
  MaxInputs = 3
  MaxRank = 4
CHECK_DEADLOCK FALSE
