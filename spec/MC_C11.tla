------------------------------- MODULE MC_C11 -------------------------------
EXTENDS OpConst, OpElementwise, Json, TLC
CONSTANTS Fams, MaxRank, MaxExt
VARIABLES st
P(c) == PrintT(<<"CASE", ToJson(c)>>)
Tag(a) == IF a.must = "error" THEN "invalid" ELSE a.must
CaseRec(fam, op, attrs, inputs, allowed, feat) ==
   [prop |-> "C11", fam |-> fam, kind |-> "op", op |-> op, attrs |-> attrs, inputs |-> inputs, nout |-> 1,
    allowed |-> allowed, cmp |-> (IF op = "ConstantOfShape" THEN "num" ELSE "bits"), feat |-> feat, known |-> <<>>]

ProtoTypes == NumTypes \cup {"bool"}
\* small per-type element catalogue for attribute tensors
Elems(dt) == IF dt = "bool" THEN <<TRUE, FALSE, TRUE, TRUE, FALSE, FALSE>>
             ELSE IF dt \in FloatTypes THEN <<Fin(1), Rat(-5, 2), NZ, PInf, NaN, FMax>>
             ELSE IF dt \in SIntTypes THEN <<Fin(1), Fin(-2), IMinS, IMaxS, Fin(0), Fin(7)>>
             ELSE <<Fin(1), Fin(2), IMaxU, Sym(1, 0), Fin(0), Fin(7)>>
AttrT(dt, shape, enc) == [dt |-> dt, shape |-> shape, data |-> LowerT(T(dt, shape, [k \in 1..Size(shape) |-> Elems(dt)[((k - 1) % 6) + 1]])).data, enc |-> enc]

ConstantCases ==
   /\ \A dt \in ProtoTypes, enc \in {"raw", "typed"}, shape \in {<<>>, <<1>>, <<3>>, <<2, 3>>, <<1, 2, 1, 2>>} :
         LET attrs == <<AT("value", AttrT(dt, shape, enc))>> s == SemConstant(attrs) IN
         P([CaseRec("constant", "Constant", attrs, <<>>, s, <<Tag(s), "value", dt, enc>>) EXCEPT !.modes = <<"api", "run">>])
   /\ \A v \in {Fin(0), Rat(5, 2), Fin(-3), NZ, PInf, FMax} :
         LET attrs == <<AF("value_float", LowerE(v))>> s == SemConstant(<<AF("value_float", v)>>) IN
         P([CaseRec("constant", "Constant", attrs, <<>>, LowerA(s), <<Tag(s), "value_float">>) EXCEPT !.modes = <<"api", "run">>])
   /\ \A vs \in {<<Fin(1)>>, <<Rat(1, 2), Fin(-2), Fin(0)>>, <<Fin(4), Fin(5), Fin(6), Fin(7), NaN>>} :
         LET s == SemConstant(<<AFs("value_floats", vs)>>) IN
         P([CaseRec("constant", "Constant", <<AFs("value_floats", [i \in 1..Len(vs) |-> LowerE(vs[i])])>>, <<>>, LowerA(s), <<Tag(s), "value_floats">>) EXCEPT !.modes = <<"api", "run">>])
   /\ \A v \in {Fin(0), Fin(-7), IMaxS, IMinS} :
         LET s == SemConstant(<<AI("value_int", v)>>) IN
         P([CaseRec("constant", "Constant", <<AI("value_int", LowerE(v))>>, <<>>, LowerA(s), <<Tag(s), "value_int">>) EXCEPT !.modes = <<"api", "run">>])
   /\ \A vs \in {<<Fin(3)>>, <<Fin(1), Fin(-2), IMaxS>>, <<Fin(0), Fin(0), Fin(9), Fin(-9)>>} :
         LET s == SemConstant(<<AIs("value_ints", vs)>>) IN
         P([CaseRec("constant", "Constant", <<AIs("value_ints", [i \in 1..Len(vs) |-> LowerE(vs[i])])>>, <<>>, LowerA(s), <<Tag(s), "value_ints">>) EXCEPT !.modes = <<"api", "run">>])
   /\ \A bad \in {<<>>, <<AI("value_int", 1), AF("value_float", 2)>>, <<AS("value_string", "x")>>, <<ASs("value_strings", <<"a", "b">>)>>,
                  <<AI("sparse_value", 1)>>, <<AI("valu", 1)>>, <<AI("axis", 1)>>} :
         P([CaseRec("constant", "Constant", bad, <<>>, SemConstant(bad), <<"invalid", "refused_form">>) EXCEPT !.modes = <<"api", "run">>])

I64(seq) == T("i64", <<Len(seq)>>, seq)
CosCases(shape) ==
   /\ P(CaseRec("cos", "ConstantOfShape", <<>>, <<I64(shape)>>, LowerA(SemConstantOfShape(I64(shape), <<>>)), <<"value", "default_value">>))
   /\ (shape = <<1>> => LET VV == [dt |-> "i32", shape |-> <<1>>, data |-> <<-7>>] IN
          \A shp \in {<<40003>>, <<20001, 2>>} : P(CaseRec("cos", "ConstantOfShape", <<AT("value", VV)>>, <<I64(shp)>>, SemConstantOfShape(I64(shp), <<AT("value", VV)>>), <<"value", "long">>)))
   \* the one-element value may be declared with any rank: (1,1), (1,1,1), and rank 0
   /\ (shape \in {<<2>>, <<2, 3>>} => \A dt \in {"f32", "i64", "bool"}, enc \in {"raw", "typed"}, vs \in {<<1, 1>>, <<1, 1, 1>>, <<>>} :
          LET VV == AttrT(dt, vs, enc) s == SemConstantOfShape(I64(shape), <<AT("value", VV)>>) IN
          P(CaseRec("cos", "ConstantOfShape", <<AT("value", VV)>>, <<I64(shape)>>, s, <<Tag(s), dt, enc, "value_rank" \o ToString(Len(vs))>>)))
   /\ \A dt \in ProtoTypes, enc \in {"raw", "typed"}, k \in {2, 3} :
         LET V == AttrT(dt, <<1>>, enc) VV == [V EXCEPT !.data = <<AttrT(dt, <<3>>, enc).data[k]>>]
             s == SemConstantOfShape(I64(shape), <<AT("value", VV)>>) IN
         P(CaseRec("cos", "ConstantOfShape", <<AT("value", VV)>>, <<I64(shape)>>, s, <<Tag(s), dt, enc>>))
CosInvalid ==
   /\ \A shp \in {<<2, 0>>, <<0>>, <<2, -1>>, <<-3>>} :
         P(CaseRec("cos", "ConstantOfShape", <<>>, <<I64(shp)>>, SemConstantOfShape(I64(shp), <<>>), <<"nonpositive_dim">>))
   /\ LET V == AttrT("f32", <<2>>, "raw") IN
      P(CaseRec("cos", "ConstantOfShape", <<AT("value", V)>>, <<I64(<<2>>)>>, SemConstantOfShape(I64(<<2>>), <<AT("value", V)>>), <<"invalid", "value_two_elements">>))
   /\ P(CaseRec("cos", "ConstantOfShape", <<AI("valu", 1)>>, <<I64(<<2>>)>>, SemConstantOfShape(I64(<<2>>), <<AI("valu", 1)>>), <<"invalid", "wrong_attribute">>))
   /\ P(CaseRec("cos", "ConstantOfShape", <<>>, <<T("i64", <<0>>, <<>>)>>, SemConstantOfShape(T("i64", <<0>>, <<>>), <<>>), <<"empty_shape_tensor">>))

\* Cast: per (source, target) the catalogue values the source can hold and whose conversion is determined
CastCat == <<Fin(0), Fin(1), Fin(-1), Fin(2), Fin(7), Fin(-7), Fin(100), Fin(127), Fin(128), Fin(-128), Fin(-129), Fin(255), Fin(256),
             Fin(32767), Fin(-32768), Fin(65535), Fin(65536), Rat(11, 4), Rat(-11, 4), Rat(1, 2), Rat(-1, 2), Rat(255, 2), NaN, PInf, NInf, NZ>>
CastVals(from, to) == SelectSeq(CastCat, LAMBDA x : Holds(from, x) /\ CastDefined(to, x)
                                   /\ (from \in FloatTypes \/ x.d = 1) /\ ~(x.c = "nz" /\ to \notin FloatTypes))
CastCases(from, to) ==
   LET vals == CastVals(from, to) IN
   /\ LET X == Vec(from, vals) s == SemCast(X, to) IN
      P(CaseRec("cast", "Cast", <<AI("to", OnnxCode(to))>>, <<LowerT(X)>>, LowerA(s), <<Tag(s), from \o "->" \o to>>))
   /\ LET X == T(from, <<>>, <<vals[2]>>) s == SemCast(X, to) IN
      P(CaseRec("cast", "Cast", <<AI("to", OnnxCode(to))>>, <<LowerT(X)>>, LowerA(s), <<Tag(s), "scalar">>))
   /\ LET X == T(from, <<2, 1, 2>>, <<vals[1], vals[2], vals[3], vals[4]>>) s == SemCast(X, to) IN
      P(CaseRec("cast", "Cast", <<AI("to", OnnxCode(to))>>, <<LowerT(X)>>, LowerA(s), <<Tag(s), "rank3">>))
\* tiling law (Outcome.tla): the whole catalogue of a (source, target) pair as a vector, repeated beyond a million elements by the harness
TileCast(from, to) ==
   LET X == Vec(from, CastVals(from, to)) s == SemCast(X, to) IN
   TileLaw(LAMBDA ins : SemCast(ins[1], to), <<X>>, {1}) =>
      P(CaseRec("cast", "Cast", <<AI("to", OnnxCode(to))>>, <<LowerT(X)>>, LowerA(s), <<Tag(s), "tile_law", from \o "->" \o to>>) @@ [tile |-> TileField({1})])
\* float values in the upper half of the unsigned 64-bit range: 2^63 is exact in float32 and float64 and fits a uint64 (its top bit)
Pow2F32(e) == [c |-> "ord", n |-> (e + 127) * 8388608, d |-> 1]
UpperHalfCastCases ==
   /\ LET X == T("f32", <<3>>, <<Pow2F32(63), Pow2F32(20), Fin(7)>>) IN
      P(CaseRec("cast", "Cast", <<AI("to", OnnxCode("u64"))>>, <<X>>, ValueOrError(<<T("u64", <<3>>, <<Sym(1, 0), Fin(1048576), Fin(7)>>)>>), <<"value_or_error", "upper_half_u64", "f32->u64">>))
   /\ LET X == T("f64", <<2>>, <<<<0, 0, 0, 0, 0, 0, 224, 67>>, <<0, 0, 0, 0, 0, 0, 28, 64>>>>) IN      \* 2^63 and 7.0 as float64 byte images
      P(CaseRec("cast", "Cast", <<AI("to", OnnxCode("u64"))>>, <<X>>, ValueOrError(<<T("u64", <<2>>, <<Sym(1, 0), Fin(7)>>)>>), <<"value_or_error", "upper_half_u64", "f64->u64">>))
   \* 1.5 * 2^63 = 0xC000000000000000 (beyond the signed range, so a detour through int64 cannot produce it)
   /\ LET X == T("f32", <<2>>, <<[c |-> "ord", n |-> 190 * 8388608 + 4194304, d |-> 1], Fin(7)>>) IN
      P(CaseRec("cast", "Cast", <<AI("to", OnnxCode("u64"))>>, <<X>>, ValueOrError(<<T("u64", <<2>>, <<<<0, 0, 0, 0, 0, 0, 0, 192>>, <<7, 0, 0, 0, 0, 0, 0, 0>>>>)>>), <<"value_or_error", "upper_half_u64", "f32->u64">>))
   /\ LET X == T("f64", <<2>>, <<<<0, 0, 0, 0, 0, 0, 232, 67>>, <<0, 0, 0, 0, 0, 0, 28, 64>>>>) IN
      P(CaseRec("cast", "Cast", <<AI("to", OnnxCode("u64"))>>, <<X>>, ValueOrError(<<T("u64", <<2>>, <<<<0, 0, 0, 0, 0, 0, 0, 192>>, <<7, 0, 0, 0, 0, 0, 0, 0>>>>)>>), <<"value_or_error", "upper_half_u64", "f64->u64">>))
   /\ LET X == T("f32", <<>>, <<Pow2F32(63)>>) IN
      P(CaseRec("cast", "Cast", <<AI("to", OnnxCode("u64"))>>, <<X>>, ValueOrError(<<T("u64", <<>>, <<Sym(1, 0)>>)>>), <<"value_or_error", "upper_half_u64", "scalar">>))
   /\ LET X == T("f32", <<2>>, <<Pow2F32(31), Fin(3)>>) IN                                              \* 2^31: the top bit of a uint32
      P(CaseRec("cast", "Cast", <<AI("to", OnnxCode("u32"))>>, <<X>>, ValueOrError(<<T("u32", <<2>>, <<Sym(1, 0), Fin(3)>>)>>), <<"value_or_error", "upper_half_u32", "f32->u32">>))
\* 64-bit integers beyond the 53-bit mantissa of a float64, as little-endian byte images: 2^53+1, 2^62+3, 2^63-1, 2^53, 2^54+2^30+1.
\* Between the two 64-bit integer types a value both can hold keeps its bit pattern exactly.
WideInts == <<<<1, 0, 0, 0, 0, 0, 32, 0>>, <<3, 0, 0, 0, 0, 0, 0, 64>>, <<255, 255, 255, 255, 255, 255, 255, 127>>, <<0, 0, 0, 0, 0, 0, 32, 0>>,
              <<1, 0, 0, 64, 0, 0, 64, 0>>>>
WideCastCases(from, to) ==
   /\ LET X == T(from, <<Len(WideInts)>>, WideInts) IN
      P(CaseRec("cast", "Cast", <<AI("to", OnnxCode(to))>>, <<X>>, MustValue(<<T(to, X.shape, X.data)>>), <<"value", "wide_integers", from \o "->" \o to>>))
   /\ LET X == T(from, <<>>, <<WideInts[2]>>) IN
      P(CaseRec("cast", "Cast", <<AI("to", OnnxCode(to))>>, <<X>>, MustValue(<<T(to, X.shape, X.data)>>), <<"value", "wide_integers", "scalar">>))
\* a long tensor (conversions that are split into blocks): 2 x 20001 elements, the tail non-zero
LongCast(from, to) ==
   LET X == T(from, <<2, 20001>>, [k \in 1..40002 |-> Fin((k % 7) + 1)]) s == SemCast(X, to) IN
   P(CaseRec("cast", "Cast", <<AI("to", OnnxCode(to))>>, <<LowerT(X)>>, LowerA(s), <<Tag(s), "long_tensor", from \o "->" \o to>>))
\* floats strictly between -1 and 0 truncate to 0, which every unsigned type holds: in range, so the conversion is determined
NegFractionToUnsigned ==
   \A from \in {"f32", "f64"}, to \in {"u8", "u16", "u32", "u64"} :
      /\ LET X == T(from, <<2, 2>>, <<Rat(-1, 2), Fin(3), Rat(-1, 4), Rat(-3, 4)>>) IN
         P(CaseRec("cast", "Cast", <<AI("to", OnnxCode(to))>>, <<X>>, MustValue(<<T(to, <<2, 2>>, <<Fin(0), Fin(3), Fin(0), Fin(0)>>)>>), <<"value", "negative_fraction_to_unsigned", from \o "->" \o to>>))
      /\ LET X == T(from, <<>>, <<Rat(-1, 2)>>) IN
         P(CaseRec("cast", "Cast", <<AI("to", OnnxCode(to))>>, <<X>>, MustValue(<<T(to, <<>>, <<Fin(0)>>)>>), <<"value", "negative_fraction_to_unsigned", "scalar">>))
CastInvalid(from) ==
   \A to \in {"bool", "string", "f16", "c64", "c128", "bf16", "undefined"} :
      LET X == Vec(from, <<Fin(1), Fin(0)>>) IN
      /\ P(CaseRec("cast", "Cast", <<AI("to", OnnxCode(to))>>, <<LowerT(X)>>, SemCast(X, to), <<"invalid", "unsupported_target">>))
      \* the same refusal for a rank-0 and a rank-3 operand (a refused request leaves nothing behind: the cases that run after it in the
      \* same process - all of them - are the witnesses)
      /\ LET X0 == T(from, <<>>, <<Fin(1)>>) IN
         P(CaseRec("cast", "Cast", <<AI("to", OnnxCode(to))>>, <<LowerT(X0)>>, SemCast(X0, to), <<"invalid", "unsupported_target", "scalar">>))
      /\ LET X3 == T(from, <<1, 2, 1>>, <<Fin(1), Fin(0)>>) IN
         P(CaseRec("cast", "Cast", <<AI("to", OnnxCode(to))>>, <<LowerT(X3)>>, SemCast(X3, to), <<"invalid", "unsupported_target", "rank3">>))

Init ==
   \/ ("constant" \in Fams /\ st = [fam |-> "constant", done |-> FALSE])
   \/ ("cos" \in Fams /\ st \in [fam : {"cos"}, shape : ShapesOf(1..MaxRank, 1..MaxExt), done : {FALSE}])
   \/ ("cos" \in Fams /\ st = [fam |-> "cosinvalid", done |-> FALSE])
   \/ ("cast" \in Fams /\ st \in [fam : {"cast"}, from : NumTypes, to : NumTypes, done : {FALSE}])
   \/ ("cast" \in Fams /\ st \in [fam : {"castinvalid"}, from : NumTypes, done : {FALSE}])
Emit ==
   /\ ~st.done
   /\ CASE st.fam = "constant" -> ConstantCases
        [] st.fam = "cos" -> CosCases(st.shape)
        [] st.fam = "cosinvalid" -> CosInvalid
        [] st.fam = "cast" -> CastCases(st.from, st.to) /\ (st.from = "i64" /\ st.to = "i64" => WideCastCases("i64", "i64") /\ UpperHalfCastCases /\ NegFractionToUnsigned)
                               /\ (<<st.from, st.to>> \in {<<"f32", "i64">>, <<"i64", "f32">>, <<"f32", "f64">>, <<"i32", "f32">>} => LongCast(st.from, st.to))
                               /\ (st.from \in {"f32", "i64", "u8", "f64"} /\ st.to \in {"f32", "i64", "i32", "u8"} => TileCast(st.from, st.to))
        [] st.fam = "castinvalid" -> CastInvalid(st.from)
   /\ st' = [st EXCEPT !.done = TRUE]
Next == Emit
Spec == Init /\ [][Next]_st
=============================================================================
