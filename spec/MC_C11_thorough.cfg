SPECIFICATION Spec
CONSTANTS
  Fams = {"constant", "cos", "cast"}
  MaxRank = 4
  MaxExt = 3
CHECK_DEADLOCK FALSE
