SPECIFICATION Spec
CONSTANTS
  MaxNodes = 2
  FinishAtMax = FALSE
  TplFilter = "all"
  Supplied = TRUE
INVARIANTS WellFormed StagedEqualsRunSem
CHECK_DEADLOCK FALSE
