SPECIFICATION Spec
CONSTANTS
  Fams = {"reshape", "flatten", "squeeze", "unsqueeze", "shape", "dtypes"}
  MaxRank = 4
  MaxExt = 3
  Rank5 = FALSE
  ReshapeRank = 3
  ReshapeLen = 3
  AxesLen = 3
INVARIANT Laws
CHECK_DEADLOCK FALSE
