------------------------------- MODULE MC_C09 -------------------------------
EXTENDS OpReduce, Json, TLC
CONSTANTS Fams, MaxRank, MaxExt, LongShapes
VARIABLES st
P(c) == PrintT(<<"CASE", ToJson(c)>>)
Tag(a) == IF a.must = "error" THEN "invalid" ELSE a.must
CaseRec(fam, op, attrs, inputs, allowed, feat) ==
   [prop |-> "C09", fam |-> fam, kind |-> "op", op |-> op, attrs |-> attrs, inputs |-> inputs, nout |-> 1,
    allowed |-> allowed, cmp |-> "num", feat |-> feat, known |-> <<>>]
Shapes == ShapesOf(1..MaxRank, 1..MaxExt)
\* data with ties (so that first occurrence matters) and distinct data
Ties(dt, shape) == T(dt, shape, [k \in 1..Size(shape) |-> ((k * 7 + 3) % 5) - 2])
Dist(dt, shape) == T(dt, shape, [k \in 1..Size(shape) |-> ((k * 11) % 37) - 9])
SubSeqs(S, n) == UNION {[1..k -> S] : k \in 1..n}

ArgMaxCases(shape) ==
   LET r == Len(shape) IN
   \A axis \in (-r - 1)..r, kd \in {"dflt", "0", "1"} :
      LET attrs == (IF axis = 0 /\ kd = "dflt" THEN <<>> ELSE <<AI("axis", axis)>>) \o (IF kd = "dflt" THEN <<>> ELSE <<AI("keepdims", IF kd = "1" THEN 1 ELSE 0)>>)
          X == Ties("f32", shape) s == SemArgMax(X, attrs)
      IN /\ P(CaseRec("argmax", "ArgMax", attrs, <<X>>, s, <<Tag(s), "keepdims_" \o kd>> \o (IF axis < 0 THEN <<"negative_axis">> ELSE <<>>)))
         \* the default value of select_last_index spelled out, before the other attributes (attribute order carries no meaning)
         /\ (Len(attrs) >= 1 => LET a0 == <<AI("select_last_index", 0)>> \o attrs IN
                P(CaseRec("argmax", "ArgMax", a0, <<X>>, SemArgMax(X, a0), <<Tag(s), "select_last_index_0_first">>)))
ArgMaxDt(shape) ==
   \A dt \in {"f64", "i32", "i64", "u32", "u64"} :
      LET X == T(dt, shape, [k \in 1..Size(shape) |-> (k * 7 + 3) % 5]) attrs == <<AI("axis", -1), AI("keepdims", 0)>> s == SemArgMax(X, attrs) IN
      /\ P(CaseRec("argmax", "ArgMax", attrs, <<X>>, s, <<Tag(s), dt>>))
      /\ (dt = "f64" => LET a2 == <<AI("axis", 0), AI("select_last_index", 1)>> IN P(CaseRec("argmax", "ArgMax", a2, <<X>>, SemArgMax(X, a2), <<"select_last_index">>)))

ReduceCases(op, shape) ==
   LET r == Len(shape) X == Dist("f32", shape) IN
   /\ \A kd \in {"dflt", "0", "1"} :
         LET attrs == IF kd = "dflt" THEN <<>> ELSE <<AI("keepdims", IF kd = "1" THEN 1 ELSE 0)>> s == SemReduce(op, X, attrs) IN
         P(CaseRec("reduce", op, attrs, <<X>>, s, <<Tag(s), "axes_absent", "keepdims_" \o kd>>))
   /\ \A axes \in SubSeqs((-r - 1)..r, 2) \cup {ax \in [1..3 -> (-r)..(r - 1)] : r >= 3 /\ ax[1] < ax[2] /\ ax[2] < ax[3] /\ ax[1] >= 0}, kd \in {"dflt", "0"} :
         LET attrs == <<AIs("axes", axes)>> \o (IF kd = "dflt" THEN <<>> ELSE <<AI("keepdims", 0)>>) s == SemReduce(op, X, attrs) IN
         P(CaseRec("reduce", op, attrs, <<X>>, s,
                   <<Tag(s), "keepdims_" \o kd, "naxes" \o ToString(Len(axes))>> \o (IF \E i \in 1..Len(axes) : axes[i] < 0 THEN <<"negative_axis">> ELSE <<>>)))
ReduceDt(op, shape) ==
   \A dt \in {"f64", "i32", "i64", "u32", "u64", "i8", "u8"} :
      LET X == T(dt, shape, [k \in 1..Size(shape) |-> (k * 11) % 37]) attrs == <<AIs("axes", <<-1>>), AI("keepdims", 0)>> s == SemReduce(op, X, attrs) IN
      P(CaseRec("reduce", op, attrs, <<X>>, s, <<Tag(s), dt>>))

\* softmax family: slices along axis a hold multiples of BIG, a different pattern per slice
SoftX3(dt, shape, a, m) ==
   Mk(dt, shape, LAMBDA idx : LET h == Ravel([idx EXCEPT ![a + 1] = 0], shape) IN BIG * (((idx[a + 1] + 1) * (h + 1) + h) % m) - BIG)
\* m = 4: every slice lives at its own magnitude (base -3*BIG, 0 or 3*BIG), values base and base+BIG
SoftX(dt, shape, a, m) ==
   IF m = 4
   THEN Mk(dt, shape, LAMBDA idx : LET h == Ravel([idx EXCEPT ![a + 1] = 0], shape) IN
                                    BIG * (3 * ((h + 1) % 3) - 3) + BIG * (((idx[a + 1] + 1) * (h + 2)) % 2))
   ELSE SoftX3(dt, shape, a, m)
SoftCases(op, shape) ==
   LET r == Len(shape) IN
   \A axis \in (-r - 1)..r, m \in {2, 3, 4} :
      LET a == IF AxisOK(axis, r) THEN NormAxis(axis, r) ELSE 0
          attrs == IF axis = -1 /\ m = 2 THEN <<>> ELSE <<AI("axis", axis)>> IN
      \A dt \in {"f32", "f64"} :
         LET X == SoftX(dt, shape, a, m) s == SemSoftmax(op, X, attrs) IN
         P([CaseRec("softmax", op, attrs, <<X>>, s, <<Tag(s), dt, "pattern" \o ToString(m)>> \o (IF axis < 0 THEN <<"negative_axis">> ELSE <<>>) \o (IF attrs = <<>> THEN <<"default_axis">> ELSE <<>>))
              EXCEPT !.known = KnownSoftmax(op, X, attrs)])
\* huge magnitudes: +-MaxFloat in one slice must give finite, non-NaN softmax
HugeCases(shape) ==
   LET r == Len(shape) IN
   \A a \in 0..(r - 1), dt \in {"f32", "f64"} :
      shape[a + 1] >= 2 =>
         LET X == Mk(dt, shape, LAMBDA idx : IF idx[a + 1] = 0 THEN FMax ELSE IF idx[a + 1] = 1 THEN NMax ELSE Fin(0))
             v == Mk(dt, shape, LAMBDA idx : IF idx[a + 1] = 0 THEN Fin(1) ELSE Fin(0))
         IN P(CaseRec("softmax", "Softmax", <<AI("axis", a)>>, <<X>>, MustValue(<<v>>), <<"value", "huge", dt>>))

\* extreme magnitudes: maxima, minima and first-occurrence indices depend on the order of the elements only, so the semantics is
\* evaluated on ranks -3..3 and carried over by the monotone map to -Inf < -MaxFloat < -1 < 0 < 1 < MaxFloat < +Inf
RankVal(r) == CASE r = -3 -> NInf [] r = -2 -> NMax [] r = -1 -> Fin(-1) [] r = 0 -> Fin(0) [] r = 1 -> Fin(1) [] r = 2 -> FMax [] r = 3 -> PInf
MapRank(t) == [t EXCEPT !.data = [k \in 1..Len(t.data) |-> RankVal(t.data[k])]]
OrderCases(shape) ==
   LET r == Len(shape) IN
   \A dt \in {"f32", "f64"}, off \in {0, 2, 5} :
      LET Xr == T(dt, shape, [k \in 1..Size(shape) |-> (((k + off) * 5) % 7) - 3]) IN
      /\ \A axis \in 0..(r - 1) :
            LET attrs == <<AI("axis", axis), AI("keepdims", 0)>> s == SemArgMax(Xr, attrs) IN
            P(CaseRec("order", "ArgMax", attrs, <<MapRank(Xr)>>, s, <<Tag(s), dt, "extreme_magnitudes">>))
      /\ \A op \in {"ReduceMax", "ReduceMin"}, axis \in 0..(r - 1) :
            LET attrs == <<AIs("axes", <<axis>>), AI("keepdims", 0)>> s == SemReduce(op, Xr, attrs) IN
            P(CaseRec("order", op, attrs, <<MapRank(Xr)>>, [s EXCEPT !.value = <<MapRank(s.value[1])>>], <<Tag(s), dt, "extreme_magnitudes">>))

\* the same for integers: MIN < MIN+1 < -1 < 0 < 1 < MAX-1 < MAX of the element type (neighbours at the ends of the 64-bit range are
\* one apart - an order decided through another number format would take them for equal)
RankValI(r) == CASE r = -3 -> IMinS [] r = -2 -> Sym(1, 1) [] r = -1 -> Fin(-1) [] r = 0 -> Fin(0) [] r = 1 -> Fin(1) [] r = 2 -> Sym(1, -2) [] r = 3 -> IMaxS
MapRankI(t) == [t EXCEPT !.data = [k \in 1..Len(t.data) |-> RankValI(t.data[k])]]
IntOrderCases(shape) ==
   LET r == Len(shape) IN
   \A dt \in {"i64", "i32"}, off \in {0, 2, 5} :
      LET Xr == T(dt, shape, [k \in 1..Size(shape) |-> (((k + off) * 5) % 7) - 3]) IN
      /\ \A axis \in 0..(r - 1) :
            LET attrs == <<AI("axis", axis), AI("keepdims", 0)>> s == SemArgMax(Xr, attrs) IN
            P(CaseRec("order", "ArgMax", attrs, <<MapRankI(Xr)>>, s, <<Tag(s), dt, "extreme_integers">>))
      /\ \A op \in {"ReduceMax", "ReduceMin"}, axis \in 0..(r - 1) :
            LET attrs == <<AIs("axes", <<axis>>), AI("keepdims", 0)>> s == SemReduce(op, Xr, attrs) IN
            P(CaseRec("order", op, attrs, <<MapRankI(Xr)>>, [s EXCEPT !.value = <<MapRankI(s.value[1])>>], <<Tag(s), dt, "extreme_integers">>))

\* tiling law (Outcome.tla): reductions and normalisations along an inner axis treat the rows of the leading axis independently
TileEmit(op, attrs, X, a, Sem(_), known) ==
   TileLaw(Sem, <<X>>, {1}) => P([CaseRec("tile", op, attrs, <<X>>, a, <<"value", "tile_law">>) EXCEPT !.known = known] @@ [tile |-> TileField({1})])
TileReduceCases ==
   /\ \A sh \in {<<3, 4>>, <<3, 2, 3>>} : \A kd \in {0, 1} : \A axis \in {1, -1} :
         LET X == Ties("f32", sh) D == Dist("f32", sh)
             aa == <<AI("axis", axis), AI("keepdims", kd)>> ra == <<AIs("axes", <<axis>>), AI("keepdims", kd)>> IN
         /\ TileEmit("ArgMax", aa, X, SemArgMax(X, aa), LAMBDA ins : SemArgMax(ins[1], aa), <<>>)
         /\ \A op \in {"ReduceMax", "ReduceMin"} : TileEmit(op, ra, D, SemReduce(op, D, ra), LAMBDA ins : SemReduce(op, ins[1], ra), <<>>)
   /\ \A sh \in {<<3, 4>>, <<3, 2, 3>>} : \A op \in {"Softmax", "LogSoftmax"} :
         LET X == SoftX("f32", sh, 1, 2) attrs == <<AI("axis", 1)>> IN
         TileEmit(op, attrs, X, SemSoftmax(op, X, attrs), LAMBDA ins : SemSoftmax(op, ins[1], attrs), KnownSoftmax(op, X, attrs))

\* ties between +0 and -0 under several reduced axes: either zero is a maximum / minimum (compared numerically), but the SAME bits
\* every time - the case is executed 24 times (`repeat`)
ZeroTieCases ==
   \A dt \in {"f32", "f64"} :
      LET Xmax == T(dt, <<2, 2>>, <<Fin(-1), Fin(0), NZ, Fin(-1)>>) Xmin == T(dt, <<2, 2>>, <<Fin(1), NZ, Fin(0), Fin(1)>>)
          X3 == T(dt, <<2, 2, 2>>, <<Fin(-1), NZ, Fin(-2), Fin(0), Fin(0), Fin(-1), NZ, Fin(-3)>>) IN
      \A attrs \in {<<>>, <<AIs("axes", <<0, 1>>)>>, <<AIs("axes", <<1, 0>>)>>, <<AIs("axes", <<0, 1>>), AI("keepdims", 0)>>} :
         /\ P(CaseRec("zero_ties", "ReduceMax", attrs, <<Xmax>>, MustValue(<<T(dt, IF AttrV(attrs, "keepdims", 1) = 0 THEN <<>> ELSE <<1, 1>>, <<Fin(0)>>)>>), <<"value", dt, "zero_ties">>) @@ [repeat |-> 24])
         /\ P(CaseRec("zero_ties", "ReduceMin", attrs, <<Xmin>>, MustValue(<<T(dt, IF AttrV(attrs, "keepdims", 1) = 0 THEN <<>> ELSE <<1, 1>>, <<Fin(0)>>)>>), <<"value", dt, "zero_ties">>) @@ [repeat |-> 24])
         /\ (attrs = <<>> => P(CaseRec("zero_ties", "ReduceMax", <<AIs("axes", <<0, 1, 2>>), AI("keepdims", 0)>>, <<X3>>, MustValue(<<T(dt, <<>>, <<Fin(0)>>)>>), <<"value", dt, "zero_ties">>) @@ [repeat |-> 24]))

\* an axis at the edge of the 64-bit range is out of range for every tensor
ExtremeAxisCases(shape) ==
   \A k \in 1..Len(ExtremeI64) : LET e == ExtremeI64[k] X == Dist("f32", shape) IN
      /\ P(CaseRec("argmax", "ArgMax", <<AI("axis", e)>>, <<X>>, MustError, <<"invalid", "extreme_axis">>))
      /\ \A op \in {"Softmax", "LogSoftmax"} : P(CaseRec("softmax", op, <<AI("axis", e)>>, <<X>>, MustError, <<"invalid", "extreme_axis">>))
      /\ \A op \in {"ReduceMax", "ReduceMin"} : P(CaseRec("reduce", op, <<AIs("axes", <<e>>)>>, <<X>>, MustError, <<"invalid", "extreme_axis">>))

LongShapesQuick == {<<20001, 2>>, <<2, 20001>>}
LongShapesThorough == {<<20001, 2>>, <<2, 20001>>, <<35001, 2>>, <<3, 23003>>}
\* long tensors: results of many elements (no multiple of a block size) and long reduced axes
LongCases(shape) ==
   /\ \A axis \in {0, -1} :
         LET attrs == <<AI("axis", axis), AI("keepdims", 0)>> X == Ties("f32", shape) s == SemArgMax(X, attrs) IN
         P(CaseRec("long", "ArgMax", attrs, <<X>>, s, <<Tag(s), "long">>))
   /\ \A op \in {"ReduceMax", "ReduceMin"}, axis \in {0, 1} :
         LET attrs == <<AIs("axes", <<axis>>), AI("keepdims", 0)>> X == Dist("f32", shape) s == SemReduce(op, X, attrs) IN
         P(CaseRec("long", op, attrs, <<X>>, s, <<Tag(s), "long">>))
   /\ \A op \in {"Softmax", "LogSoftmax"} :
         LET a == IF shape[1] > shape[2] THEN 1 ELSE 0 attrs == <<AI("axis", a)>> X == SoftX("f32", shape, a, 2) s == SemSoftmax(op, X, attrs) IN
         P([CaseRec("long", op, attrs, <<X>>, s, <<Tag(s), "long">>) EXCEPT !.known = KnownSoftmax(op, X, attrs)])

Init ==
   \/ ("long" \in Fams /\ st \in [fam : {"long"}, shape : LongShapes, done : {FALSE}])
   \/ ("argmax" \in Fams /\ st \in [fam : {"argmax"}, shape : Shapes, done : {FALSE}])
   \/ ("reduce" \in Fams /\ st \in [fam : {"reduce"}, op : {"ReduceMax", "ReduceMin"}, shape : Shapes, done : {FALSE}])
   \/ ("softmax" \in Fams /\ st \in [fam : {"softmax"}, op : {"Softmax", "LogSoftmax"}, shape : Shapes, done : {FALSE}])
Emit ==
   /\ ~st.done
   /\ CASE st.fam = "long" -> LongCases(st.shape) /\ (st.shape[1] = 2 => TileReduceCases)
        [] st.fam = "argmax" -> ArgMaxCases(st.shape) /\ (Len(st.shape) = 2 => ArgMaxDt(st.shape)) /\ (Len(st.shape) <= 2 /\ st.shape[1] = 2 => ExtremeAxisCases(st.shape)) /\ (Len(st.shape) \in {2, 3} /\ st.shape[1] = 3 => OrderCases(st.shape) /\ IntOrderCases(st.shape)) /\ (st.shape = <<2>> => ZeroTieCases)
        [] st.fam = "reduce" -> ReduceCases(st.op, st.shape) /\ (Len(st.shape) = 2 => ReduceDt(st.op, st.shape))
        [] st.fam = "softmax" -> SoftCases(st.op, st.shape) /\ (st.op = "Softmax" => HugeCases(st.shape))
   /\ st' = [st EXCEPT !.done = TRUE]
Next == Emit
Spec == Init /\ [][Next]_st

\* law: reducing all axes at once = reducing them one after the other (keepdims) ; softmax slices sum to 1
Laws ==
   /\ (st.fam = "reduce" /\ Len(st.shape) = 2 =>
         LET X == Dist("f32", st.shape) IN
         ReduceValue(ReduceValue(X, {0}, TRUE, SetMax), {1}, TRUE, SetMax) = ReduceValue(X, {0, 1}, TRUE, SetMax))
   /\ (st.fam = "softmax" /\ st.op = "Softmax" =>
         \A a \in 0..(Len(st.shape) - 1) :
            LET X == SoftX("f32", st.shape, a, 3) IN
            \A k \in 1..Size(st.shape) : LET idx == Unravel(k - 1, st.shape) IN CountMax(X, a, idx) >= 1)
=============================================================================
