SPECIFICATION MCSpec
CONSTANTS
  RunIds = {1, 2}
  Semantics = "pure"
  ModelSet = {"conv_relu_argmax", "gru_squeeze", "lstm_state_init", "scaler_gemm_const", "linreg_rnn", "gemm_row_bias", "matmul_vector", "same_shape_weights", "expand_concat_add", "weight_views", "two_unnamed_constants", "defaulted_bias"}
  Mode = "sched"
INVARIANTS ConcurrentEqualsSequential NoConflict NoRunFails
PROPERTY WeightsAndCallerTensorsImmutable
CHECK_DEADLOCK FALSE
