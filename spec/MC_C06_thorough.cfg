SPECIFICATION Spec
CONSTANTS
  Fams = {"structure", "slots", "invalid", "split"}
  OpSet = {"RNN", "GRU", "LSTM"}
  MaxS = 3
  MaxB = 2
  MaxIn = 3
  MaxH = 3
INVARIANT SplitLaw
CHECK_DEADLOCK FALSE
