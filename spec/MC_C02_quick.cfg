SPECIFICATION MCSpec
CONSTANTS
  RunIds = {1}
  Semantics = "pure"
  ModelSet = {"conv_bias_init", "conv_bias_caller", "gru_state_init", "gru_state_caller", "lstm_state_caller", "rnn_state_init", "argmax_reduce", "expand_concat_add", "const_scaler_gemm", "prelu_slopes", "gemm_row_bias", "conv_dilated_init", "matmul_vector_weight", "defaulted_input", "logic_ops", "conv_point_init", "gemm_scaled_init", "elementwise_same_shape", "views_of_weight", "conv_kernel_caller", "hidden_identities"}
  Rich = TRUE
  MaxCalls = 2
INVARIANTS HistoryIndependent OutputsComplete
PROPERTY WeightsAndCallerTensorsImmutable
CHECK_DEADLOCK FALSE
