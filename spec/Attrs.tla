------------------------------- MODULE Attrs -------------------------------
(***************************************************************************)
(* Node attributes: a sequence of records [name, kind, v] with kind in     *)
(* i, is, f, fs, s, ss, t (ONNX AttributeProto types).                     *)
(***************************************************************************)
EXTENDS Outcome

AI(name, v)  == [name |-> name, kind |-> "i",  v |-> v]
AIs(name, v) == [name |-> name, kind |-> "is", v |-> v]
AF(name, v)  == [name |-> name, kind |-> "f",  v |-> v]
AFs(name, v) == [name |-> name, kind |-> "fs", v |-> v]
AS(name, v)  == [name |-> name, kind |-> "s",  v |-> v]
ASs(name, v) == [name |-> name, kind |-> "ss", v |-> v]
AT(name, v)  == [name |-> name, kind |-> "t",  v |-> v]

HasAttr(attrs, name) == \E i \in 1..Len(attrs) : attrs[i].name = name
AttrOf(attrs, name)  == attrs[CHOOSE i \in 1..Len(attrs) : attrs[i].name = name]
AttrV(attrs, name, default) == IF HasAttr(attrs, name) THEN AttrOf(attrs, name).v ELSE default
AttrNames(attrs) == {attrs[i].name : i \in 1..Len(attrs)}
=============================================================================
