------------------------------- MODULE OpConst -------------------------------
(***************************************************************************)
(* Constant, ConstantOfShape, Cast (C11).                                  *)
(* Element convention: records (Fin / Rat / specials); printed lowered.    *)
(***************************************************************************)
EXTENDS Attrs

\* ----------------------------------------------------------------- Constant
ConstantForms == {"value", "value_float", "value_floats", "value_int", "value_ints"}
SemConstant(attrs) ==
   IF Len(attrs) # 1 THEN MustError
   ELSE LET a == attrs[1] IN
        CASE a.name = "value"        -> MustValue(<<[dt |-> a.v.dt, shape |-> a.v.shape, data |-> a.v.data]>>)
          [] a.name = "value_float"  -> MustValue(<<T("f32", <<>>, <<a.v>>)>>)
          [] a.name = "value_floats" -> MustValue(<<T("f32", <<Len(a.v)>>, a.v)>>)
          [] a.name = "value_int"    -> MustValue(<<T("i64", <<>>, <<a.v>>)>>)
          [] a.name = "value_ints"   -> MustValue(<<T("i64", <<Len(a.v)>>, a.v)>>)
          [] OTHER -> MustError

\* ---------------------------------------------------------- ConstantOfShape
\* S: the int64 shape tensor; attrs: <<>> or <<AT("value", V)>> with V a tensor
SemConstantOfShape(S, attrs) ==
   IF Len(attrs) > 1 \/ (Len(attrs) = 1 /\ attrs[1].name # "value") THEN MustError
   ELSE LET V == IF Len(attrs) = 1 THEN attrs[1].v ELSE [dt |-> "f32", shape |-> <<1>>, data |-> <<Fin(0)>>] IN
        IF Len(V.data) # 1 THEN MustError
        ELSE IF Len(S.shape) # 1 THEN MustError
        ELSE IF \E i \in 1..Len(S.data) : S.data[i] < 0 THEN MustError
        ELSE LET out == Const(V.dt, S.data, V.data[1]) IN
             IF Size(S.data) = 0 \/ Len(S.data) = 0 THEN ValueOrError(<<out>>)   \* empty / rank-0 results may be refused
             ELSE Weaken(V.dt \notin {"f32", "i64"}, MustValue(<<out>>))

\* --------------------------------------------------------------------- Cast
\* value ranges of the narrow integer types; 32/64-bit types hold every catalogue value of the right sign
IntLo(dt) == CASE dt = "i8" -> -128 [] dt = "i16" -> -32768 [] dt \in {"i32", "i64"} -> -1000000 [] OTHER -> 0
IntHi(dt) == CASE dt = "i8" -> 127 [] dt = "u8" -> 255 [] dt = "i16" -> 32767 [] dt = "u16" -> 65535 [] OTHER -> 1000000
\* truncation toward zero of the rational n/d
TruncRat(x) == TDiv(x.n, x.d)
IsSpecial(x) == x.c # "fin"
\* can value x (a record) be held by dtype dt?
Holds(dt, x) == IF dt \in FloatTypes THEN TRUE
                ELSE ~IsSpecial(x) /\ x.d = 1 /\ x.n >= IntLo(dt) /\ x.n <= IntHi(dt)
\* is the conversion of x to dtype `to` determined by "C-style conversion, in range"?
CastDefined(to, x) == IF to \in FloatTypes THEN TRUE
                      ELSE ~IsSpecial(x) /\ TruncRat(x) >= IntLo(to) /\ TruncRat(x) <= IntHi(to)
CastElem(to, x) == IF to \in FloatTypes THEN x ELSE Fin(TruncRat(x))
CastTargets == NumTypes
SemCast(X, to) ==     \* to: a dtype name, or an unsupported target ("bool", "string", "f16", "c64", "undefined")
   IF to \notin CastTargets THEN MustError
   ELSE Weaken(X.dt \notin {"f32", "f64", "i32", "i64"} \/ to \notin {"f32", "f64", "i32", "i64"},
               MustValue(<<T(to, X.shape, [k \in 1..Len(X.data) |-> CastElem(to, X.data[k])])>>))
OnnxCode(dt) == CASE dt = "f32" -> 1 [] dt = "u8" -> 2 [] dt = "i8" -> 3 [] dt = "u16" -> 4 [] dt = "i16" -> 5 [] dt = "i32" -> 6
                  [] dt = "i64" -> 7 [] dt = "string" -> 8 [] dt = "bool" -> 9 [] dt = "f16" -> 10 [] dt = "f64" -> 11 [] dt = "u32" -> 12
                  [] dt = "u64" -> 13 [] dt = "c64" -> 14 [] dt = "c128" -> 15 [] dt = "bf16" -> 16 [] dt = "undefined" -> 0
=============================================================================
