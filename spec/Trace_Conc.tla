----------------------------- MODULE Trace_Conc -----------------------------
(***************************************************************************)
(* Direction B for C17: free-running goroutines call Run on shared Models  *)
(* (sample models) while another goroutine keeps loading models.  Events:  *)
(*   Baseline [model, key, digest]        sequential Run of input `key`    *)
(*   RunEnd   [model, g, seq, key, digest] a concurrent Run finished       *)
(* The specification's Run is a function of (model, inputs): a trace is a  *)
(* behaviour only if every concurrent Run of input `key` returned the      *)
(* digest of the sequential baseline, and each goroutine's events carry    *)
(* consecutive sequence numbers (taken by the goroutine itself, never      *)
(* wall-clock).  A "Failed" event (a Run or a concurrent load erred) and a *)
(* race-detector abort have no action.                                     *)
(***************************************************************************)
EXTENDS Integers, Sequences, TLC, Json
Trace == ndJsonDeserialize("trace.ndjson")
VARIABLES l, memo, last
vars == <<l, memo, last>>
Init == l = 1 /\ memo = <<>> /\ last = <<>>
Ev == Trace[l]
Key(e) == <<e.model, e.key>>
TraceBaseline ==
   /\ l <= Len(Trace) /\ Ev.ev = "Baseline"
   /\ (Key(Ev) \in DOMAIN memo => memo[Key(Ev)] = Ev.digest)            \* the same input always gives the same result
   /\ memo' = [k \in (DOMAIN memo) \cup {Key(Ev)} |-> IF k = Key(Ev) THEN Ev.digest ELSE memo[k]]
   /\ l' = l + 1 /\ UNCHANGED last
TraceRunEnd ==
   /\ l <= Len(Trace) /\ Ev.ev = "RunEnd"
   /\ Key(Ev) \in DOMAIN memo /\ memo[Key(Ev)] = Ev.digest               \* ConcurrentEqualsSequential
   /\ LET g == <<Ev.model, Ev.g>> IN
      /\ Ev.seq = (IF g \in DOMAIN last THEN last[g] + 1 ELSE 1)
      /\ last' = [k \in (DOMAIN last) \cup {g} |-> IF k = g THEN Ev.seq ELSE last[k]]
   /\ l' = l + 1 /\ UNCHANGED memo
Next == TraceBaseline \/ TraceRunEnd
Spec == Init /\ [][Next]_vars
Post == PrintT(<<"TRACE", TLCGet("stats").diameter - 1, Len(Trace)>>)
=============================================================================
