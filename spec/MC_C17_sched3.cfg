SPECIFICATION MCSpec
CONSTANTS
  RunIds = {1, 2, 3}
  Semantics = "pure"
  ModelSet = {"conv_relu_argmax", "gru_squeeze", "lstm_state_init", "defaulted_bias"}
  Mode = "sched"
INVARIANTS ConcurrentEqualsSequential NoConflict NoRunFails
PROPERTY WeightsAndCallerTensorsImmutable
CHECK_DEADLOCK FALSE
