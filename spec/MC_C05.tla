------------------------------- MODULE MC_C05 -------------------------------
EXTENDS OpConv, Json, TLC
CONSTANTS Fams, MaxL, MaxK1, MaxHW, MaxK2, MaxSD, MaxPad, MaxNCM
VARIABLES st
P(c) == PrintT(<<"CASE", ToJson(c)>>)
Tag(a) == IF a.must = "error" THEN "invalid" ELSE a.must
CaseRec(fam, attrs, inputs, allowed, feat) ==
   [prop |-> "C05", fam |-> fam, kind |-> "op", op |-> "Conv", attrs |-> attrs, inputs |-> inputs, nout |-> 1,
    allowed |-> allowed, cmp |-> "num", feat |-> feat, known |-> <<>>]
\* distinct ids: image 1.., kernel 1.. (products stay far below 2^24), bias 100*m
Img(dt, shape) == Iota(dt, shape, 0)
Ker(dt, shape) == T(dt, shape, [k \in 1..Size(shape) |-> IF k % 2 = 0 THEN k ELSE -k])
Bia(dt, m) == T(dt, <<m>>, [k \in 1..m |-> 100 * k])

ConvCase(fam, xs, ws, attrs, bias, dt, feat) ==
   LET X == Img(dt, xs) W == Ker(dt, ws) B == IF bias THEN Bia(dt, ws[1]) ELSE Nil
       s == SemConv(X, W, B, attrs)
   IN [CaseRec(fam, attrs, IF bias THEN <<X, W, B>> ELSE <<X, W>>, s, <<Tag(s), dt>> \o feat \o (IF bias THEN <<"bias">> ELSE <<"no_bias">>))
         EXCEPT !.known = KnownConv(X, W, B, attrs)]

\* 1-D: complete lattice
Conv1D(L, k, s, d) ==
   /\ \A pb \in 0..MaxPad, pe \in 0..MaxPad, N \in {1, 2}, bias \in BOOLEAN :
         LET attrs == (IF s = 1 THEN <<>> ELSE <<AIs("strides", <<s>>)>>) \o (IF d = 1 THEN <<>> ELSE <<AIs("dilations", <<d>>)>>)
                      \o (IF pb = 0 /\ pe = 0 THEN <<>> ELSE <<AIs("pads", <<pb, pe>>)>>)
         IN P(ConvCase("conv1d", <<N, 2, L>>, <<IF bias THEN 2 ELSE 1, 2, k>>, attrs, bias, "f32",
                       <<"1d">> \o (IF pb # pe THEN <<"asym_pads">> ELSE <<>>)))
   /\ \A ap \in {"SAME_UPPER", "SAME_LOWER", "VALID", "NOTSET"} :
         LET attrs == <<AS("auto_pad", ap), AIs("strides", <<s>>), AIs("dilations", <<d>>), AIs("kernel_shape", <<k>>)>>
         IN P(ConvCase("conv1d", <<1, 1, L>>, <<2, 1, k>>, attrs, TRUE, "f32", <<"1d", "auto_pad_" \o ap>>))

\* 2-D: non-square images and kernels
Conv2D(H, W, kh, kw) ==
   /\ \A sd \in {<<1, 1, 1, 1>>, <<2, 1, 1, 1>>, <<1, 2, 1, 1>>, <<1, 1, 2, 1>>, <<1, 1, 1, 2>>, <<2, 2, 1, 1>>, <<1, 2, 2, 1>>, <<2, 1, 1, 2>>} \cup
                (IF MaxSD >= 3 THEN {<<3, 1, 1, 1>>, <<1, 3, 1, 1>>, <<1, 1, 3, 1>>, <<1, 1, 1, 3>>, <<3, 2, 2, 3>>} ELSE {}),
         pp \in {<<0, 0, 0, 0>>, <<1, 0, 0, 0>>, <<0, 1, 0, 0>>, <<0, 0, 1, 0>>, <<0, 0, 0, 1>>, <<1, 1, 1, 1>>, <<1, 0, 0, 1>>} \cup
                (IF MaxPad >= 2 THEN {<<2, 0, 1, 0>>, <<0, 2, 0, 1>>, <<2, 1, 0, 2>>} ELSE {}) :
         LET attrs == <<AIs("strides", <<sd[1], sd[2]>>), AIs("dilations", <<sd[3], sd[4]>>), AIs("pads", pp)>>
             ncm == IF (H + W + kh + kw) % 2 = 0 THEN <<1, 2, 2>> ELSE <<2, 1, 1>>
         IN P(ConvCase("conv2d", <<ncm[1], ncm[2], H, W>>, <<ncm[3], ncm[2], kh, kw>>, attrs, (H + kw) % 2 = 0, "f32",
                       <<"2d">> \o (IF H # W THEN <<"nonsquare_image">> ELSE <<>>) \o (IF kh # kw THEN <<"nonsquare_kernel">> ELSE <<>>)
                       \o (IF sd[1] # sd[2] THEN <<"aniso_stride">> ELSE <<>>) \o (IF sd[3] # sd[4] THEN <<"aniso_dilation">> ELSE <<>>)))
   /\ \A ap \in {"SAME_UPPER", "SAME_LOWER", "VALID"}, s \in {<<1, 1>>, <<2, 1>>, <<1, 2>>, <<2, 2>>} :
         LET attrs == <<AS("auto_pad", ap), AIs("strides", s)>>
         IN P(ConvCase("conv2d", <<2, 1, H, W>>, <<1, 1, kh, kw>>, attrs, FALSE, "f32", <<"2d", "auto_pad_" \o ap>> \o (IF H # W THEN <<"nonsquare_image">> ELSE <<>>)))
   /\ (H = 3 /\ W = 4 =>
         /\ \A N \in 1..MaxNCM, C \in 1..MaxNCM, M \in 1..MaxNCM, bias \in BOOLEAN :
               P(ConvCase("conv2d", <<N, C, H, W>>, <<M, C, kh, kw>>, <<>>, bias, "f32", <<"2d", "default_attrs", "ncm">>))
         /\ P(ConvCase("conv2d", <<1, 2, H, W>>, <<2, 2, kh, kw>>, <<AIs("kernel_shape", <<kh, kw>>), AIs("pads", <<1, 0, 1, 0>>)>>, TRUE, "f64", <<"2d", "kernel_shape_given">>))
         /\ P(ConvCase("conv2d", <<1, 2, H, W>>, <<2, 2, kh, kw>>, <<AI("group", 2)>>, FALSE, "f32", <<"2d", "group2">>)))

\* special values: infinities and NaN in the image, kernels with all-zero output channels, zero weights under non-finite elements
SpecialCases ==
   LET X1 == [dt \in {"f32", "f64"} |-> T(dt, <<1, 2, 4>>, <<Fin(1), PInf, Fin(2), NaN, NInf, Fin(3), Fin(0), Fin(-1)>>)]
       X1f == [dt \in {"f32", "f64"} |-> T(dt, <<1, 2, 4>>, <<Fin(1), PInf, Fin(2), Fin(5), Fin(4), Fin(3), Fin(0), Fin(-1)>>)]
       W1 == [dt \in {"f32", "f64"} |-> T(dt, <<3, 2, 2>>, <<0, 0, 0, 0, 1, -1, 0, 2, 0, 0, 0, 1>>)]
       W0 == [dt \in {"f32", "f64"} |-> T(dt, <<2, 2, 2>>, <<0, 0, 0, 0, 0, 0, 0, 0>>)]
       X2 == T("f32", <<1, 1, 2, 3>>, <<Fin(1), PInf, Fin(2), NaN, Fin(3), NInf>>)
       W2 == T("f32", <<2, 1, 1, 2>>, <<0, 0, 1, 0>>)
       Emit1(X, W, B, attrs, feat) == P([CaseRec("special", attrs, IF IsNil(B) THEN <<X, W>> ELSE <<X, W, B>>, MustValue(<<ConvValueF(X, W, B, attrs)>>), <<"value", X.dt, "special_values"\o feat>>)
                                           EXCEPT !.known = KnownConvF(X, W, B, attrs)])
   IN /\ \A dt \in {"f32", "f64"} : \A attrs \in {<<>>, <<AIs("pads", <<1, 1>>)>>, <<AIs("dilations", <<2>>)>>, <<AIs("strides", <<2>>)>>} :
            /\ Emit1(X1[dt], W1[dt], Nil, attrs, "_zero_channel") /\ Emit1(X1[dt], W1[dt], Bia(dt, 3), attrs, "_zero_channel")
            /\ Emit1(X1[dt], W0[dt], Bia(dt, 2), attrs, "_zero_kernel") /\ Emit1(X1f[dt], W1[dt], Nil, attrs, "_one_infinity")
      /\ \A attrs \in {<<>>, <<AIs("pads", <<0, 1, 0, 1>>)>>} : Emit1(X2, W2, Nil, attrs, "_2d") /\ Emit1(X2, W2, Bia("f32", 2), attrs, "_2d")

\* tiling law (Outcome.tla): the samples of a batch are convolved independently; the harness repeats the batch to tens of thousands of samples
TileConvCases ==
   \A v \in {<<<<2, 1, 4>>, <<2, 1, 2>>, <<>>>>, <<<<2, 2, 5>>, <<1, 2, 3>>, <<AIs("strides", <<2>>), AIs("pads", <<1, 1>>)>>>>,
              <<<<2, 1, 3, 3>>, <<2, 1, 2, 2>>, <<>>>>, <<<<3, 1, 3, 4>>, <<1, 1, 2, 2>>, <<AIs("dilations", <<1, 2>>)>>>>} : \A bias \in BOOLEAN :
      LET X == Img("f32", v[1]) W == Ker("f32", v[2]) B == IF bias THEN Bia("f32", v[2][1]) ELSE Nil
          ins == IF bias THEN <<X, W, B>> ELSE <<X, W>> IN
      TileLaw(LAMBDA i : SemConv(i[1], i[2], IF bias THEN i[3] ELSE Nil, v[3]), ins, {1}) =>
         P(CaseRec("tile", v[3], ins, SemConv(X, W, B, v[3]), <<"value", "f32", "tile_law">>) @@ [tile |-> TileField({1})])

\* many output channels / input channels / samples (counts beyond the number of cores, odd counts)
ManyKernelCases ==
   \A m \in {3, 5, 7, 17, 33} :
      /\ P(ConvCase("many", <<2, 1, 3, 4>>, <<m, 1, 2, 2>>, <<>>, TRUE, "f32", <<"2d", "many_kernels">>))
      /\ P(ConvCase("many", <<1, 2, 5>>, <<m, 2, 2>>, <<AIs("pads", <<1, 0>>)>>, FALSE, "f32", <<"1d", "many_kernels">>))
      /\ P(ConvCase("many", <<1, m, 3, 3>>, <<2, m, 2, 2>>, <<>>, FALSE, "f32", <<"2d", "many_channels">>))
      /\ P(ConvCase("many", <<m, 1, 3, 3>>, <<2, 1, 2, 2>>, <<>>, TRUE, "f32", <<"2d", "many_samples">>))

\* extents that do not fit one byte (256, 257, 300), each beside its "twin" modulo 256 with the same remaining geometry: whatever a
\* kernel geometry is turned into - a key, a packed word - two different geometries stay different (both orders occur: the cases
\* of one process run concurrently)
WideExtentCases ==
   /\ \A c \in {1, 257, 2, 258, 256} : P(ConvCase("wide", <<1, c, 2, 4>>, <<1, c, 2, 3>>, <<>>, FALSE, "f32", <<"2d", "wide_extent", "channels_" \o ToString(c)>>))
   /\ \A k \in {44, 300, 1, 257} : P(ConvCase("wide", <<1, 1, 301>>, <<1, 1, k>>, <<>>, FALSE, "f32", <<"1d", "wide_extent", "kernel_" \o ToString(k)>>))
   /\ \A m \in {1, 257} : P(ConvCase("wide", <<1, 1, 4>>, <<m, 1, 2>>, <<>>, TRUE, "f32", <<"1d", "wide_extent", "kernels_" \o ToString(m)>>))

\* zero-padding law: additional input channels whose kernel weights are all zero contribute nothing to any output element. TLC checks
\* on 1 and 2 additional channels that the padded case has the outputs of the case; the harness pads the flagged cases to 16411 channels -
\* a window (channels x kernel extents) of more than 2^16 elements slid over several positions, a size no enumeration reaches.
PadAxis(t, a, x) ==
   Mk(t.dt, [t.shape EXCEPT ![a + 1] = @ + x], LAMBDA idx : IF idx[a + 1] >= t.shape[a + 1] THEN 0 ELSE At(t, idx))
ConvPadLawAt(X, W, B, attrs, x) == SemConv(PadAxis(X, 1, x), PadAxis(W, 1, x), B, attrs) = SemConv(X, W, B, attrs)
PadConvCases ==
   \A v \in {<<<<2, 2, 3, 3>>, <<2, 2, 2, 2>>, <<>>>>, <<<<1, 3, 5>>, <<2, 3, 2>>, <<AIs("strides", <<2>>), AIs("pads", <<1, 0>>)>>>>,
             <<<<1, 1, 4, 3>>, <<3, 1, 2, 2>>, <<AIs("dilations", <<2, 1>>)>>>>} : \A bias \in BOOLEAN :
      LET c == ConvCase("pad", v[1], v[2], v[3], bias, "f32", <<"zero_padding_law">>)
          X == c.inputs[1] W == c.inputs[2] B == IF bias THEN c.inputs[3] ELSE Nil IN
      (c.allowed.must = "value" /\ c.known = <<>> /\ ConvPadLawAt(X, W, B, v[3], 1) /\ ConvPadLawAt(X, W, B, v[3], 2)) =>
         P(c @@ [pad |-> [ins |-> <<[pos |-> 0, axis |-> 1, blocks |-> 1, dim |-> "c"], [pos |-> 1, axis |-> 1, blocks |-> 1, dim |-> "c"]>>, outs |-> <<>>, attr |-> ""]])

\* float64 operands whose products and partial sums need more than the 24 significant bits of a float32 (and far fewer than the 53 of a
\* float64): exact in the declared type, so the expected values are exact - an accumulation in a narrower type than the tensors' shows
WideProductCases ==
   LET X1 == T("f64", <<1, 2, 3>>, <<4097, 4099, 3, -4101, 5, 4103>>)
       W1 == T("f64", <<2, 2, 2>>, <<4099, 4097, 1, 4105, -4097, 3, 4099, 1>>)
       X2 == T("f64", <<1, 1, 2, 3>>, <<4097, -4099, 4101, 7, 4103, 4105>>)
       W2 == T("f64", <<1, 1, 2, 2>>, <<4099, 4101, -4103, 4097>>)
       E(X, W, B, attrs, d) == P([CaseRec("wideprod", attrs, IF IsNil(B) THEN <<X, W>> ELSE <<X, W, B>>, SemConv(X, W, B, attrs),
                                          <<"value", "f64", d, "products_beyond_24_bits">>) EXCEPT !.known = KnownConv(X, W, B, attrs)])
   IN /\ \A attrs \in {<<>>, <<AIs("pads", <<1, 1>>)>>} : E(X1, W1, Nil, attrs, "1d") /\ E(X1, W1, Bia("f64", 2), attrs, "1d")
      /\ \A attrs \in {<<>>, <<AIs("pads", <<0, 1, 0, 1>>)>>} : E(X2, W2, Nil, attrs, "2d")

\* long images (an output count that is no multiple of a block size)
LongConvCases ==
   /\ P(ConvCase("long", <<1, 1, 40003>>, <<1, 1, 2>>, <<>>, TRUE, "f32", <<"1d", "long">>))
   /\ P(ConvCase("long", <<1, 1, 40003>>, <<2, 1, 3>>, <<AIs("strides", <<2>>), AIs("pads", <<1, 1>>)>>, FALSE, "f32", <<"1d", "long">>))
   /\ P(ConvCase("long", <<1, 1, 199, 201>>, <<1, 1, 2, 2>>, <<>>, TRUE, "f32", <<"2d", "long">>))

Init ==
   \/ ("conv1d" \in Fams /\ st \in [fam : {"conv1d"}, L : 1..MaxL, k : 1..MaxK1, s : 1..MaxSD, d : 1..MaxSD, done : {FALSE}])
   \/ ("conv2d" \in Fams /\ st \in [fam : {"conv2d"}, H : 2..MaxHW, W : 2..MaxHW, kh : 1..MaxK2, kw : 1..MaxK2, done : {FALSE}])
Emit ==
   /\ ~st.done
   /\ CASE st.fam = "conv1d" -> Conv1D(st.L, st.k, st.s, st.d) /\ (st.L = 1 /\ st.k = 1 /\ st.s = 1 /\ st.d = 1 => SpecialCases /\ LongConvCases /\ TileConvCases /\ ManyKernelCases /\ WideExtentCases /\ PadConvCases /\ WideProductCases)
        [] st.fam = "conv2d" -> Conv2D(st.H, st.W, st.kh, st.kw)
   /\ st' = [st EXCEPT !.done = TRUE]
Next == Emit
Spec == Init /\ [][Next]_st
=============================================================================
