SPECIFICATION Spec
POSTCONDITION Post
CHECK_DEADLOCK FALSE
