------------------------------- MODULE MC_C13 -------------------------------
(***************************************************************************)
(* C13: Run accepts exactly the input sets that satisfy the declared       *)
(* signature.  Graph: one Shape node per declared input, so acceptance is  *)
(* observable and which tensor a name denoted can be told from the output. *)
(***************************************************************************)
EXTENDS RunSem, Json
CONSTANTS MaxInputs, MaxRank
VARIABLES st
P(c) == PrintT(<<"CASE", ToJson(c)>>)

DimKinds == {DFix(2), DFix(3), DSym, DNone, DZero, DSymEmpty}
Decls(n) == [1..n -> UNION {[1..r -> DimKinds] : r \in 1..MaxRank}]       \* dims of each of the n inputs
InName(i) == "x" \o ToString(i)
GraphOf(dims, shadow) ==      \* shadow: set of input indexes that are also initializers
   LET n == Len(dims) IN
   [nodes |-> [i \in 1..n |-> [op |-> "Shape", attrs |-> <<>>, ins |-> <<InName(i)>>, outs |-> <<"s" \o ToString(i)>>]],
    inputs |-> [i \in 1..n |-> [name |-> InName(i), dt |-> "f32", dims |-> dims[i]]],
    outputs |-> [i \in 1..n |-> "s" \o ToString(i)],
    inits |-> [nm \in {InName(i) : i \in shadow} |-> Iota("f32", <<5>>, 0)]]      \* an initializer of another shape than any supplied tensor
\* the same graph without the node (and the output) of input k: an initializer-backed input that no node reads
Unconsumed(g, k) ==
   LET keep == SelectSeq([i \in 1..Len(g.nodes) |-> i], LAMBDA i : i # k) IN
   [g EXCEPT !.nodes = [j \in 1..Len(keep) |-> g.nodes[keep[j]]], !.outputs = [j \in 1..Len(keep) |-> g.outputs[keep[j]]]]
InitsSeq(g) == LET names == SeqOfSet(DOMAIN g.inits) IN [k \in 1..Len(names) |-> [name |-> names[k], t |-> g.inits[names[k]]]]
\* (output annotations - `outinfo` - are documentation: Run enforces the declared INPUT signature only)
ModelJ(g) == [nodes |-> g.nodes, inputs |-> g.inputs, outputs |-> g.outputs, inits |-> InitsSeq(g), opset |-> 13] @@
             (IF "outinfo" \in DOMAIN g THEN [outinfo |-> g.outinfo] ELSE <<>>)

\* a supplied shape for declared dims: per axis d-1, d, d+1 or 7 (for dynamic axes: 1, 4, 7), or another rank
ConformShape(d) == [i \in 1..Len(d) |-> IF d[i].kind = "fixed" THEN d[i].size ELSE 4]
AxisAlts(dd) == IF dd.kind = "fixed" THEN {dd.size - 1, dd.size + 1, 7} ELSE {1, 7}
Variants(d) ==
   {ConformShape(d)} \cup
   {[ConformShape(d) EXCEPT ![i] = v] : i \in 1..Len(d), v \in UNION {AxisAlts(d[i]) : i \in {1}}} \cup
   UNION {{[ConformShape(d) EXCEPT ![i] = v] : v \in AxisAlts(d[i])} : i \in 1..Len(d)} \cup
   {Take(ConformShape(d), Len(d) - 1), ConformShape(d) \o <<2>>, <<>>, <<2, 2, 2, 2, 2>>}

Allowed_(g, ins) ==
   LET s == RunSem(g, ins) IN
   IF s.ok THEN MustValue(s.out) ELSE IF "Indefinite" \in s.errc THEN NoCrash ELSE MustErrorOf(SeqOfSet(s.errc))
CallJ(g, ins) == [ins |-> ins, reuse |-> <<>>, allowed |-> Allowed_(g, ins)]
CaseOf(g, ins, feat) ==
   [prop |-> "C13", fam |-> "signature", kind |-> "model", op |-> "", attrs |-> <<>>, inputs |-> <<>>, nout |-> 0,
    allowed |-> NoCrash, cmp |-> "bits", feat |-> feat \o <<IF RunSem(g, ins).ok THEN "accept" ELSE "reject">>, known |-> <<>>,
    x |-> [model |-> ModelJ(g), calls |-> <<CallJ(g, ins)>>, checks |-> <<"inputs_unchanged", "weights_unchanged">>,
           introspect |-> [names |-> InputNames(g.inputs), outputs |-> g.outputs, hasparams |-> TRUE, params |-> SeqOfSet(DOMAIN g.inits),
                           \* every axis of every input, the first axis beyond its rank, and a name that is not an input
                           dimsize |-> [q \in 1..(Len(g.inputs) + 1) |->
                                          IF q > Len(g.inputs) THEN [name |-> "nosuchinput", axis |-> 0, r |-> InputDimSize(g.inputs, "nosuchinput", 0)]
                                          ELSE LET ax == (q - 1) % (Len(g.inputs[q].dims) + 1) IN
                                               [name |-> g.inputs[q].name, axis |-> ax, r |-> InputDimSize(g.inputs, g.inputs[q].name, ax)]]]]]

\* the same case preceded by a call without any input (rejected, or accepted when nothing is required): what a rejected call
\* leaves behind must not weaken the checks of the next one
CaseAfterEmptyCall(g, ins, feat) ==
   [CaseOf(g, ins, feat \o <<"after_empty_call">>) EXCEPT !.x.calls = <<CallJ(g, <<>>), CallJ(g, ins)>>]
\* a conforming call, then the caller reshapes the SAME tensor object in place (Interp!CallerReshape) and passes it again: the
\* signature is enforced on every call, whatever was accepted before
CaseReshapedBetweenCalls(g, nm, good, sh2, feat) ==
   LET t1 == Iota("f32", good, 0) t2 == T("f32", sh2, t1.data) IN
   [CaseOf(g, [n \in {nm} |-> t1], feat \o <<"reshaped_between_calls">>) EXCEPT
       !.x.calls = <<CallJ(g, [n \in {nm} |-> t1]),
                     [ins |-> <<>>, reuse |-> [n \in {nm} |-> [call |-> 1, kind |-> "in", name |-> nm]], holds |-> [n \in {nm} |-> t2],
                      allowed |-> Allowed_(g, [n \in {nm} |-> t2])]>>]
Supply(names, shapes) == [nm \in names |-> Iota("f32", shapes[nm], 0)]

\* one input: every declared signature x every supplied variant; several inputs: one input varied at a time, names missing / extra / shadowed
One(d) ==
   LET g == GraphOf(<<d>>, {}) IN
   /\ \A sh \in Variants(d) : P(CaseOf(g, Supply({"x1"}, [nm \in {"x1"} |-> sh]), <<"one_input", "rank" \o ToString(Len(d))>>))
   /\ P(CaseOf(g, <<>>, <<"one_input", "missing">>))
   \* graph outputs annotated with a shape the graph does not compute (a fixed extent, another rank, a symbolic one): still accepted
   /\ \A od \in {<<DFix(9)>>, <<DFix(1), DFix(1)>>, <<DSym>>, <<>>} : \A sh \in {ConformShape(d), [ConformShape(d) EXCEPT ![1] = IF d[1].kind = "fixed" THEN d[1].size ELSE 7]} :
         P(CaseOf(g @@ [outinfo |-> [i \in 1..Len(g.outputs) |-> [name |-> g.outputs[i], dt |-> "i64", dims |-> od]]],
                  Supply({"x1"}, [nm \in {"x1"} |-> sh]), <<"one_input", "output_annotated">>))
   /\ \A sh2 \in {s2 \in Variants(d) : Size(s2) = Size(ConformShape(d)) /\ s2 # ConformShape(d)} \cup {<<Size(ConformShape(d))>>, <<1>> \o ConformShape(d)} :
         P(CaseReshapedBetweenCalls(g, "x1", ConformShape(d), sh2, <<"one_input">>))
   /\ P(CaseOf(g, [nm \in {"x1"} |-> Nil], <<"one_input", "nil_tensor">>))
   \* the declaration may name an element type the interpreter has no tensors for (FLOAT16, BFLOAT16, STRING, COMPLEX64) or another one
   \* than the caller supplies (INT64 declared, float32 supplied): the signature Run enforces is names, ranks and fixed dimensions
   /\ \A dtx \in {"f16", "bf16", "string", "c64", "i64"} :
         LET gx == [g EXCEPT !.inputs = [i \in 1..Len(g.inputs) |-> [g.inputs[i] EXCEPT !.dt = dtx]]] IN
         /\ \A sh \in {ConformShape(d), ConformShape(d) \o <<2>>, <<>>, [ConformShape(d) EXCEPT ![Len(d)] = 7]} :
               P(CaseOf(gx, Supply({"x1"}, [nm \in {"x1"} |-> sh]), <<"one_input", "declared_type_" \o dtx>>))
         /\ P(CaseOf(gx, <<>>, <<"one_input", "declared_type_" \o dtx, "missing">>))
   /\ P(CaseOf(g, [nm \in {"x1", "extra"} |-> IF nm = "extra" THEN Nil ELSE Iota("f32", ConformShape(d), 0)], <<"one_input", "extra_name_nil">>))
   /\ P(CaseOf(g, Supply({"other"}, [nm \in {"other"} |-> ConformShape(d)]), <<"one_input", "wrong_name">>))
   /\ P(CaseOf(g, Supply({"x1", "extra"}, [nm \in {"x1", "extra"} |-> ConformShape(d)]), <<"one_input", "extra_name">>))
   \* an extra tensor named like a node output / the graph output (a caller that merges the previous outputs into its next feed): the
   \* signature speaks of declared inputs only, and the node's result replaces the stray entry
   /\ \A xn \in {g.outputs[1], g.nodes[1].outs[1]} :
         P(CaseOf(g, Supply({"x1", xn}, [nm \in {"x1", xn} |-> ConformShape(d)]), <<"one_input", "extra_name_of_an_output">>))
   /\ LET gs == GraphOf(<<d>>, {1}) IN
      /\ P(CaseOf(gs, <<>>, <<"shadowed", "not_supplied">>))
      /\ P(CaseOf(gs, [nm \in {"x1"} |-> Nil], <<"shadowed", "nil_tensor">>))
      /\ P(CaseOf(gs, Supply({"x1"}, [nm \in {"x1"} |-> ConformShape(d)]), <<"shadowed", "supplied">>))
      /\ P(CaseOf(gs, Supply({"x1"}, [nm \in {"x1"} |-> ConformShape(d) \o <<2>>]), <<"shadowed", "supplied_other_rank">>))
      \* the caller's tensor takes precedence over the default and is checked against the DECLARED dimensions, not the default's shape
      /\ \A i \in 1..Len(d) : \A v \in {1, 7} :
            P(CaseOf(gs, Supply({"x1"}, [nm \in {"x1"} |-> [ConformShape(d) EXCEPT ![i] = v]]), <<"shadowed", "supplied_other_extent">>))
Many(dims) ==
   LET n == Len(dims) g == GraphOf(dims, {}) names == {InName(i) : i \in 1..n}
       good == [nm \in names |-> ConformShape(dims[CHOOSE i \in 1..n : InName(i) = nm])] IN
   /\ P(CaseOf(g, Supply(names, good), <<"many_inputs", "all_good">>))
   /\ \A i \in 1..n :
         /\ P(CaseOf(g, Supply(names \ {InName(i)}, good), <<"many_inputs", "one_missing">>))
         /\ P(CaseOf(g, [Supply(names, good) EXCEPT ![InName(i)] = Nil], <<"many_inputs", "one_nil_tensor">>))
         /\ \A sh \in {[ConformShape(dims[i]) EXCEPT ![Len(dims[i])] = 7], ConformShape(dims[i]) \o <<1>>} :
               /\ P(CaseOf(g, Supply(names, [good EXCEPT ![InName(i)] = sh]), <<"many_inputs", "one_varied">>))
               /\ P(CaseAfterEmptyCall(g, Supply(names, [good EXCEPT ![InName(i)] = sh]), <<"many_inputs", "one_varied">>))
   /\ (n >= 2 => P(CaseOf(g, Supply(names, [good EXCEPT ![InName(1)] = ConformShape(dims[1]) \o <<1>>, ![InName(2)] = <<>>]), <<"many_inputs", "two_wrong">>)))
   /\ LET gs == GraphOf(dims, {n}) IN P(CaseOf(gs, Supply(names \ {InName(n)}, good), <<"many_inputs", "last_shadowed">>))
   \* a declared input that no node reads (and that is no graph output): the signature is a contract on the call, whatever the graph
   \* body does with a tensor - missing, nil, of another rank or extent it is refused as any other input is
   /\ \A k \in 1..n :
         LET gu == Unconsumed(g, k) IN
         /\ P(CaseOf(gu, Supply(names, good), <<"many_inputs", "input_read_by_no_node", "all_good">>))
         /\ P(CaseOf(gu, Supply(names \ {InName(k)}, good), <<"many_inputs", "input_read_by_no_node", "missing">>))
         /\ P(CaseOf(gu, [Supply(names, good) EXCEPT ![InName(k)] = Nil], <<"many_inputs", "input_read_by_no_node", "nil_tensor">>))
         /\ \A sh \in {[ConformShape(dims[k]) EXCEPT ![Len(dims[k])] = 7], ConformShape(dims[k]) \o <<1>>, <<>>} :
               P(CaseOf(gu, Supply(names, [good EXCEPT ![InName(k)] = sh]), <<"many_inputs", "input_read_by_no_node", "varied">>))
   \* an initializer-backed input at ANY position of the declaration order; the other inputs conforming, missing or varied
   /\ \A k \in 1..n :
         LET gs == GraphOf(dims, {k}) rest == names \ {InName(k)} IN
         /\ P(CaseOf(gs, Supply(rest, good), <<"many_inputs", "one_shadowed">>))
         /\ P(CaseOf(Unconsumed(gs, k), Supply(rest, good), <<"many_inputs", "one_shadowed", "shadowed_input_read_by_no_node">>))
         /\ P(CaseOf(Unconsumed(gs, k), Supply(names, good), <<"many_inputs", "one_shadowed", "shadowed_input_read_by_no_node", "supplied">>))
         /\ \A i \in (1..n) \ {k} :
               /\ P(CaseOf(gs, Supply(rest \ {InName(i)}, good), <<"many_inputs", "one_shadowed", "one_missing">>))
               /\ \A sh \in {[ConformShape(dims[i]) EXCEPT ![Len(dims[i])] = 7], ConformShape(dims[i]) \o <<1>>} :
                     P(CaseOf(gs, Supply(rest, [good EXCEPT ![InName(i)] = sh]), <<"many_inputs", "one_shadowed", "one_varied">>))

DenotedKinds == {Denoted(DFix(2), "DATA_BATCH"), Denoted(DFix(3), "DATA_CHANNEL"), Denoted(DSym, "DATA_BATCH"), Denoted(DNone, "DATA_FEATURE"), DFix(2)}
Init == \/ st \in [fam : {"one"}, d : UNION {[1..r -> DimKinds] : r \in 1..MaxRank}, done : {FALSE}]
        \/ st \in [fam : {"one"}, d : UNION {[1..r -> DenotedKinds] : r \in 1..2}, done : {FALSE}]
        \/ \E n \in 2..MaxInputs : st \in [fam : {"many"}, dims : [1..n -> UNION {[1..r -> {DFix(2), DSym, DNone}] : r \in 1..2}], done : {FALSE}]
Emit == /\ ~st.done
        /\ CASE st.fam = "one" -> One(st.d) [] st.fam = "many" -> Many(st.dims)
        /\ st' = [st EXCEPT !.done = TRUE]
Next == Emit
Spec == Init /\ [][Next]_st
=============================================================================
