SPECIFICATION Spec
CONSTANTS
  ModelSet = {"gemm_relu", "matmul_add", "conv_flatten", "reshapes", "gru", "lstm", "rnn", "lstm_peephole", "gru_lbr"}
  MaxBatch = 3
INVARIANT BatchIndependent
CHECK_DEADLOCK FALSE
