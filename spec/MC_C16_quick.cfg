SPECIFICATION Spec
CONSTANTS
  ModelSet = {"gemm_relu", "matmul_add", "conv_flatten", "reshapes", "gru", "lstm", "rnn"}
  MaxBatch = 3
INVARIANT BatchIndependent
CHECK_DEADLOCK FALSE
