SPECIFICATION Spec
CONSTANTS
  ModelSet = {"gemm_relu", "gemm_beta", "matmul_add", "conv_flatten", "reshapes", "gru", "lstm", "rnn", "lstm_peephole", "gru_lbr", "conv_same_stride", "conv2d_same_stride", "matmul_left_weights", "gemm_row_bias"}
  MaxBatch = 3
INVARIANT BatchIndependent
CHECK_DEADLOCK FALSE
