SPECIFICATION Spec
CONSTANTS
  MaxRank = 4
INVARIANT Laws
CHECK_DEADLOCK FALSE
