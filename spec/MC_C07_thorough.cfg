SPECIFICATION Spec
CONSTANTS
  Fams = {"reshape", "flatten", "squeeze", "unsqueeze", "shape", "dtypes"}
  MaxRank = 4
  MaxExt = 3
  Rank5 = TRUE
  ReshapeRank = 3
  ReshapeLen = 4
  AxesLen = 3
INVARIANT Laws
CHECK_DEADLOCK FALSE
