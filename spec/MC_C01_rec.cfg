SPECIFICATION Spec
CONSTANTS
  MaxNodes = 3
  FinishAtMax = FALSE
  TplFilter = "rec"
  Supplied = TRUE
INVARIANT WellFormed
CHECK_DEADLOCK FALSE
