SPECIFICATION SpecMC
CONSTANTS
  Mode = "names"
  SingletonInstances = FALSE
  MaxSteps = 0
INVARIANT NamesAreTheOpset
CHECK_DEADLOCK FALSE
