------------------------------- MODULE MC_C08 -------------------------------
EXTENDS OpIndex, Json, TLC
CONSTANTS Fams, MaxExt, SliceRank, SlicePad, SliceNeg, SlicePairs, ExpandRank, GatherIdxRank
SliceSteps == IF SliceNeg THEN {-2, -1, 1, 2, 3} ELSE {-1, 1, 2}
VARIABLES st

I64(seq) == T("i64", <<Len(seq)>>, seq)
CaseRecK(fam, op, attrs, inputs, allowed, feat, known) ==
   [prop |-> "C08", fam |-> fam, kind |-> "op", op |-> op, attrs |-> attrs, inputs |-> inputs, nout |-> 1,
    allowed |-> allowed, cmp |-> "bits", feat |-> feat, known |-> known]
CaseRec(fam, op, attrs, inputs, allowed, feat) == CaseRecK(fam, op, attrs, inputs, allowed, feat, <<>>)
P(c) == PrintT(<<"CASE", ToJson(c)>>)
Tag(a) == IF a.must = "error" THEN "invalid" ELSE a.must

Perms(r) == {p \in [1..r -> 0..(r - 1)] : Range(p) = 0..(r - 1)}
DataShapes(ranks) == ShapesOf(ranks, 1..MaxExt)

\* ---- Transpose: every permutation for rank 1..4, plus invalid perms
TransposeCases(shape) ==
   LET X == Iota("f32", shape, 0) r == Len(shape) IN
   /\ \A p \in Perms(r) : P(CaseRec("transpose", "Transpose", <<AIs("perm", p)>>, <<X>>, SemTranspose(X, <<AIs("perm", p)>>), <<"perm">>))
   /\ P(CaseRec("transpose", "Transpose", <<>>, <<X>>, SemTranspose(X, <<>>), <<"perm_absent">>))
   /\ \A bad \in {[i \in 1..r |-> 0], [i \in 1..(r + 1) |-> i - 1], [i \in 1..r |-> i]} :
         P(CaseRec("transpose", "Transpose", <<AIs("perm", bad)>>, <<X>>, SemTranspose(X, <<AIs("perm", bad)>>), <<"invalid">>))

\* ---- Concat: 1..3 inputs, every axis in both spellings, matching and mismatching extents
ConcatCases(shape, axis) ==
   LET r == Len(shape) a == NormAxis(axis, r) + 1
       Along(e) == IF AxisOK(axis, r) THEN [shape EXCEPT ![a] = e] ELSE shape
       attrs == <<AI("axis", axis)>>
       Emit(Xs, f) == P(CaseRec("concat", "Concat", attrs, Xs, SemConcat(Xs, attrs), <<f, Tag(SemConcat(Xs, attrs))>>))
   IN /\ Emit(<<Iota("f32", shape, 0)>>, "one_input")
      /\ \A e \in 1..2 : Emit(<<Iota("f32", shape, 0), Iota("f32", Along(e), 100)>>, "two_inputs")
      /\ Emit(<<Iota("f32", shape, 0), Iota("f32", Along(2), 100), Iota("f32", Along(1), 200)>>, "three_inputs")
      /\ (r >= 2 => \A i \in 1..r : i # a =>
             Emit(<<Iota("f32", shape, 0), Iota("f32", [shape EXCEPT ![i] = shape[i] + 1], 100)>>, "mismatch"))
      /\ (r >= 1 => Emit(<<Iota("f32", shape, 0), Iota("f32", Tail(shape), 100)>>, "rank_mismatch"))

\* ---- Slice
SliceOne(shape, ax, s, e, step, negAxis, form) ==
   \* form: "full" (starts, ends, axes, steps), "noaxes" (axes absent, only if ax = 0), "nosteps"
   LET X == Iota("f32", shape, 0)
       axv == IF negAxis THEN ax - Len(shape) ELSE ax
       a == SemSliceInts(X, <<s>>, <<e>>, <<axv>>, <<step>>)
       ins == CASE form = "full"    -> <<X, I64(<<s>>), I64(<<e>>), I64(<<axv>>), I64(<<step>>)>>
                [] form = "nosteps" -> <<X, I64(<<s>>), I64(<<e>>), I64(<<axv>>)>>
                [] form = "noaxes"  -> <<X, I64(<<s>>), I64(<<e>>), Nil, I64(<<step>>)>>
                [] form = "bare"    -> <<X, I64(<<s>>), I64(<<e>>)>>
       dim == shape[ax + 1]
   IN P(CaseRecK("slice", "Slice", <<>>, ins, a,
         <<Tag(a), form>> \o (IF a.must # "error" /\ a.must # "no_crash" /\ SliceExtent(s, e, dim, step) = 1 THEN <<"extent1">> ELSE <<>>)
         \o (IF s < 0 \/ e < 0 THEN <<"negative">> ELSE <<>>) \o (IF e > dim \/ s > dim THEN <<"beyond">> ELSE <<>>)
         \o (IF step < 0 THEN <<"negstep">> ELSE <<>>), KnownSlice(X, <<s>>, <<e>>, <<axv>>, <<step>>)))
SliceCases(shape) ==
   \A ax \in 0..(Len(shape) - 1) :
      LET dim == shape[ax + 1] rng == (-dim - SlicePad)..(dim + SlicePad) IN
      \A s \in rng, e \in rng :
         /\ \A step \in SliceSteps : SliceOne(shape, ax, s, e, step, (s + e) % 2 = 0, "full")
         /\ SliceOne(shape, ax, s, e, 1, FALSE, "nosteps")
         /\ (ax = 0 => SliceOne(shape, 0, s, e, 1, FALSE, "bare") /\ SliceOne(shape, 0, s, e, 2, FALSE, "noaxes"))
\* two axes at once, unsorted axes list, plus symbolic INT64 extremes as ends/starts
SlicePairCases(shape) ==
   LET X == Iota("f32", shape, 0) r == Len(shape) IN
   \A a1 \in 0..(r - 1), a2 \in 0..(r - 1) : a1 # a2 =>
      \A s1 \in {0, 1, -1}, e1 \in {shape[a1 + 1], shape[a1 + 1] + 3, -1}, s2 \in {0, 1}, e2 \in {1, shape[a2 + 1]}, st2 \in {1, 2} :
         LET a == SemSliceInts(X, <<s1, s2>>, <<e1, e2>>, <<a1, a2 - r>>, <<1, st2>>) IN
         P(CaseRecK("slice", "Slice", <<>>, <<X, I64(<<s1, s2>>), I64(<<e1, e2>>), I64(<<a1, a2 - r>>), I64(<<1, st2>>)>>, a,
                   <<Tag(a), "two_axes">> \o (IF a1 > a2 THEN <<"unsorted_axes">> ELSE <<>>),
                   KnownSlice(X, <<s1, s2>>, <<e1, e2>>, <<a1, a2 - r>>, <<1, st2>>)))
\* INT64_MAX / INT64_MIN as end (the idiom "slice to the end"): the symbolic extreme clamps like dim+1 / -dim-1
SliceExtremeCases(shape) ==
   LET X == Iota("f32", shape, 0) dim == shape[1] IN
   \A s \in {0, 1}, dt \in {"i64", "i32"} :
      /\ LET a == SemSliceInts(X, <<s>>, <<dim + 1>>, <<0>>, <<1>>) IN
         P(CaseRecK("slice", "Slice", <<>>, <<X, T(dt, <<1>>, <<s>>), T(dt, <<1>>, <<[c |-> "sym", n |-> 1, d |-> -1]>>), T(dt, <<1>>, <<0>>), T(dt, <<1>>, <<1>>)>>,
                   a, <<Tag(a), "end_intmax", dt>>, KnownSlice(X, <<s>>, <<dim + 1>>, <<0>>, <<1>>)))
      /\ LET a == SemSliceInts(X, <<dim - 1>>, <<-dim - 1>>, <<0>>, <<-1>>) IN
         P(CaseRec("slice", "Slice", <<>>, <<X, T(dt, <<1>>, <<dim - 1>>), T(dt, <<1>>, <<[c |-> "sym", n |-> 1, d |-> 0]>>), T(dt, <<1>>, <<0>>), T(dt, <<1>>, <<-1>>)>>,
                   a, <<Tag(a), "end_intmin", dt>>))
SliceInvalidCases(shape) ==
   LET X == Iota("f32", shape, 0) r == Len(shape) IN
   /\ P(CaseRec("slice", "Slice", <<>>, <<X, I64(<<0>>), I64(<<1>>), I64(<<0>>), I64(<<0>>)>>, SemSliceInts(X, <<0>>, <<1>>, <<0>>, <<0>>), <<"invalid", "zero_step">>))
   /\ P(CaseRec("slice", "Slice", <<>>, <<X, I64(<<0>>), I64(<<1>>), I64(<<r>>)>>, SemSliceInts(X, <<0>>, <<1>>, <<r>>, <<1>>), <<"invalid", "axis_oor">>))
   /\ P(CaseRec("slice", "Slice", <<>>, <<X, I64(<<0>>), I64(<<1>>), I64(<<-r - 1>>)>>, SemSliceInts(X, <<0>>, <<1>>, <<-r - 1>>, <<1>>), <<"invalid", "axis_oor">>))
   /\ P(CaseRec("slice", "Slice", <<>>, <<X, I64(<<0, 0>>), I64(<<1>>)>>, SemSliceInts(X, <<0, 0>>, <<1>>, <<0, 1>>, <<1, 1>>), <<"invalid", "length_mismatch">>))

\* every axes list of length 3 and 4 over a rank-2 and a rank-3 tensor (each axis in its positive or negative spelling): a list that
\* names an axis twice - in adjacent positions or not, in one spelling or two - is refused; a list of distinct axes is answered
AxesListCases ==
   \A shape \in {<<3, 4>>, <<2, 3, 4>>} :
      LET X == Iota("f32", shape, 0) r == Len(shape) IN
      \A n \in {3, 4} : \A ax \in [1..n -> (-r)..(r - 1)] :
         (n <= r \/ ax[1] >= 0) =>          \* (lists longer than the rank always repeat an axis: half of them are enough)
         LET starts == [k \in 1..n |-> IF k = n THEN 1 ELSE 0]
             ends == [k \in 1..n |-> 2]
             steps == [k \in 1..n |-> 1]
             a == SemSliceInts(X, starts, ends, ax, steps) IN
         P(CaseRecK("slice", "Slice", <<>>, <<X, I64(starts), I64(ends), I64(ax), I64(steps)>>, a,
                    <<Tag(a), "axes_list", IF a.must = "error" THEN "repeated_axis" ELSE "distinct_axes">>, KnownSlice(X, starts, ends, ax, steps)))

\* ---- Gather: every axis, index tensors of rank 0..GatherIdxRank with every in-range value, plus out of range
IdxShapes == ShapesOf(0..GatherIdxRank, 1..2)
GatherCases(shape, axis) ==
   LET X == Iota("f32", shape, 0) r == Len(shape) attrs == IF axis = 0 THEN <<>> ELSE <<AI("axis", axis)>> IN
   IF ~AxisOK(axis, r)
   THEN P(CaseRec("gather", "Gather", attrs, <<X, I64(<<0>>)>>, SemGather(X, I64(<<0>>), attrs), <<"invalid", "axis_oor">>))
   ELSE LET dimA == shape[NormAxis(axis, r) + 1] IN
        \A ish \in IdxShapes :
           \A f \in [1..Size(ish) -> (-dimA - 1)..dimA] :
              \* keep the enumeration finite and meaningful: at most one out-of-range entry, always the first
              (\A k \in 2..Size(ish) : f[k] >= -dimA /\ f[k] < dimA) =>
                 \A dt \in (IF Size(ish) = 1 THEN {"i64", "i32"} ELSE {"i64"}) :
                    LET I == T(dt, ish, f) a == SemGather(X, I, attrs) IN
                    P(CaseRec("gather", "Gather", attrs, <<X, I>>, a,
                              <<Tag(a), "idxrank" \o ToString(Len(ish))>> \o (IF \E k \in 1..Size(ish) : f[k] < 0 THEN <<"negative_index">> ELSE <<>>)))

\* ---- Expand: every (input shape, target) pair
ExpandCases(shape, target) ==
   LET X == Iota("f32", shape, 0) S == I64(target) a == SemExpand(X, S) IN
   P(CaseRec("expand", "Expand", <<>>, <<X, S>>, a,
             <<Tag(a)>> \o (IF Len(target) < Len(shape) THEN <<"target_shorter">> ELSE IF Len(target) > Len(shape) THEN <<"target_longer">> ELSE <<"same_rank">>)
             \o (IF a.must = "value" /\ a.value[1].shape # target THEN <<"two_way">> ELSE <<>>)))

\* ---- dtype sweep: the same five requests for each of the 14 element types
DtypeCasesXY(dt, X, Y) ==
   /\ P(CaseRec("dtypes", "Transpose", <<AIs("perm", <<1, 0>>)>>, <<X>>, SemTranspose(X, <<AIs("perm", <<1, 0>>)>>), <<dt>>))
   /\ P(CaseRec("dtypes", "Concat", <<AI("axis", -1)>>, <<X, Y>>, SemConcat(<<X, Y>>, <<AI("axis", -1)>>), <<dt>>))
   /\ P(CaseRec("dtypes", "Slice", <<>>, <<X, I64(<<1>>), I64(<<3>>), I64(<<1>>)>>, SemSliceInts(X, <<1>>, <<3>>, <<1>>, <<1>>), <<dt>>))
   /\ P(CaseRec("dtypes", "Gather", <<AI("axis", 1)>>, <<X, I64(<<2, 0>>)>>, SemGather(X, I64(<<2, 0>>), <<AI("axis", 1)>>), <<dt>>))
   /\ P(CaseRec("dtypes", "Expand", <<>>, <<Y, I64(<<2, 2, 3>>)>>, SemExpand(Y, I64(<<2, 2, 3>>)), <<dt>>))
DtypeCases(dt) == DtypeCasesXY(dt, Iota(dt, <<2, 3>>, 0), Iota(dt, <<2, 1>>, 50))
\* the operators move bit patterns: NaN, infinities, the sign of zero and extreme integers arrive unchanged (compared bit for bit)
SpecialValueCases ==
   /\ \A dt \in {"f32", "f64"} : DtypeCasesXY(dt \o "_special", T(dt, <<2, 3>>, <<NZ, NaN, PInf, NInf, FMax, Fin(0)>>), T(dt, <<2, 1>>, <<NMax, NZ>>))
   /\ \A dt \in {"i8", "i64"} : DtypeCasesXY(dt \o "_special", T(dt, <<2, 3>>, <<IMinS, IMaxS, Fin(-1), Fin(0), Sym(1, 1), Sym(1, -2)>>), T(dt, <<2, 1>>, <<IMaxS, IMinS>>))
   /\ \A dt \in {"u8", "u64"} : DtypeCasesXY(dt \o "_special", T(dt, <<2, 3>>, <<IMaxU, Sym(1, 0), Fin(0), Sym(1, -1), Fin(-2), Fin(1)>>), T(dt, <<2, 1>>, <<Sym(1, 0), IMaxU>>))

\* an axis / permutation entry at the edge of the 64-bit range is out of range for every tensor
ExtremeAxisCases(shape) ==
   \A k \in 1..Len(ExtremeI64) : LET e == ExtremeI64[k] X == Iota("f32", shape, 0) r == Len(shape) IN
      /\ P(CaseRec("concat", "Concat", <<AI("axis", e)>>, <<X, X>>, MustError, <<"invalid", "extreme_axis">>))
      /\ P(CaseRec("gather", "Gather", <<AI("axis", e)>>, <<X, T("i64", <<1>>, <<0>>)>>, MustError, <<"invalid", "extreme_axis">>))
      /\ P(CaseRec("gather", "Gather", <<>>, <<X, T("i64", <<1>>, <<e>>)>>, MustError, <<"invalid", "extreme_index">>))
      /\ P(CaseRec("transpose", "Transpose", <<AIs("perm", [i \in 1..r |-> IF i = r THEN e ELSE Fin(i - 1)])>>, <<X>>, MustError, <<"invalid", "extreme_perm">>))

\* long tensors (an element count that is no multiple of a block size): every element ends up where the operator sends it
LongCases ==
   LET n == 20001 X == Iota("f32", <<n, 2>>, 0) V == Iota("i64", <<2 * n + 1>>, 0) IN
   /\ P(CaseRec("long", "Transpose", <<AIs("perm", <<1, 0>>)>>, <<X>>, SemTranspose(X, <<AIs("perm", <<1, 0>>)>>), <<"value", "long">>))
   /\ \A ax \in {0, 1} : P(CaseRec("long", "Concat", <<AI("axis", ax)>>, <<X, X>>, SemConcat(<<X, X>>, <<AI("axis", ax)>>), <<"value", "long">>))
   /\ P(CaseRec("long", "Concat", <<AI("axis", 0)>>, <<V, V>>, SemConcat(<<V, V>>, <<AI("axis", 0)>>), <<"value", "long">>))
   \* a long input LIST: 40 and 130 tensors of different extents along the axis
   /\ \A m \in {40, 130} : \A ax \in {0, 1} :
         LET Xs == [i \in 1..m |-> Iota("f32", IF ax = 0 THEN <<1 + (i % 3), 2>> ELSE <<2, 1 + (i % 3)>>, 10 * i)] IN
         P(CaseRec("long", "Concat", <<AI("axis", ax)>>, Xs, SemConcat(Xs, <<AI("axis", ax)>>), <<"value", "long_list">>))
   /\ LET a == SemSliceInts(V, <<1>>, <<2 * n>>, <<0>>, <<1>>) IN P(CaseRec("long", "Slice", <<>>, <<V, I64(<<1>>), I64(<<2 * n>>), I64(<<0>>), I64(<<1>>)>>, a, <<"value", "long">>))
   /\ LET a == SemSliceInts(V, <<2 * n>>, <<0>>, <<0>>, <<-1>>) IN P(CaseRec("long", "Slice", <<>>, <<V, I64(<<2 * n>>), I64(<<0>>), I64(<<0>>), I64(<<-1>>)>>, a, <<"value", "long">>))
   /\ LET I == T("i64", <<n>>, [k \in 1..n |-> (k * 7919) % (2 * n + 1)]) IN P(CaseRec("long", "Gather", <<>>, <<V, I>>, SemGather(V, I, <<>>), <<"value", "long">>))
   /\ LET C == Iota("f32", <<n, 1>>, 0) S == I64(<<n, 2>>) IN P(CaseRec("long", "Expand", <<>>, <<C, S>>, SemExpand(C, S), <<"value", "long">>))

\* inputs without elements (extent 0 along the concatenation axis): they contribute nothing, but they are inputs all the same - a
\* mismatch on another axis is refused; a consistent request is answered with the others' elements, or refused (the tensor
\* library cannot address an empty range)
ZeroExtentConcatCases ==
   LET E(shape) == T("f32", shape, <<>>) A == Iota("f32", <<2, 3>>, 0) B == Iota("f32", <<3, 2>>, 10) C == Iota("f32", <<1, 3>>, 20) IN
   /\ P(CaseRec("concat", "Concat", <<AI("axis", 0)>>, <<A, E(<<0, 5>>)>>, MustError, <<"invalid", "zero_extent_mismatch">>))
   /\ P(CaseRec("concat", "Concat", <<AI("axis", 0)>>, <<E(<<0, 5>>), A>>, MustError, <<"invalid", "zero_extent_mismatch">>))
   /\ P(CaseRec("concat", "Concat", <<AI("axis", -1)>>, <<B, E(<<4, 0>>)>>, MustError, <<"invalid", "zero_extent_mismatch">>))
   /\ P(CaseRec("concat", "Concat", <<AI("axis", 0)>>, <<C, E(<<0, 2>>), A>>, MustError, <<"invalid", "zero_extent_mismatch">>))
   /\ P(CaseRec("concat", "Concat", <<AI("axis", 1)>>, <<A, E(<<3, 0>>)>>, MustError, <<"invalid", "zero_extent_mismatch">>))
   /\ P(CaseRec("concat", "Concat", <<AI("axis", 0)>>, <<A, E(<<0, 3>>)>>, ValueOrError(<<A>>), <<"value_or_error", "zero_extent_consistent">>))
   /\ P(CaseRec("concat", "Concat", <<AI("axis", 1)>>, <<E(<<2, 0>>), A>>, ValueOrError(<<A>>), <<"value_or_error", "zero_extent_consistent">>))

\* tiling law (Outcome.tla): operators that leave the leading axis in place treat its rows independently
TileEmit(op, attrs, ins, a, S, Sem(_)) ==
   TileLaw(Sem, ins, S) => P(CaseRec("tile", op, attrs, ins, a, <<"value", "tile_law">>) @@ [tile |-> TileField(S)])
TileIndexCases ==
   LET X == Iota("f32", <<3, 2, 2>>, 0) Y == Iota("f32", <<3, 4>>, 0) Y1 == Iota("f32", <<3, 1>>, 50) IN
   /\ \A p \in {<<0, 2, 1>>, <<0, 1, 2>>} : TileEmit("Transpose", <<AIs("perm", p)>>, <<X>>, SemTranspose(X, <<AIs("perm", p)>>), {1}, LAMBDA ins : SemTranspose(ins[1], <<AIs("perm", p)>>))
   /\ \A ax \in {1, -1} : TileEmit("Concat", <<AI("axis", ax)>>, <<Y, Y1>>, SemConcat(<<Y, Y1>>, <<AI("axis", ax)>>), {1, 2}, LAMBDA ins : SemConcat(ins, <<AI("axis", ax)>>))
   /\ TileEmit("Concat", <<AI("axis", 1)>>, <<Y, Y1, Y>>, SemConcat(<<Y, Y1, Y>>, <<AI("axis", 1)>>), {1, 2, 3}, LAMBDA ins : SemConcat(ins, <<AI("axis", 1)>>))
   /\ \A se \in {<<1, 3, 1>>, <<0, 4, 2>>, <<3, 0, -1>>} :
         TileEmit("Slice", <<>>, <<Y, I64(<<se[1]>>), I64(<<se[2]>>), I64(<<1>>), I64(<<se[3]>>)>>, SemSliceInts(Y, <<se[1]>>, <<se[2]>>, <<1>>, <<se[3]>>), {1},
                  LAMBDA ins : SemSliceInts(ins[1], <<se[1]>>, <<se[2]>>, <<1>>, <<se[3]>>))
   /\ \A ix \in {<<2, 0>>, <<-1>>, <<1, 1, 3>>} :
         TileEmit("Gather", <<AI("axis", 1)>>, <<Y, I64(ix)>>, SemGather(Y, I64(ix), <<AI("axis", 1)>>), {1}, LAMBDA ins : SemGather(ins[1], ins[2], <<AI("axis", 1)>>))

Init ==
   \/ ("dtypes" \in Fams /\ st \in [fam : {"dtypes"}, dt : AllDTypes, done : {FALSE}])
   \/ ("transpose" \in Fams /\ st \in [fam : {"transpose"}, shape : DataShapes(1..4), done : {FALSE}])
   \/ ("concat" \in Fams /\ st \in [fam : {"concat"}, shape : DataShapes(1..3), axis : -4..3, done : {FALSE}])
   \/ ("slice" \in Fams /\ st \in [fam : {"slice"}, shape : ShapesOf(1..SliceRank, 1..4), done : {FALSE}])
   \/ ("slice" \in Fams /\ st \in [fam : {"slicepair"}, shape : ShapesOf(2..3, IF SlicePairs THEN 2..3 ELSE {}), done : {FALSE}])
   \/ ("slice" \in Fams /\ st \in [fam : {"slicex"}, shape : ShapesOf(1..2, 1..3), done : {FALSE}])
   \/ ("gather" \in Fams /\ st \in [fam : {"gather"}, shape : DataShapes(1..3), axis : -4..3, done : {FALSE}])
   \/ ("expand" \in Fams /\ st \in [fam : {"expand"}, shape : DataShapes(0..ExpandRank), target : DataShapes(0..ExpandRank), done : {FALSE}])

Emit ==
   /\ ~st.done
   /\ CASE st.fam = "transpose" -> TransposeCases(st.shape) /\ (Len(st.shape) <= 2 /\ st.shape[1] = 2 => ExtremeAxisCases(st.shape))
        [] st.fam = "concat"    -> (st.axis \in (-Len(st.shape) - 1)..Len(st.shape) => ConcatCases(st.shape, st.axis))
        [] st.fam = "slice"     -> SliceCases(st.shape)
        [] st.fam = "slicepair" -> SlicePairCases(st.shape)
        [] st.fam = "slicex"    -> SliceExtremeCases(st.shape) /\ SliceInvalidCases(st.shape)
        [] st.fam = "gather"    -> (st.axis \in (-Len(st.shape) - 1)..Len(st.shape) => GatherCases(st.shape, st.axis))
        [] st.fam = "expand"    -> ExpandCases(st.shape, st.target)
        [] st.fam = "dtypes"    -> DtypeCases(st.dt) /\ (st.dt = "f32" => LongCases /\ SpecialValueCases /\ TileIndexCases /\ ZeroExtentConcatCases /\ AxesListCases)
   /\ st' = [st EXCEPT !.done = TRUE]
Next == Emit
Spec == Init /\ [][Next]_st

\* laws (design level)
Laws ==
   /\ (st.fam = "transpose" =>
         \A p \in Perms(Len(st.shape)) :
            LET X == Iota("f32", st.shape, 0)
                inv == [i \in 1..Len(p) |-> (CHOOSE j \in 1..Len(p) : p[j] = i - 1) - 1]
            IN TransposeValue(TransposeValue(X, p), inv) = X)
   /\ (st.fam = "expand" /\ BCompat(st.shape, st.target) =>
         SemExpand(Iota("f32", st.shape, 0), I64(st.target)).value[1].shape = BShape(st.shape, st.target))
=============================================================================
