SPECIFICATION Spec
CONSTANTS
  Fams = {"exact", "prelu", "table", "long"}
  LongSizes = {40003}
  MaxRank = 3
  MaxExt = 3
INVARIANT Laws
CHECK_DEADLOCK FALSE
