SPECIFICATION Spec
CONSTANTS
  Fams = {"exact", "prelu", "table"}
  MaxRank = 3
  MaxExt = 3
INVARIANT Laws
CHECK_DEADLOCK FALSE
