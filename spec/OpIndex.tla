------------------------------- MODULE OpIndex -------------------------------
(***************************************************************************)
(* Transpose, Concat, Slice, Gather, Expand (C08): the ONNX index formulae.*)
(* Element convention: any (elements are only moved).                      *)
(***************************************************************************)
EXTENDS Attrs

\* ---------------------------------------------------------------- Transpose
\* out.shape[i] = in.shape[p[i]] ; out[idx] = in[src] with src[p[i]] = idx[i]
TransposeValue(X, p) ==
   LET r == Len(X.shape)
       oshape == [i \in 1..r |-> X.shape[p[i] + 1]]
       inv == [j \in 0..(r - 1) |-> CHOOSE i \in 1..r : p[i] = j]
   IN Mk(X.dt, oshape, LAMBDA idx : At(X, [j \in 1..r |-> idx[inv[j - 1]]]))
SemTranspose(X, attrs) ==
   LET r == Len(X.shape) IN
   IF ~HasAttr(attrs, "perm")
   THEN ValueOrError(<<TransposeValue(X, [i \in 1..r |-> r - i])>>)     \* ONNX default: reverse; the library requires perm
   ELSE LET p == AttrV(attrs, "perm", <<>>) IN
        IF IsPerm(p, r) THEN MustValue(<<TransposeValue(X, p)>>) ELSE MustError

\* ------------------------------------------------------------------- Concat
ConcatValid(Xs, axis) ==
   LET r == Len(Xs[1].shape) IN
   /\ r >= 1 /\ AxisOK(axis, r)
   /\ \A k \in 1..Len(Xs) : Len(Xs[k].shape) = r /\ Xs[k].dt = Xs[1].dt
   /\ \A k \in 1..Len(Xs) : \A i \in 1..r : i # NormAxis(axis, r) + 1 => Xs[k].shape[i] = Xs[1].shape[i]
ConcatValue(Xs, axis) ==
   LET r == Len(Xs[1].shape) a == NormAxis(axis, r) + 1
       ext == [k \in 1..Len(Xs) |-> Xs[k].shape[a]]
       oshape == [Xs[1].shape EXCEPT ![a] = SumSeq(ext, 1)]
       \* which input holds position j (0-based) along the axis, and at which offset
       Src(j) == CHOOSE k \in 1..Len(Xs) : SumSeq(Take(ext, k - 1), 1) <= j /\ j < SumSeq(Take(ext, k), 1)
   IN Mk(Xs[1].dt, oshape, LAMBDA idx : LET k == Src(idx[a]) IN At(Xs[k], [idx EXCEPT ![a] = idx[a] - SumSeq(Take(ext, k - 1), 1)]))
SemConcat(Xs, attrs) ==
   IF ~HasAttr(attrs, "axis") THEN MustError
   ELSE LET axis == AttrV(attrs, "axis", 0) IN
        IF ConcatValid(Xs, axis) THEN MustValue(<<ConcatValue(Xs, axis)>>)
        ELSE IF Len(Xs) = 1 THEN NoCrash ELSE MustError

\* -------------------------------------------------------------------- Slice
\* one sliced axis: ONNX clamping rules
ClampI(v, lo, hi) == IF v < lo THEN lo ELSE IF v > hi THEN hi ELSE v
SliceStart(s, dim, step) == LET t == IF s < 0 THEN s + dim ELSE s IN
                            IF step > 0 THEN ClampI(t, 0, dim) ELSE ClampI(t, 0, dim - 1)
SliceEnd(e, dim, step)   == LET t == IF e < 0 THEN e + dim ELSE e IN
                            IF step > 0 THEN ClampI(t, 0, dim) ELSE ClampI(t, -1, dim - 1)
SliceExtent(s, e, dim, step) ==
   LET a == SliceStart(s, dim, step) b == SliceEnd(e, dim, step) IN
   IF step > 0 THEN MaxI(0, CeilDiv(b - a, step)) ELSE MaxI(0, CeilDiv(a - b, -step))
\* "plain" request: no negative value, no clamping, positive step
SlicePlain(s, e, dim, step) == step >= 1 /\ 0 <= s /\ s < e /\ e <= dim
\* starts/ends/axes/steps: integer sequences of equal length (axes normalised and distinct)
SliceValue(X, starts, ends, axes, steps) ==
   LET r == Len(X.shape)
       K(i) == CHOOSE k \in 1..Len(axes) : NormAxis(axes[k], r) + 1 = i       \* entry that slices axis i
       Sliced(i) == \E k \in 1..Len(axes) : NormAxis(axes[k], r) + 1 = i
       oshape == [i \in 1..r |-> IF Sliced(i) THEN SliceExtent(starts[K(i)], ends[K(i)], X.shape[i], steps[K(i)]) ELSE X.shape[i]]
   IN Mk(X.dt, oshape, LAMBDA idx :
         At(X, [i \in 1..r |-> IF Sliced(i) THEN SliceStart(starts[K(i)], X.shape[i], steps[K(i)]) + idx[i] * steps[K(i)] ELSE idx[i]]))
SliceWellFormed(X, starts, ends, axes, steps) ==
   LET r == Len(X.shape) IN
   /\ r >= 1 /\ Len(ends) = Len(starts) /\ Len(axes) = Len(starts) /\ Len(steps) = Len(starts)
   /\ \A k \in 1..Len(axes) : AxisOK(axes[k], r)
   /\ Injective([k \in 1..Len(axes) |-> NormAxis(axes[k], r)])
   /\ \A k \in 1..Len(steps) : steps[k] # 0
\* ints: small integer values of starts/ends (extreme values are handled by the caller through clamping bounds)
SemSliceInts(X, starts, ends, axes, steps) ==
   IF ~SliceWellFormed(X, starts, ends, axes, steps) THEN MustError
   ELSE LET r == Len(X.shape)
            dim(k) == X.shape[NormAxis(axes[k], r) + 1]
            v == SliceValue(X, starts, ends, axes, steps)
        IN IF \E k \in 1..Len(axes) : steps[k] < 0 /\ starts[k] < -dim(k) THEN NoCrash   \* numpy and the ONNX clamp text differ
           ELSE IF Size(v.shape) = 0 THEN ValueOrError(<<v>>)          \* empty result: not representable by every tensor library
           ELSE IF \A k \in 1..Len(axes) : SlicePlain(starts[k], ends[k], dim(k), steps[k]) THEN MustValue(<<v>>)
           ELSE ValueOrError(<<v>>)                                   \* negative / clamped / reversed: may be refused, never answered differently

\* Defect models of Slice (as-is behaviour of the tensor library's slicing, explained in DESIGN.md):
\*  KF-C08-slice-drops-unit-axes : every *sliced* axis left with one element is removed from the result; a rank-0
\*                                 tensor is returned when the selected region is a single element
\*  KF-C08-slice-step-axis0      : on the FIRST axis the extent for step > 1 is floor((end-start)/step) (at least 1)
\*                                 instead of the ceiling, so the last selected element is lost
AsIsSlice(X, starts, ends, axes, steps, floorFirst) ==
   LET r == Len(X.shape)
       K(i) == CHOOSE k \in 1..Len(axes) : NormAxis(axes[k], r) + 1 = i
       Sliced(i) == \E k \in 1..Len(axes) : NormAxis(axes[k], r) + 1 = i
       S(i) == SliceStart(starts[K(i)], X.shape[i], steps[K(i)])
       E(i) == SliceEnd(ends[K(i)], X.shape[i], steps[K(i)])
       ext(i) == IF ~Sliced(i) THEN X.shape[i]
                 ELSE IF floorFirst /\ i = 1 THEN MaxI(1, (E(i) - S(i)) \div steps[K(i)])
                 ELSE CeilDiv(E(i) - S(i), steps[K(i)])
       full == [i \in 1..r |-> ext(i)]
       v == Mk(X.dt, full, LAMBDA idx : At(X, [i \in 1..r |-> IF Sliced(i) THEN S(i) + idx[i] * steps[K(i)] ELSE idx[i]]))
       single == \A i \in 1..r : IF Sliced(i) THEN E(i) - S(i) = 1 ELSE X.shape[i] = 1
       keep == SelectSeq([i \in 1..r |-> i], LAMBDA i : ~(Sliced(i) /\ full[i] = 1))
   IN IF single THEN T(v.dt, <<>>, v.data)
      ELSE T(v.dt, [j \in 1..Len(keep) |-> full[keep[j]]], v.data)
KnownSlice(X, starts, ends, axes, steps) ==
   IF SliceWellFormed(X, starts, ends, axes, steps) /\ \A k \in 1..Len(steps) : steps[k] > 0
   THEN LET v == SliceValue(X, starts, ends, axes, steps) IN
        IF Size(v.shape) = 0 THEN <<>>
        ELSE LET m1 == AsIsSlice(X, starts, ends, axes, steps, FALSE)
                 m2 == AsIsSlice(X, starts, ends, axes, steps, TRUE)
             IN (IF m1 # v THEN <<Known("KF-C08-slice-drops-unit-axes", "value", <<m1>>)>> ELSE <<>>) \o
                (IF m2 # m1 /\ m2 # v THEN <<Known("KF-C08-slice-step-axis0", "value", <<m2>>)>> ELSE <<>>)
   ELSE <<>>

\* ------------------------------------------------------------------- Gather
GatherValue(X, I, axis) ==
   LET r == Len(X.shape) a == NormAxis(axis, r) q == Len(I.shape)
       oshape == Take(X.shape, a) \o I.shape \o Drop(X.shape, a + 1)
       dimA == X.shape[a + 1]
   IN Mk(X.dt, oshape, LAMBDA idx :
         LET k == At(I, [j \in 1..q |-> idx[a + j]])
             kk == IF k < 0 THEN k + dimA ELSE k
         IN At(X, [i \in 1..r |-> IF i <= a THEN idx[i] ELSE IF i = a + 1 THEN kk ELSE idx[i + q - 1]]))
SemGather(X, I, attrs) ==
   LET r == Len(X.shape) axis == AttrV(attrs, "axis", 0) IN
   IF r = 0 \/ ~AxisOK(axis, r) THEN MustError
   ELSE LET dimA == X.shape[NormAxis(axis, r) + 1] IN
        IF \E k \in 1..Len(I.data) : I.data[k] < -dimA \/ I.data[k] > dimA - 1 THEN MustError
        ELSE MustValue(<<GatherValue(X, I, axis)>>)

\* ------------------------------------------------------------------- Expand
SemExpand(X, S) ==
   IF Len(S.shape) # 1 THEN MustError
   ELSE IF \E i \in 1..Len(S.data) : S.data[i] < 1 THEN MustError
   ELSE IF BCompat(X.shape, S.data) THEN MustValue(<<BroadcastTo(X, BShape(X.shape, S.data))>>)
   ELSE MustError
=============================================================================
