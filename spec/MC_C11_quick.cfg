SPECIFICATION Spec
CONSTANTS
  Fams = {"constant", "cos", "cast"}
  MaxRank = 3
  MaxExt = 3
CHECK_DEADLOCK FALSE
