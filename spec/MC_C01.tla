------------------------------- MODULE MC_C01 -------------------------------
(***************************************************************************)
(* C01: Run computes the dataflow composition of the graph.                *)
(* A PROGRAM BUILDER: actions AddNode(template, wiring) over a typed       *)
(* catalogue (every name in scope carries its shape class, so only         *)
(* well-typed wirings are generated); Finish evaluates the program with    *)
(* RunSem and prints it with the expected value of EVERY tensor (all       *)
(* intermediate tensors are declared as graph outputs).                    *)
(* BFS enumerates every program of <= MaxNodes nodes exactly once;         *)
(* -simulate samples longer ones.                                          *)
(***************************************************************************)
EXTENDS RunSem, Json
CONSTANTS MaxNodes, FinishAtMax, TplFilter, Supplied       \* FinishAtMax: only complete programs are evaluated (simulation); Supplied: whether the caller supplies the input "d" that is also an initializer
VARIABLES prog, scope, phase, env, pc
vars == <<prog, scope, phase, env, pc>>
P(c) == PrintT(<<"CASE", ToJson(c)>>)

\* ---- shape classes
ShapeOfTy(ty) == CASE ty = "M" -> <<2, 3>> [] ty = "Mt" -> <<3, 2>> [] ty = "M4" -> <<4, 3>> [] ty = "F" -> <<1, 6>>
                   [] ty = "X3" -> <<2, 1, 3>> [] ty = "Y4" -> <<2, 1, 1, 3>> [] ty = "H3" -> <<1, 1, 3>>
                   [] ty = "S" -> <<>> [] ty = "X1" -> <<1, 2, 3>> [] ty = "Y1" -> <<1, 1, 2, 3>> [] ty = "H1" -> <<1, 2, 3>>     \* one time step, batch 2

\* ---- initializers (weights); "d" is also declared as a graph input
W33 == T("f32", <<3, 3>>, <<1, -1, 2, 0, 1, -2, 3, 1, 0>>)
C3  == T("f32", <<3>>, <<10, 20, 30>>)
Shp == T("i64", <<2>>, <<2, 3>>)
Ax1 == T("i64", <<1>>, <<1>>)
Ax12 == T("i64", <<2>>, <<1, 2>>)
Ax0 == T("i64", <<1>>, <<0>>)
Ax01 == T("i64", <<2>>, <<0, 1>>)
St1 == T("i64", <<1>>, <<1>>)
En3 == T("i64", <<1>>, <<3>>)
Dd  == Iota("f32", <<2, 3>>, 50)
\* recurrent weights: small integers, distinct per gate block; relu activations keep everything exact
RW(G, width, salt) == T("f32", <<1, G * 3, width>>, [n \in 1..(G * 3 * width) |-> ((n * 5 + salt) % 3) - 1])
RB(G, salt) == T("f32", <<1, 2 * G * 3>>, [n \in 1..(2 * G * 3) |-> ((n * 2 + salt) % 3) - 1])
Inits == [w33 |-> W33, c3 |-> C3, shp |-> Shp, ax1 |-> Ax1, ax12 |-> Ax12, ax0 |-> Ax0, ax01 |-> Ax01, st1 |-> St1, en3 |-> En3, d |-> Dd,
          gw |-> RW(3, 3, 0), gr |-> RW(3, 3, 1), gb |-> RB(3, 2),
          lw |-> RW(4, 3, 2), lr |-> RW(4, 3, 0), lb |-> RB(4, 1),
          rw |-> RW(1, 3, 1), rr |-> RW(1, 3, 2), ks |-> T("f32", <<>>, <<5>>)]

\* ---- templates: [op, attrs, ins (type names for scope-bound inputs, "=name" for fixed initializers, "" for a skipped input), outs (types, "" = skipped)]
Tpl(op, attrs, ins, outs) == [op |-> op, attrs |-> attrs, ins |-> ins, outs |-> outs]
Templates ==
   {Tpl("Add", <<>>, <<"M", "M">>, <<"M">>), Tpl("Sub", <<>>, <<"M", "M">>, <<"M">>), Tpl("Mul", <<>>, <<"M", "M">>, <<"M">>),
    Tpl("Relu", <<>>, <<"M">>, <<"M">>), Tpl("Abs", <<>>, <<"M">>, <<"M">>),
    Tpl("Mul", <<>>, <<"M", "S">>, <<"M">>), Tpl("Add", <<>>, <<"S", "M">>, <<"M">>),        \* a rank-0 graph input as operand
    Tpl("Gemm", <<AF("alpha", Fin(2)), AF("beta", Fin(1))>>, <<"M", "=w33", "=c3">>, <<"M">>),
    Tpl("Gemm", <<AI("transB", 1)>>, <<"M", "=w33">>, <<"M">>),
    Tpl("Gemm", <<AF("alpha", Fin(-1)), AI("transA", 1)>>, <<"Mt", "=w33", "=c3">>, <<"M">>),
    Tpl("Transpose", <<AIs("perm", <<1, 0>>)>>, <<"M">>, <<"Mt">>), Tpl("Transpose", <<AIs("perm", <<1, 0>>)>>, <<"Mt">>, <<"M">>),
    Tpl("Flatten", <<AI("axis", 0)>>, <<"M">>, <<"F">>), Tpl("Flatten", <<AI("axis", 1)>>, <<"M">>, <<"M">>),
    Tpl("Reshape", <<>>, <<"F", "=shp">>, <<"M">>),
    Tpl("Concat", <<AI("axis", 0)>>, <<"M", "M">>, <<"M4">>),
    Tpl("Slice", <<>>, <<"M4", "=st1", "=en3", "", "=st1">>, <<"M">>),           \* optional input `axes` skipped in the middle
    Tpl("Slice", <<>>, <<"M4", "=st1", "=en3">>, <<"M">>),
    Tpl("Constant", <<AT("value", [dt |-> "f32", shape |-> <<2, 3>>, data |-> <<7, 0, -7, 1, 2, 3>>])>>, <<>>, <<"M">>),
    Tpl("Unsqueeze", <<>>, <<"M", "=ax1">>, <<"X3">>),
    Tpl("Squeeze", <<>>, <<"Y4", "=ax12">>, <<"M">>),
    Tpl("GRU", <<AI("hidden_size", 3), ASs("activations", <<"relu", "relu">>)>>, <<"X3", "=gw", "=gr", "=gb">>, <<"Y4", "H3">>),
    Tpl("GRU", <<AI("hidden_size", 3), ASs("activations", <<"relu", "relu">>), AI("linear_before_reset", 1)>>, <<"X3", "=gw", "=gr">>, <<"Y4">>),   \* trailing output omitted
    Tpl("GRU", <<AI("hidden_size", 3), ASs("activations", <<"relu", "relu">>)>>, <<"X3", "=gw", "=gr", "", "", "H3">>, <<"", "H3">>),             \* first output skipped, B and sequence_lens skipped
    Tpl("LSTM", <<AI("hidden_size", 3), ASs("activations", <<"relu", "relu", "relu">>)>>, <<"X3", "=lw", "=lr", "=lb">>, <<"Y4", "H3", "H3">>),
    Tpl("LSTM", <<AI("hidden_size", 3), ASs("activations", <<"relu", "relu", "relu">>)>>, <<"X3", "=lw", "=lr">>, <<"Y4", "", "H3">>),               \* middle output skipped
    Tpl("RNN", <<AI("hidden_size", 3), ASs("activations", <<"relu">>)>>, <<"X3", "=rw", "=rr">>, <<"Y4", "H3">>),
    \* the FIRST output omitted (only the final state is used) on two more operators: a program may hold several such nodes, of
    \* different types and attributes - each node is its own operator whatever its first output is called
    Tpl("RNN", <<AI("hidden_size", 3), ASs("activations", <<"relu">>)>>, <<"X3", "=rw", "=rr">>, <<"", "H3">>),
    Tpl("LSTM", <<AI("hidden_size", 3), ASs("activations", <<"relu", "relu", "relu">>)>>, <<"X3", "=lw", "=lr", "=lb">>, <<"", "H3">>),
    \* sequences of ONE step (batch 2): Y and Y_h hold the same values in different shapes
    Tpl("Unsqueeze", <<>>, <<"M", "=ax0">>, <<"X1">>),
    Tpl("Squeeze", <<>>, <<"Y1", "=ax01">>, <<"M">>),
    Tpl("Squeeze", <<>>, <<"H1", "=ax0">>, <<"M">>),
    Tpl("LSTM", <<AI("hidden_size", 3), ASs("activations", <<"relu", "relu", "relu">>)>>, <<"X1", "=lw", "=lr", "=lb">>, <<"Y1", "H1", "H1">>),
    Tpl("GRU", <<AI("hidden_size", 3), ASs("activations", <<"relu", "relu">>)>>, <<"X1", "=gw", "=gr", "=gb">>, <<"Y1", "H1">>),
    Tpl("RNN", <<AI("hidden_size", 3), ASs("activations", <<"relu">>)>>, <<"X1", "=rw", "=rr">>, <<"Y1", "H1">>)}

\* ---- scope: sequence of [name, ty]; graph inputs a, b : M and d : M (also an initializer)
\* k : S is a rank-0 graph input without default, ks : S a rank-0 graph input that is also an initializer
Scope0 == <<[name |-> "a", ty |-> "M"], [name |-> "b", ty |-> "M"], [name |-> "d", ty |-> "M"], [name |-> "k", ty |-> "S"], [name |-> "ks", ty |-> "S"]>>
NIn == Len(Scope0)
NamesOfTy(sc, ty) == {sc[i].name : i \in {j \in 1..Len(sc) : sc[j].ty = ty}}
\* all assignments of scope names to the typed positions of a template
FreePos(t) == {i \in 1..Len(t.ins) : t.ins[i] # "" /\ SubSeq(t.ins[i], 1, 1) # "="}
Wirings(t, sc) == {w \in [FreePos(t) -> {sc[i].name : i \in 1..Len(sc)}] : \A i \in FreePos(t) : w[i] \in NamesOfTy(sc, t.ins[i])}
\* output names: deliberately unhelpful - the second output of node k is called "Y", the first "Y_h<k>", the third "zz<k>"
OutName(k, j) == CASE j = 1 -> "Y_h" \o ToString(k) [] j = 2 -> "Y" \o ToString(k) [] OTHER -> "zz" \o ToString(k)
NodeOf(t, w, k) ==
   [op |-> t.op, attrs |-> t.attrs,
    ins |-> [i \in 1..Len(t.ins) |-> IF t.ins[i] = "" THEN "" ELSE IF i \in FreePos(t) THEN w[i] ELSE SubSeq(t.ins[i], 2, Len(t.ins[i]))],
    outs |-> [j \in 1..Len(t.outs) |-> IF t.outs[j] = "" THEN "" ELSE OutName(k, j)]]

Init == prog = <<>> /\ scope = Scope0 /\ phase = "build" /\ env = <<>> /\ pc = 0

AddNode(t, w) ==
   /\ phase = "build" /\ Len(prog) < MaxNodes
   /\ LET k == Len(prog) + 1 n == NodeOf(t, w, k) IN
      /\ prog' = Append(prog, n)
      /\ scope' = scope \o SelectSeq([j \in 1..Len(t.outs) |-> [name |-> n.outs[j], ty |-> t.outs[j]]], LAMBDA e : e.ty # "")
   /\ UNCHANGED <<phase, env, pc>>

GraphOf(p, sc) ==
   [nodes |-> p,
    inputs |-> <<[name |-> "a", dt |-> "f32", dims |-> <<DFix(2), DFix(3)>>], [name |-> "b", dt |-> "f32", dims |-> <<DSym, DFix(3)>>],
                 [name |-> "d", dt |-> "f32", dims |-> <<DFix(2), DFix(3)>>],
                 [name |-> "k", dt |-> "f32", dims |-> <<>>], [name |-> "ks", dt |-> "f32", dims |-> <<>>]>>,
    outputs |-> [i \in 1..(Len(sc) - NIn) |-> sc[i + NIn].name] \o <<"a", "d">>,       \* every produced tensor, a pass-through input and the defaulted input
    inits |-> Inits]
InitsSeq(g) == LET names == SeqOfSet(DOMAIN g.inits) IN [k \in 1..Len(names) |-> [name |-> names[k], t |-> g.inits[names[k]]]]
ModelJ(g) == [nodes |-> g.nodes, inputs |-> g.inputs, outputs |-> g.outputs, inits |-> InitsSeq(g), opset |-> 13]
InA == T("f32", <<2, 3>>, <<1, -2, 3, -4, 5, -6>>)
InB == T("f32", <<2, 3>>, <<2, 0, -1, 3, 1, -2>>)
InD == T("f32", <<2, 3>>, <<-1, -1, 4, 0, 2, 9>>)
InK == T("f32", <<>>, <<3>>)
InKs == T("f32", <<>>, <<-2>>)
CallIns == IF Supplied THEN [a |-> InA, b |-> InB, d |-> InD, k |-> InK, ks |-> InKs] ELSE [a |-> InA, b |-> InB, k |-> InK]

\* The finished program is then EXECUTED by the specification one node per transition, exactly as Run does: the environment
\* of names is a state variable (Seal = RunBegin, ExecNode = applyOp, Emit = the output collection of Run).
Seal ==
   /\ phase = "build" /\ Len(prog) >= 1 /\ (FinishAtMax => Len(prog) = MaxNodes)
   /\ Accept(GraphOf(prog, scope).inputs, DOMAIN Inits, ShapesOf_(CallIns))
   /\ phase' = "run" /\ pc' = 1 /\ env' = Env0([inits |-> Inits], CallIns)
   /\ UNCHANGED <<prog, scope>>
ExecNode ==
   /\ phase = "run" /\ pc <= Len(prog)
   /\ LET n == prog[pc] a == NodeSem(n.op, n.attrs, GatherVals(env, n.ins), Len(n.outs)) IN
      IF n.op \in SupportedOps /\ Known_(env, n.ins) /\ a.must = "value" /\ Len(n.outs) <= Len(a.value)
      THEN env' = BindVals(env, n.outs, a.value) /\ pc' = pc + 1 /\ UNCHANGED phase
      ELSE phase' = "indefinite" /\ UNCHANGED <<env, pc>>          \* not generated: the builder only produces valid programs
   /\ UNCHANGED <<prog, scope>>
Emit ==
   /\ phase = "run" /\ pc > Len(prog)
   /\ LET g == GraphOf(prog, scope) IN
      P([prop |-> "C01", fam |-> "program", kind |-> "model", op |-> "", attrs |-> <<>>, inputs |-> <<>>, nout |-> 0, allowed |-> NoCrash,
         cmp |-> "num", known |-> <<>>,
         feat |-> <<"nodes" \o ToString(Len(prog))>> \o [i \in 1..Len(prog) |-> prog[i].op] \o (IF Supplied THEN <<"d_supplied">> ELSE <<"d_defaulted">>),
         x |-> [model |-> ModelJ(g), calls |-> <<[ins |-> CallIns, reuse |-> <<>>, allowed |-> MustValue([i \in 1..Len(g.outputs) |-> env[g.outputs[i]]])]>>,
                checks |-> <<"inputs_unchanged", "weights_unchanged", "fresh_equal">>]])
   /\ phase' = "done" /\ UNCHANGED <<prog, scope, env, pc>>
Finish == Seal \/ ExecNode \/ Emit

\* TplFilter = "rec": only the recurrent pipeline (Unsqueeze -> RNN/GRU/LSTM -> Squeeze -> elementwise), so that longer programs
\* with multi-output nodes are enumerated completely
Active == CASE TplFilter = "rec" -> {t \in Templates : t.op \in {"Unsqueeze", "GRU", "LSTM", "RNN", "Squeeze", "Relu"}}
            [] TplFilter = "rec_small" -> {t \in Templates : t.op \in {"Unsqueeze", "GRU", "LSTM", "RNN", "Squeeze"}}
            [] TplFilter = "core" -> {t \in Templates : t.op \in {"Add", "Mul", "Relu", "Transpose", "Concat", "Slice", "Constant"} \/ (t.op = "Gemm" /\ Len(t.ins) = 3)}
            [] TplFilter = "norec" -> {t \in Templates : t.op \notin {"GRU", "LSTM", "RNN"}}
            [] OTHER -> Templates
Next == (\E t \in Active : \E w \in Wirings(t, scope) : AddNode(t, w)) \/ Finish
Spec == Init /\ [][Next]_vars
\* the node-by-node execution agrees with the functional semantics RunSem (checked where it is cheap: programs without recurrent nodes)
StagedEqualsRunSem ==
   (phase = "run" /\ pc > Len(prog) /\ \A i \in 1..Len(prog) : prog[i].op \notin {"GRU", "LSTM", "RNN"}) =>
      LET g == GraphOf(prog, scope) s == RunSem(g, CallIns) IN s.ok /\ s.out = [i \in 1..Len(g.outputs) |-> env[g.outputs[i]]]
\* every name is bound at most once (single assignment) and programs are in topological order by construction
WellFormed == \A i, j \in 1..Len(scope) : i # j => scope[i].name # scope[j].name
=============================================================================
