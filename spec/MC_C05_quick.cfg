SPECIFICATION Spec
CONSTANTS
  Fams = {"conv1d", "conv2d"}
  MaxL = 5
  MaxK1 = 3
  MaxHW = 4
  MaxK2 = 3
  MaxSD = 2
  MaxPad = 2
  MaxNCM = 2
CHECK_DEADLOCK FALSE
