------------------------------- MODULE MC_C18 -------------------------------
(***************************************************************************)
(* C18: loading never crashes; unsupported opsets / operators are refused. *)
(* Load over an abstract ModelProto:                                       *)
(*   opset = max version over ALL imports (whatever their domain);         *)
(*   supported iff it is 13, else the unsupported-opset error;             *)
(*   every initializer is decoded (Decode.tla): an undecodable one makes   *)
(*   the load fail;                                                        *)
(* and Run over graphs with an operator type outside the implemented set   *)
(* at every position: the unsupported-operator error, nothing skipped or   *)
(* substituted.  Every structured case is additionally PERTURBED at byte   *)
(* level by the harness (truncation at every offset, every byte            *)
(* overwritten with 00 / FF / 80): allowed outcome ok or error, never a    *)
(* panic.                                                                  *)
(***************************************************************************)
EXTENDS RunSem, Decode, Json
CONSTANTS Seed, RandomStrings
VARIABLES st
P(c) == PrintT(<<"CASE", ToJson(c)>>)
Nd(op, attrs, ins, outs) == [op |-> op, attrs |-> attrs, ins |-> ins, outs |-> outs]
InD(name, dims) == [name |-> name, dt |-> "f32", dims |-> dims]

\* ---- opset import lists: sequences of [domain, version]
\* a version is w * 2^31 + version: TLC integers are 32 bits wide, the protobuf field is 64 (w = 0 for every ordinary version)
Imp(d, v) == [domain |-> d, version |-> v, w |-> 0]
ImpW(d, w, lo) == [domain |-> d, version |-> lo, w |-> w]
OpsetLists == {<<>>, <<Imp("", 13)>>, <<Imp("", 12)>>, <<Imp("", 14)>>, <<Imp("", 1)>>, <<Imp("", 13), Imp("ai.onnx.ml", 1)>>,
               <<Imp("ai.onnx.ml", 1)>>, <<Imp("", 13), Imp("", 14)>>, <<Imp("", 11), Imp("", 13)>>, <<Imp("ai.onnx.ml", 13)>>,
               <<Imp("", 0)>>, <<Imp("", 21)>>, <<Imp("", -13)>>, <<Imp("ai.onnx.ml", 3), Imp("", 13), Imp("com.x", 2)>>,
               \* versions beyond 32 bits: 2^32+13, 13 next to 2^31 / 2^32+5 / 2^33, and very negative ones (below every ordinary version)
               <<ImpW("", 2, 13)>>, <<Imp("", 13), ImpW("", 1, 0)>>, <<ImpW("", 2, 5), Imp("", 13)>>, <<Imp("", 13), ImpW("com.x", 4, 0)>>,
               <<ImpW("", 6, 13)>>, <<ImpW("", -2, 13)>>, <<ImpW("", -2, 13), Imp("", 13)>>, <<Imp("", 13), ImpW("", -1, 0)>>, <<ImpW("", 1, 13)>>}
MaxVersion(l) == LET vs == {l[i].version : i \in {j \in 1..Len(l) : l[j].w = 0}} IN
                 IF vs = {} THEN 0 ELSE LET m == CHOOSE x \in vs : \A y \in vs : y <= x IN IF m > 0 THEN m ELSE 0
\* an import at or beyond 2^31 is larger than 13 whatever its low bits; one below -2^31 is smaller than every ordinary version
OpsetOK(l) == (\A i \in 1..Len(l) : l[i].w <= 0) /\ MaxVersion(l) = 13

\* ---- initializers: good ones and every kind of bad one (from the C12 space), as raw TensorProto descriptions
RawF32(dims, n) == [code |-> 1, dims |-> dims, enc |-> "raw", field |-> "none", raw |-> [k \in 1..(4 * n) |-> (k * 7) % 251], vals |-> <<>>]
RawOf(code, dims, nbytes) == [code |-> code, dims |-> dims, enc |-> "raw", field |-> "none", raw |-> [k \in 1..nbytes |-> (k * 7) % 251], vals |-> <<>>]
InitKinds == {"good", "short", "long", "ragged", "ragged_f64", "ragged_f64_1", "short_f64", "ragged_i64", "ragged_i16", "ragged_u32",
              "negdim", "negdim_pair", "negdim_pair3", "negdim_zero", "dims_wrap_0", "dims_wrap_n",
              "badtype", "badtype_typed", "empty_dims_two", "huge_dim"}
InitOf(k) ==
   CASE k = "good"    -> RawF32(<<2, 3>>, 6)
     [] k = "short"   -> RawF32(<<2, 3>>, 5)
     [] k = "long"    -> RawF32(<<2, 3>>, 7)
     [] k = "ragged"  -> [RawF32(<<2>>, 2) EXCEPT !.raw = <<1, 2, 3, 4, 5, 6, 7>>]
     \* incomplete trailing elements for the other element widths (every reader has its own loop)
     [] k = "ragged_f64"   -> RawOf(11, <<2>>, 8 * 2 + 3)
     [] k = "ragged_f64_1" -> RawOf(11, <<1>>, 1)
     [] k = "short_f64"    -> RawOf(11, <<3>>, 8 * 2)
     [] k = "ragged_i64"   -> RawOf(7, <<2>>, 8 * 2 + 7)
     [] k = "ragged_i16"   -> RawOf(5, <<3>>, 2 * 3 + 1)
     [] k = "ragged_u32"   -> RawOf(12, <<2>>, 4 * 2 + 2)
     [] k = "negdim"  -> RawF32(<<-2, 3>>, 6)
     [] k = "negdim_pair"  -> RawF32(<<-2, -3>>, 6)          \* the product of the dims is the (positive) payload size
     [] k = "negdim_pair3" -> RawF32(<<-1, 2, -3>>, 6)
     [] k = "negdim_zero"  -> RawF32(<<-1, 0>>, 0)
     [] k = "dims_wrap_0"  -> RawF32(<<1, 1>>, 0) @@ [bigdims |-> <<<<0, 0, 1>>, <<0, 0, 1>>>>]            \* 2^32 * 2^32 = 0 (mod 2^64)
     [] k = "dims_wrap_n"  -> RawF32(<<274177, 1, 2>>, 2) @@ [bigdims |-> <<<<>>, <<53505, 61852, 15664>>, <<>>>>]   \* (2^64 + 1) * 2 = 2 (mod 2^64)
     [] k = "badtype" -> [RawF32(<<2>>, 2) EXCEPT !.code = 10]
     [] k = "badtype_typed" -> [code |-> 8, dims |-> <<2>>, enc |-> "typed", field |-> "int32_data", raw |-> <<>>, vals |-> <<<<1, 0, 0, 0>>, <<2, 0, 0, 0>>>>]
     [] k = "empty_dims_two" -> RawF32(<<>>, 2)
     [] k = "huge_dim" -> RawF32(<<60000, 30000>>, 1)
InitLoadable(k) == LET a == DecodeAllowed(InitOf(k)) IN a.must = "value"
InitIndefinite(k) == DecodeAllowed(InitOf(k)).must \notin {"value", "error"} \/ KnownDecode(InitOf(k)) # <<>>

LoadOutcome(opsets, kinds) ==      \* kinds: sequence of initializer kinds
   IF \E i \in 1..Len(kinds) : InitIndefinite(kinds[i]) THEN [expect |-> "nocrash", errc |-> <<>>]
   ELSE IF \E i \in 1..Len(kinds) : ~InitLoadable(kinds[i]) THEN [expect |-> "error", errc |-> <<>>]
   ELSE IF ~OpsetOK(opsets) THEN [expect |-> "error", errc |-> <<"UnsupportedOpset">>]
   ELSE [expect |-> "ok", errc |-> <<>>]

LoadCase(opsets, kinds, nograph, perturb, feat) ==
   [prop |-> "C18", fam |-> "load", kind |-> "load", op |-> "", attrs |-> <<>>, inputs |-> <<>>, nout |-> 0, allowed |-> NoCrash, cmp |-> "num", known |-> <<>>,
    feat |-> feat \o <<LoadOutcome(opsets, kinds).expect>>,
    x |-> [opsets |-> opsets, inits |-> [i \in 1..Len(kinds) |-> [name |-> "w" \o ToString(i), p |-> InitOf(kinds[i])]], nograph |-> nograph,
           nodes |-> <<Nd("Relu", <<>>, <<"x">>, <<"y">>)>>, perturb |-> perturb]
          @@ (IF nograph THEN [expect |-> IF OpsetOK(opsets) THEN "ok" ELSE "error", errc |-> IF OpsetOK(opsets) THEN <<>> ELSE <<"UnsupportedOpset">>]
              ELSE LoadOutcome(opsets, kinds))]

\* ---- graph fields the interpreter has no use for (sparse initializers: complete, without values, without indices, empty): whatever the
\* loader does about them - ignore, refuse - it returns
SparseKinds == {"complete", "no_values", "no_indices", "empty", "values_unnamed", "two_no_values"}
SparseCase(kind, opsets) ==
   [LoadCase(opsets, <<"good">>, FALSE, "none", <<"sparse_initializer_" \o kind>>) EXCEPT !.x = @ @@ [sparse |-> kind], !.x.expect = "nocrash", !.feat = <<"sparse_initializer_" \o kind, "nocrash">>]

\* ---- graphs nested in graphs (control-flow operators carry subgraphs as attributes): 10, 5000 and 400000 levels deep, well formed.
\* Whatever the loader makes of them (the interpreter has no control flow), it returns: a depth is no reason to bring the process down
NestedCase(levels) ==
   [LoadCase(<<Imp("", 13)>>, <<>>, FALSE, "none", <<"nested_graphs">>) EXCEPT !.x = @ @@ [nested |-> levels], !.x.expect = "nocrash",
                                                                                   !.feat = <<"nested_graphs_" \o ToString(levels), "nocrash">>]

\* ---- unknown operator types at every position of a chain (also directly after a multi-output node)
UnknownOps == {"Gelu", "relu", "RELU", "", "Identity", "LayerNormalization", "com.x.Custom", "Relu ", "MaxPool",
               \* names that are dangerous inside a format string, a path or a lookup key
               "Relu%", "%v", "%s", "Top%dK", "100%Relu", "%w", "Re\\lu", "Relu/Add", "Add,Relu"}
ChainWith(unknown, pos, n, multi) ==     \* n nodes; node pos is of the unknown type
   [k \in 1..n |->
      LET inName == IF k = 1 THEN "x" ELSE "t" \o ToString(k - 1) IN
      IF k = pos THEN Nd(unknown, <<>>, <<inName>>, <<"t" \o ToString(k)>>)
      ELSE IF multi /\ k = pos - 1
           THEN Nd("GRU", <<AI("hidden_size", 2), ASs("activations", <<"relu", "relu">>)>>, <<inName, "gw", "gr">>, <<"t" \o ToString(k), "h" \o ToString(k)>>)
           ELSE Nd("Relu", <<>>, <<inName>>, <<"t" \o ToString(k)>>)]
RunUnknownCase(unknown, pos, n, multi) ==
   LET g == [nodes |-> ChainWith(unknown, pos, n, multi), inputs |-> <<InD("x", <<DFix(2), DFix(1), DFix(2)>>)>>, outputs |-> <<"t" \o ToString(n)>>,
             inits |-> [gw |-> T("f32", <<1, 6, 2>>, [i \in 1..12 |-> (i % 3) - 1]), gr |-> T("f32", <<1, 6, 2>>, [i \in 1..12 |-> ((i + 1) % 3) - 1])]]
       ins == [x |-> Iota("f32", <<2, 1, 2>>, 0)]
       s == RunSem(g, ins)
       names == SeqOfSet(DOMAIN g.inits)
   IN [prop |-> "C18", fam |-> "unknown_op", kind |-> "model", op |-> "", attrs |-> <<>>, inputs |-> <<>>, nout |-> 0, allowed |-> NoCrash, cmp |-> "num", known |-> <<>>,
       feat |-> <<"pos" \o ToString(pos) \o "of" \o ToString(n)>> \o (IF multi THEN <<"after_multi_output">> ELSE <<>>),
       x |-> [model |-> [nodes |-> g.nodes, inputs |-> g.inputs, outputs |-> g.outputs,
                         inits |-> [k \in 1..Len(names) |-> [name |-> names[k], t |-> g.inits[names[k]]]], opset |-> 13],
              \* the same call twice: the refusal does not wear off
              calls |-> [k \in 1..2 |-> [ins |-> ins, reuse |-> <<>>, allowed |-> IF s.ok THEN MustValue(s.out) ELSE MustErrorOf(SeqOfSet(s.errc))]],
              checks |-> <<"inputs_unchanged", "weights_unchanged">>]]

\* an unknown operator whose node contributes nothing to the graph outputs (no outputs, only omitted outputs, an unused output):
\* Run looks every node's operator up, so it is refused all the same
SideOuts == {<<>>, <<"">>, <<"", "">>, <<"unused">>, <<"", "unused">>}
\* ... and whatever its input list names: a tensor that exists, one that never will, one produced only later, none at all
SideIns == {<<"x">>, <<"nosuch">>, <<"x", "nosuch">>, <<"t2">>, <<>>, <<"">>}
SideUnknownCaseI(unknown, outs, pos, sideins) ==
   LET chain == <<Nd("Relu", <<>>, <<"x">>, <<"t1">>), Nd("Relu", <<>>, <<"t1">>, <<"t2">>)>>
       side == Nd(unknown, <<>>, sideins, outs)
       nodes == SubSeq(chain, 1, pos - 1) \o <<side>> \o SubSeq(chain, pos, 2)
       g == [nodes |-> nodes, inputs |-> <<InD("x", <<DFix(2), DFix(2)>>)>>, outputs |-> <<"t2">>, inits |-> <<>>]
       ins == [x |-> Iota("f32", <<2, 2>>, -1)]
       s == RunSem(g, ins)
   IN [prop |-> "C18", fam |-> "unknown_op", kind |-> "model", op |-> "", attrs |-> <<>>, inputs |-> <<>>, nout |-> 0, allowed |-> NoCrash, cmp |-> "num", known |-> <<>>,
       feat |-> <<"side_node", "outs" \o ToString(Len(outs))>> \o (IF sideins = <<"x">> THEN <<>> ELSE <<"side_inputs_unresolved">>),
       x |-> [model |-> [nodes |-> g.nodes, inputs |-> g.inputs, outputs |-> g.outputs, inits |-> <<>>, opset |-> 13],
              \* the same call twice: the refusal does not wear off
              calls |-> [k \in 1..2 |-> [ins |-> ins, reuse |-> <<>>, allowed |-> IF s.ok THEN MustValue(s.out) ELSE MustErrorOf(SeqOfSet(s.errc))]],
              checks |-> <<"inputs_unchanged">>]]

SideUnknownCase(unknown, outs, pos) == SideUnknownCaseI(unknown, outs, pos, <<"x">>)

\* ---- the repository's sample files (two of them are not models at all) and seeded random byte strings
Files == {"mlp.onnx", "gru.onnx", "ndm.onnx", "scaler.onnx", "mnist-8-opset13.onnx", "nt_1.zip"}
FileCase(f, pert) ==
   [prop |-> "C18", fam |-> "files", kind |-> "loadfile", op |-> "", attrs |-> <<>>, inputs |-> <<>>, nout |-> 0, allowed |-> NoCrash, cmp |-> "num", known |-> <<>>,
    feat |-> <<f, pert>>, x |-> [file |-> f, random |-> 0, seed |-> 0, perturb |-> pert, repo |-> ""]]
RandomCase(seed) ==
   [prop |-> "C18", fam |-> "random", kind |-> "loadfile", op |-> "", attrs |-> <<>>, inputs |-> <<>>, nout |-> 0, allowed |-> NoCrash, cmp |-> "num", known |-> <<>>,
    feat |-> <<"random_bytes">>, x |-> [file |-> "", random |-> RandomStrings, seed |-> seed, perturb |-> "none", repo |-> ""]]

\* a model inside a zip archive whose entry header is honest or forged (declared sizes up to 2^64-1): loading never panics; the honest
\* archive loads
ZipCase(declared, method) ==
   [prop |-> "C18", fam |-> "zip", kind |-> "loadzip", op |-> "", attrs |-> <<>>, inputs |-> <<>>, nout |-> 0, allowed |-> NoCrash, cmp |-> "num", known |-> <<>>,
    feat |-> <<"zip_" \o declared, IF method = 8 THEN "deflate" ELSE "stored">>,
    x |-> [declared |-> declared, method |-> method, expect |-> IF declared = "honest" THEN "loads" ELSE "nocrash"]]
ZipDeclared == {"honest", "plus1", "minus1", "zero", "2^32", "2^48", "2^62", "max"}
Init == \/ st \in [fam : {"zip"}, done : {FALSE}]
        \/ st \in [fam : {"files"}, f : Files, done : {FALSE}]
        \/ st \in [fam : {"random"}, seed : Seed..(Seed + 7), done : {FALSE}]
        \/ st \in [fam : {"opsets"}, l : OpsetLists, done : {FALSE}]
        \/ st \in [fam : {"inits"}, k : InitKinds, done : {FALSE}]
        \/ st \in [fam : {"unknown"}, u : UnknownOps, done : {FALSE}]
Emit ==
   /\ ~st.done
   /\ CASE st.fam = "opsets" ->
             /\ \A pert \in {"none", "truncate", "overwrite"} : P(LoadCase(st.l, <<"good">>, FALSE, pert, <<"opsets", pert>>))
             /\ P(LoadCase(st.l, <<>>, TRUE, "none", <<"opsets", "graph_absent">>))
        [] st.fam = "inits" ->
             /\ \A pert \in {"none", "truncate", "overwrite"} : P(LoadCase(<<Imp("", 13)>>, <<"good", st.k>>, FALSE, pert, <<"initializer_" \o st.k, pert>>))
             /\ P(LoadCase(<<Imp("", 12)>>, <<st.k>>, FALSE, "none", <<"initializer_" \o st.k, "and_bad_opset">>))
             \* the malformed initializer first / in the middle: an error must not be forgotten when later initializers decode
             /\ P(LoadCase(<<Imp("", 13)>>, <<st.k, "good">>, FALSE, "none", <<"initializer_" \o st.k, "first_of_two">>))
             /\ P(LoadCase(<<Imp("", 13)>>, <<"good", st.k, "good", "good">>, FALSE, "none", <<"initializer_" \o st.k, "second_of_four">>))
             \* several malformed initializers in one graph (2, 3, 5, 6, 9 and 17 of them, between good ones): however the decoding is
             \* organised, the load returns - with an error - and does not wait for anything
             /\ \A m \in {2, 3, 5, 6, 9, 17} :
                   /\ P(LoadCase(<<Imp("", 13)>>, [i \in 1..m |-> st.k], FALSE, "none", <<"initializer_" \o st.k, "many_malformed", "all_of_" \o ToString(m)>>))
                   /\ P(LoadCase(<<Imp("", 13)>>, [i \in 1..(2 * m) |-> IF i % 2 = 0 THEN st.k ELSE "good"], FALSE, "none", <<"initializer_" \o st.k, "many_malformed", "every_other_of_" \o ToString(2 * m)>>))
        [] st.fam = "zip" -> /\ \A dcl \in ZipDeclared, method \in {0, 8} : P(ZipCase(dcl, method))
                             /\ \A lv \in {10, 5000, 400000} : P(NestedCase(lv))
                             /\ \A k \in SparseKinds : P(SparseCase(k, <<Imp("", 13)>>)) /\ P(SparseCase(k, <<Imp("", 12)>>))
        [] st.fam = "files" -> \A pert \in {"none", "truncate", "overwrite"} : P(FileCase(st.f, pert))
        [] st.fam = "random" -> P(RandomCase(st.seed))
        [] st.fam = "unknown" ->
             /\ \A n \in 1..3 : \A pos \in 1..n : P(RunUnknownCase(st.u, pos, n, FALSE))
             /\ \A pos \in 2..3 : P(RunUnknownCase(st.u, pos, 3, TRUE))
             /\ \A outs \in SideOuts : \A pos \in 1..3 : P(SideUnknownCase(st.u, outs, pos))
             /\ \A sideins \in SideIns \ {<<"x">>} : \A outs \in {<<>>, <<"unused">>} : \A pos \in 1..3 : P(SideUnknownCaseI(st.u, outs, pos, sideins))
   /\ st' = [st EXCEPT !.done = TRUE]
Next == Emit
Spec == Init /\ [][Next]_st
\* design-level: an unsupported operator always makes the specification's Run fail with exactly that error
UnknownAlwaysRefused ==
   st.fam = "unknown" => \A n \in 1..3 : \A pos \in 1..n :
      /\ LET c == RunUnknownCase(st.u, pos, n, FALSE) IN c.x.calls[1].allowed = MustErrorOf(<<"UnsupportedOperator">>)
      /\ (pos <= 3 => \A outs \in SideOuts : SideUnknownCase(st.u, outs, pos).x.calls[1].allowed = MustErrorOf(<<"UnsupportedOperator">>))
      /\ (pos <= 3 => \A sideins \in SideIns : SideUnknownCaseI(st.u, <<"unused">>, pos, sideins).x.calls[1].allowed = MustErrorOf(<<"UnsupportedOperator">>))
=============================================================================
