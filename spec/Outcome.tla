------------------------------- MODULE Outcome -------------------------------
(***************************************************************************)
(* Allowed outcomes of a case (DESIGN 5.1) and the verdict rule.           *)
(* An outcome set is a record [must, value, errc]:                         *)
(*   must = "value"          : exactly these tensors must be returned      *)
(*   must = "error"          : an error must be reported (errc: acceptable *)
(*                             classes, <<>> = any)                        *)
(*   must = "value_or_error" : the property offers refusal                 *)
(*   must = "no_crash"       : ONNX is silent; anything but a panic        *)
(* An observation is [kind, value] with kind in value/error/panic/nil.     *)
(***************************************************************************)
EXTENDS Tensors

MustValue(vals)    == [must |-> "value", value |-> vals, errc |-> <<>>]
ValueOrError(vals) == [must |-> "value_or_error", value |-> vals, errc |-> <<>>]
MustError          == [must |-> "error", value |-> <<>>, errc |-> <<>>]
MustErrorOf(cls)   == [must |-> "error", value |-> <<>>, errc |-> cls]
NoCrash            == [must |-> "no_crash", value |-> <<>>, errc |-> <<>>]

\* weaken "value" to "value_or_error" when cond holds (e.g. a dtype the statement lets the library refuse)
Weaken(cond, a) == IF cond /\ a.must = "value" THEN [a EXCEPT !.must = "value_or_error"] ELSE a

ObsValue(vals) == [kind |-> "value", value |-> vals]
ObsError       == [kind |-> "error", value |-> <<>>]

\* the verdict rule on abstract observations (used by the trace specifications)
Conforms(obs, a) ==
   /\ obs.kind # "panic"
   /\ CASE a.must = "no_crash"       -> TRUE
        [] a.must = "error"          -> obs.kind = "error"
        [] a.must = "value"          -> obs.kind = "value" /\ obs.value = a.value
        [] a.must = "value_or_error" -> obs.kind = "error" \/ (obs.kind = "value" /\ obs.value = a.value)

\* ---- the tiling law (size independence).  An operator that treats the rows along the leading axis of some of its inputs
\* independently maps "these inputs repeated k times along axis 0" to "its results repeated k times along axis 0".  A generator may
\* flag a case with the input positions S for which the law holds; TLC evaluates the law at k = 2 and k = 3 before the case is
\* emitted, and the harness then executes the case with a k that takes the operands beyond a million elements - a size no
\* specification-level evaluation could reach - and compares with the repeated expected result.
RECURSIVE RepSeq(_, _)
RepSeq(s, k) == IF k = 0 THEN <<>> ELSE s \o RepSeq(s, k - 1)
Tile0(t, k) == [t EXCEPT !.shape = [t.shape EXCEPT ![1] = @ * k], !.data = RepSeq(t.data, k)]
TileIns(inputs, S, k) == [i \in 1..Len(inputs) |-> IF i \in S THEN Tile0(inputs[i], k) ELSE inputs[i]]
TileLawAt(Sem(_), inputs, S, k) ==
   LET a == Sem(inputs) b == Sem(TileIns(inputs, S, k)) IN
   /\ \A i \in S : Len(inputs[i].shape) >= 1
   /\ a.must = "value" /\ b.must = "value" /\ Len(a.value) = Len(b.value)
   /\ \A j \in 1..Len(a.value) : Len(a.value[j].shape) >= 1 /\ b.value[j] = Tile0(a.value[j], k)
TileLaw(Sem(_), inputs, S) == TileLawAt(Sem, inputs, S, 2) /\ TileLawAt(Sem, inputs, S, 3)
\* the same law along other axes (recurrent operators keep the batch on axis 1 of X and of the states, on axis 2 of Y):
\* iax : input position -> 0-based axis (positions outside its domain are left as they are), oax : sequence of 0-based result axes
TileAx(t, a, k) ==
   LET outer == ProdSeq(SubSeq(t.shape, 1, a), 1) block == ProdSeq(SubSeq(t.shape, a + 1, Len(t.shape)), 1) IN
   [t EXCEPT !.shape = [t.shape EXCEPT ![a + 1] = @ * k],
             !.data = [n \in 1..(outer * block * k) |-> LET o == (n - 1) \div (block * k) r == ((n - 1) % (block * k)) % block IN t.data[o * block + r + 1]]]
TileLawAxAt(Sem(_), inputs, iax, oax, k) ==
   LET a == Sem(inputs) b == Sem([i \in 1..Len(inputs) |-> IF i \in DOMAIN iax THEN TileAx(inputs[i], iax[i], k) ELSE inputs[i]]) IN
   /\ \A i \in DOMAIN iax : Len(inputs[i].shape) > iax[i]
   /\ a.must = "value" /\ b.must = "value" /\ Len(a.value) = Len(b.value) /\ Len(oax) >= Len(a.value)
   /\ \A j \in 1..Len(a.value) : Len(a.value[j].shape) > oax[j] /\ b.value[j] = TileAx(a.value[j], oax[j], k)
TileLawAx(Sem(_), inputs, iax, oax) == TileLawAxAt(Sem, inputs, iax, oax, 2) /\ TileLawAxAt(Sem, inputs, iax, oax, 3)
TileFieldAx(iax, oax) ==
   LET S == DOMAIN iax f == CHOOSE f \in [1..Cardinality(S) -> S] : \A a, b \in 1..Cardinality(S) : a < b => f[a] < f[b] IN
   [pos |-> [i \in 1..Cardinality(S) |-> f[i] - 1], axes |-> [i \in 1..Cardinality(S) |-> iax[f[i]]], oaxes |-> oax]
\* the field a flagged case carries: 0-based positions of the inputs that are repeated
TileField(S) == [pos |-> [i \in 1..Cardinality(S) |-> (CHOOSE f \in [1..Cardinality(S) -> S] : \A a, b \in 1..Cardinality(S) : a < b => f[a] < f[b])[i] - 1]]

Known(id, kind, vals) == [id |-> id, out |-> [kind |-> kind, value |-> vals]]

=============================================================================
