------------------------------- MODULE Outcome -------------------------------
(***************************************************************************)
(* Allowed outcomes of a case (DESIGN 5.1) and the verdict rule.           *)
(* An outcome set is a record [must, value, errc]:                         *)
(*   must = "value"          : exactly these tensors must be returned      *)
(*   must = "error"          : an error must be reported (errc: acceptable *)
(*                             classes, <<>> = any)                        *)
(*   must = "value_or_error" : the property offers refusal                 *)
(*   must = "no_crash"       : ONNX is silent; anything but a panic        *)
(* An observation is [kind, value] with kind in value/error/panic/nil.     *)
(***************************************************************************)
EXTENDS Tensors

MustValue(vals)    == [must |-> "value", value |-> vals, errc |-> <<>>]
ValueOrError(vals) == [must |-> "value_or_error", value |-> vals, errc |-> <<>>]
MustError          == [must |-> "error", value |-> <<>>, errc |-> <<>>]
MustErrorOf(cls)   == [must |-> "error", value |-> <<>>, errc |-> cls]
NoCrash            == [must |-> "no_crash", value |-> <<>>, errc |-> <<>>]

\* weaken "value" to "value_or_error" when cond holds (e.g. a dtype the statement lets the library refuse)
Weaken(cond, a) == IF cond /\ a.must = "value" THEN [a EXCEPT !.must = "value_or_error"] ELSE a

ObsValue(vals) == [kind |-> "value", value |-> vals]
ObsError       == [kind |-> "error", value |-> <<>>]

\* the verdict rule on abstract observations (used by the trace specifications)
Conforms(obs, a) ==
   /\ obs.kind # "panic"
   /\ CASE a.must = "no_crash"       -> TRUE
        [] a.must = "error"          -> obs.kind = "error"
        [] a.must = "value"          -> obs.kind = "value" /\ obs.value = a.value
        [] a.must = "value_or_error" -> obs.kind = "error" \/ (obs.kind = "value" /\ obs.value = a.value)

Known(id, kind, vals) == [id |-> id, out |-> [kind |-> kind, value |-> vals]]

=============================================================================
