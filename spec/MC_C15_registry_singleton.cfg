SPECIFICATION SpecMC
CONSTANTS
  Mode = "registry"
  SingletonInstances = TRUE
  MaxSteps = 5
INVARIANTS FreshInstances OwnState
CHECK_DEADLOCK FALSE
