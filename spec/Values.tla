------------------------------- MODULE Values -------------------------------
(***************************************************************************)
(* Abstract element values on which ONNX / IEEE-754 / two's-complement     *)
(* semantics is exactly computable with TLC's 32-bit integers.             *)
(*                                                                         *)
(* An element of a tensor is one of                                        *)
(*   - a TLA+ integer n         : the number n, exact in every numeric     *)
(*                                dtype ("element id" / small integer)     *)
(*   - a TLA+ boolean           : element of a bool tensor                 *)
(*   - a record [c, n, d]       : "extended" value                         *)
(*        c = "fin"  : the rational n/d (d > 0, gcd(n,d)=1); n = 0 is +0   *)
(*        c = "nz"   : IEEE negative zero                                  *)
(*        c = "max" / "nmax" : +-largest finite float of the dtype         *)
(*        c = "pinf" / "ninf" / "nan"                                      *)
(*        c = "sym"  : the integer n*H + d (mod 2H), H = 2^(W-1) of the    *)
(*                     dtype; H itself is never instantiated here, so one  *)
(*                     evaluation is right for every integer width         *)
(* Modules working on ids use plain integers; the value-level catalogue of *)
(* the elementwise operators uses records throughout (Fin(n) lifts).         *)
(* The harness has the concretisation function into each Go element type.  *)
(***************************************************************************)
EXTENDS Integers, Sequences, FiniteSets

\* ---------------------------------------------------------------- dtypes
FloatTypes  == {"f32", "f64"}
SIntTypes   == {"i8", "i16", "i32", "i64"}
UIntTypes   == {"u8", "u16", "u32", "u64"}
IntTypes    == SIntTypes \cup UIntTypes
NumTypes    == FloatTypes \cup IntTypes
\* the 14 element types of ops.AllTypes; "int" (gorgonia's native int) is a 15th type some kernels produce
AllDTypes   == NumTypes \cup {"bool", "string", "c64", "c128"}

\* ---------------------------------------------------------------- helpers
AbsI(n) == IF n < 0 THEN -n ELSE n
SignI(n) == IF n < 0 THEN -1 ELSE IF n > 0 THEN 1 ELSE 0
MaxI(a, b) == IF a >= b THEN a ELSE b
MinI(a, b) == IF a <= b THEN a ELSE b

RECURSIVE GCD(_, _)
GCD(a, b) == IF b = 0 THEN a ELSE GCD(b, a % b)

\* truncating integer division (TLC's \div floors)
TDiv(a, b) == SignI(a) * SignI(b) * (AbsI(a) \div AbsI(b))
CeilDiv(a, b) == -((-a) \div b)          \* b > 0

Fin(n)       == [c |-> "fin", n |-> n, d |-> 1]
Rat(n, d)  == LET g == GCD(AbsI(n), AbsI(d))
                  s == IF d < 0 THEN -1 ELSE 1
              IN [c |-> "fin", n |-> s * (n \div g), d |-> s * (d \div g)]
Special(c) == [c |-> c, n |-> 0, d |-> 1]
NaN  == Special("nan")
PInf == Special("pinf")
NInf == Special("ninf")
NZ   == Special("nz")
FMax == Special("max")
NMax == Special("nmax")
Sym(q, r) == IF q % 2 = 0 THEN Fin(r) ELSE [c |-> "sym", n |-> 1, d |-> r]

\* ------------------------------------------------------- IEEE float domain
\* decomposition into sign and magnitude class: "z" zero, "f" finite rational,
\* "m" MaxFloat, "i" infinity
FSign(x) == CASE x.c = "fin"  -> IF x.n < 0 THEN -1 ELSE 1
              [] x.c \in {"nz", "nmax", "ninf"} -> -1
              [] OTHER -> 1
FMag(x)  == CASE x.c = "fin"  -> IF x.n = 0 THEN "z" ELSE "f"
              [] x.c = "nz"   -> "z"
              [] x.c \in {"max", "nmax"}  -> "m"
              [] x.c \in {"pinf", "ninf"} -> "i"
              [] OTHER -> "nan"
IsNaN(x) == x.c = "nan"
FAbsRat(x) == Rat(AbsI(x.n), x.d)         \* only for magnitude "f"
FMk(sign, mag, q) ==      \* q : positive rational record, used when mag = "f"
   CASE mag = "z" -> IF sign < 0 THEN NZ ELSE Fin(0)
     [] mag = "f" -> Rat(sign * q.n, q.d)
     [] mag = "m" -> IF sign < 0 THEN NMax ELSE FMax
     [] mag = "i" -> IF sign < 0 THEN NInf ELSE PInf
FNeg(x) == IF IsNaN(x) THEN NaN ELSE FMk(-FSign(x), FMag(x), IF FMag(x) = "f" THEN FAbsRat(x) ELSE Fin(1))
FAbs(x) == IF IsNaN(x) THEN NaN ELSE FMk(1, FMag(x), IF FMag(x) = "f" THEN FAbsRat(x) ELSE Fin(1))

\* comparison of two positive rationals / of magnitudes
RatLess(p, q) == p.n * q.d < q.n * p.d
MagRank(m) == CASE m = "z" -> 0 [] m = "f" -> 1 [] m = "m" -> 2 [] m = "i" -> 3
\* total order key on non-NaN floats with -0 = +0: Less(a,b)
FLess(a, b) ==
   /\ ~IsNaN(a) /\ ~IsNaN(b)
   /\ LET sa == IF FMag(a) = "z" THEN 0 ELSE FSign(a)
          sb == IF FMag(b) = "z" THEN 0 ELSE FSign(b)
      IN IF sa # sb THEN sa < sb
         ELSE IF sa = 0 THEN FALSE
         ELSE LET ma == MagRank(FMag(a))  mb == MagRank(FMag(b))
                  magLess == IF ma # mb THEN ma < mb
                             ELSE IF FMag(a) = "f" THEN RatLess(FAbsRat(a), FAbsRat(b)) ELSE FALSE
                  magGreater == IF ma # mb THEN ma > mb
                             ELSE IF FMag(a) = "f" THEN RatLess(FAbsRat(b), FAbsRat(a)) ELSE FALSE
              IN IF sa > 0 THEN magLess ELSE magGreater
FEq(a, b) == ~IsNaN(a) /\ ~IsNaN(b) /\ ~FLess(a, b) /\ ~FLess(b, a)

\* Defined*(a,b): the abstract result is determined inside the domain
\* (e.g. max * 0.75 is a float we cannot name, so such pairs are not generated).
FMulDefined(a, b) ==
   \/ IsNaN(a) \/ IsNaN(b)
   \/ LET ma == FMag(a) mb == FMag(b) IN
      /\ ~(ma = "m" /\ mb = "f" /\ RatLess(FAbsRat(b), Fin(1)))
      /\ ~(mb = "m" /\ ma = "f" /\ RatLess(FAbsRat(a), Fin(1)))
FMul(a, b) ==
   IF IsNaN(a) \/ IsNaN(b) THEN NaN
   ELSE LET ma == FMag(a) mb == FMag(b) s == FSign(a) * FSign(b) IN
        IF (ma = "z" /\ mb = "i") \/ (ma = "i" /\ mb = "z") THEN NaN
        ELSE IF ma = "z" \/ mb = "z" THEN FMk(s, "z", Fin(1))
        ELSE IF ma = "i" \/ mb = "i" THEN FMk(s, "i", Fin(1))
        ELSE IF ma = "m" /\ mb = "m" THEN FMk(s, "i", Fin(1))
        ELSE IF ma = "m" THEN (IF FAbsRat(b) = Fin(1) THEN FMk(s, "m", Fin(1)) ELSE FMk(s, "i", Fin(1)))
        ELSE IF mb = "m" THEN (IF FAbsRat(a) = Fin(1) THEN FMk(s, "m", Fin(1)) ELSE FMk(s, "i", Fin(1)))
        ELSE LET p == FAbsRat(a) q == FAbsRat(b) IN FMk(s, "f", Rat(p.n * q.n, p.d * q.d))

FDivDefined(a, b) ==
   \/ IsNaN(a) \/ IsNaN(b)
   \/ LET ma == FMag(a) mb == FMag(b) IN
      /\ ~(ma = "m" /\ mb = "f" /\ RatLess(Fin(1), FAbsRat(b)))   \* max/2.5 : unnamed float
      /\ ~(ma = "f" /\ mb = "m")                                 \* 2.5/max : subnormal
FDiv(a, b) ==
   IF IsNaN(a) \/ IsNaN(b) THEN NaN
   ELSE LET ma == FMag(a) mb == FMag(b) s == FSign(a) * FSign(b) IN
        IF (ma = "z" /\ mb = "z") \/ (ma = "i" /\ mb = "i") THEN NaN
        ELSE IF mb = "z" THEN FMk(s, "i", Fin(1))
        ELSE IF ma = "z" THEN FMk(s, "z", Fin(1))
        ELSE IF ma = "i" THEN FMk(s, "i", Fin(1))
        ELSE IF mb = "i" THEN FMk(s, "z", Fin(1))
        ELSE IF ma = "m" /\ mb = "m" THEN FMk(s, "f", Fin(1))
        ELSE IF ma = "m" THEN (IF FAbsRat(b) = Fin(1) THEN FMk(s, "m", Fin(1)) ELSE FMk(s, "i", Fin(1)))
        ELSE LET p == FAbsRat(a) q == FAbsRat(b) IN FMk(s, "f", Rat(p.n * q.d, p.d * q.n))
        \* the quotient of two floats is in general not a float: the harness
        \* compares with the correctly rounded value of this rational

FAdd(a, b) ==
   IF IsNaN(a) \/ IsNaN(b) THEN NaN
   ELSE LET ma == FMag(a) mb == FMag(b) sa == FSign(a) sb == FSign(b) IN
        IF ma = "i" /\ mb = "i" THEN (IF sa = sb THEN a ELSE NaN)
        ELSE IF ma = "i" THEN a
        ELSE IF mb = "i" THEN b
        ELSE IF ma = "m" /\ mb = "m" THEN (IF sa = sb THEN FMk(sa, "i", Fin(1)) ELSE Fin(0))
        ELSE IF ma = "m" THEN a          \* max + small rounds back to max
        ELSE IF mb = "m" THEN b
        ELSE IF ma = "z" /\ mb = "z" THEN (IF sa < 0 /\ sb < 0 THEN NZ ELSE Fin(0))
        ELSE IF ma = "z" THEN b
        ELSE IF mb = "z" THEN a
        ELSE Rat(a.n * b.d + b.n * a.d, a.d * b.d)   \* exact; x + (-x) = +0
FSub(a, b) == FAdd(a, FNeg(b))

\* ------------------------------------------------- symbolic integer domain
\* a value is Fin(r) (small) or [c|->"sym", n|->1, d|->r] meaning H + r (mod 2H)
IQ(x) == IF x.c = "sym" THEN 1 ELSE 0
IR(x) == IF x.c = "sym" THEN x.d ELSE x.n
IAdd(a, b) == Sym(IQ(a) + IQ(b), IR(a) + IR(b))
ISub(a, b) == Sym(IQ(a) + IQ(b), IR(a) - IR(b))          \* -H = H (mod 2H)
IMul(a, b) == Sym(IQ(a) * IR(b) + IQ(b) * IR(a), IR(a) * IR(b))   \* H*H = 0 (mod 2H)
INeg(a)    == Sym(IQ(a), -IR(a))
\* order zones; signed:  (1, r>=0) = MIN+r  <  small  <  (1, r<0) = MAX+1+r
\*              unsigned: small r>=0  <  (1, r) = H+r  <  (0, r<0) = 2H+r
IZone(x, signed) ==
   IF signed THEN (IF IQ(x) = 0 THEN 0 ELSE IF IR(x) >= 0 THEN -1 ELSE 1)
   ELSE (IF IQ(x) = 1 THEN 1 ELSE IF IR(x) >= 0 THEN 0 ELSE 2)
ILess(a, b, signed) ==
   LET za == IZone(a, signed) zb == IZone(b, signed) IN
   IF za # zb THEN za < zb ELSE IR(a) < IR(b)
IEq(a, b) == IQ(a) = IQ(b) /\ IR(a) = IR(b)
IMinS == Sym(1, 0)     \* MIN of a signed type
IMaxS == Sym(1, -1)    \* MAX of a signed type
\* 64-bit attribute values far outside every axis range (TLC integers are 32 bits wide): MIN, MIN+1, MAX, MAX-1, and +-(2^31-1)
ExtremeI64 == <<IMinS, Sym(1, 1), IMaxS, Sym(1, -2), Fin(2147483647), Fin(-2147483647)>>
IMaxU == Fin(-1)         \* MAX of an unsigned type (all ones)
\* truncating division: decided for small/small and for division by +-1
IDivDefined(a, b, signed) ==
   \/ (IQ(a) = 0 /\ IQ(b) = 0 /\ IR(b) # 0 /\ (signed \/ (IR(a) >= 0 /\ IR(b) >= 0)))
   \/ (IQ(b) = 0 /\ IR(b) = 1)
   \/ (signed /\ IQ(b) = 0 /\ IR(b) = -1)
IDiv(a, b, signed) ==
   IF IQ(b) = 0 /\ IR(b) = 1 THEN a
   ELSE IF IQ(b) = 0 /\ IR(b) = -1 THEN INeg(a)
   ELSE Fin(TDiv(IR(a), IR(b)))

=============================================================================
