SPECIFICATION Spec
CONSTANTS
  MaxInputs = 3
  MaxRank = 3
CHECK_DEADLOCK FALSE
