SPECIFICATION Spec
CONSTANTS
  MaxNodes = 3
  FinishAtMax = FALSE
  TplFilter = "rec_small"
  Supplied = TRUE
INVARIANT WellFormed
CHECK_DEADLOCK FALSE
