------------------------------- MODULE OpLinear -------------------------------
(***************************************************************************)
(* MatMul (numpy.matmul), Gemm, LinearRegressor, Scaler (C04).             *)
(* Element convention: plain integers (ids); alpha/beta/coefficients are   *)
(* rationals [n, d] so that results are exact rationals.                   *)
(***************************************************************************)
EXTENDS Attrs

RECURSIVE SumF(_, _, _)
\* (split in halves: a recursion of depth n costs TLC time quadratic in n, so a dot product of length 8193 never finished)
SumF(F(_), lo, hi) == IF lo > hi THEN 0 ELSE IF lo = hi THEN F(lo)
                      ELSE LET mid == (lo + hi) \div 2 IN SumF(F, lo, mid) + SumF(F, mid + 1, hi)

\* an exact rational result n/d as an element: the bare integer when it is one
QElem(n, d) == IF n % d = 0 THEN n \div d ELSE Rat(n, d)

\* ------------------------------------------------------------------- MatMul
MMShapeA(a) == IF Len(a) = 1 THEN <<1, a[1]>> ELSE a
MMShapeB(b) == IF Len(b) = 1 THEN <<b[1], 1>> ELSE b
Batch(s) == Take(s, Len(s) - 2)
MatMulValid(a, b) ==
   /\ Len(a) >= 1 /\ Len(b) >= 1
   /\ LET A == MMShapeA(a) B == MMShapeB(b) IN
      /\ A[Len(A)] = B[Len(B) - 1]
      /\ BCompat(Batch(A), Batch(B))
MatMulShape(a, b) ==
   LET A == MMShapeA(a) B == MMShapeB(b) IN
   BShape(Batch(A), Batch(B)) \o (IF Len(a) = 1 THEN <<>> ELSE <<A[Len(A) - 1]>>) \o (IF Len(b) = 1 THEN <<>> ELSE <<B[Len(B)]>>)
MatMulValue(X, Y) ==
   LET a == X.shape b == Y.shape
       A == T(X.dt, MMShapeA(a), X.data) B == T(Y.dt, MMShapeB(b), Y.data)
       K == A.shape[Len(A.shape)]
       bs == BShape(Batch(A.shape), Batch(B.shape))
       nb == Len(bs)
       oshape == MatMulShape(a, b)
   IN Mk(X.dt, oshape, LAMBDA idx :
         LET bidx == Take(idx, nb)
             m == IF Len(a) = 1 THEN 0 ELSE idx[nb + 1]
             n == IF Len(b) = 1 THEN 0 ELSE idx[Len(idx)]
             ia == BIndex(bidx, Batch(A.shape))
             ib == BIndex(bidx, Batch(B.shape))
         IN SumF(LAMBDA k : At(A, ia \o <<m, k>>) * At(B, ib \o <<k, n>>), 0, K - 1))
\* KF-C04-matmul-unit-matrix (defect model): outside the plain 2-D x 2-D path an operand whose (promoted) matrix is 1x1
\* is sliced to a rank-0 tensor and the 2-D product refuses it: an error instead of the value
KnownMatMul(X, Y) ==
   IF X.dt = Y.dt /\ MatMulValid(X.shape, Y.shape) /\ ~(Len(X.shape) = 2 /\ Len(Y.shape) = 2)
   THEN LET A == MMShapeA(X.shape) B == MMShapeB(Y.shape) IN
        IF A[Len(A) - 1] * A[Len(A)] = 1 \/ B[Len(B) - 1] * B[Len(B)] = 1
        THEN <<Known("KF-C04-matmul-unit-matrix", "error", <<>>)>> ELSE <<>>
   ELSE <<>>
MatMulCore == {"f32"}
SemMatMul(X, Y) ==
   IF X.dt # Y.dt THEN NoCrash
   ELSE IF ~MatMulValid(X.shape, Y.shape) THEN MustError
   ELSE Weaken(X.dt \notin MatMulCore, MustValue(<<MatMulValue(X, Y)>>))

\* --------------------------------------------------------------------- Gemm
\* alpha, beta: rationals [n, d]; C: tensor or Nil
Tr(X) == Mk(X.dt, <<X.shape[2], X.shape[1]>>, LAMBDA idx : At(X, <<idx[2], idx[1]>>))
GemmValid(A, B, C, tA, tB) ==
   /\ Len(A.shape) = 2 /\ Len(B.shape) = 2
   /\ LET a == IF tA THEN Tr(A) ELSE A  b == IF tB THEN Tr(B) ELSE B IN
      /\ a.shape[2] = b.shape[1]
      /\ (IsNil(C) \/ UCompat(<<a.shape[1], b.shape[2]>>, C.shape))
GemmValue(A, B, C, tA, tB, alpha, beta) ==
   LET a == IF tA THEN Tr(A) ELSE A  b == IF tB THEN Tr(B) ELSE B
       M == a.shape[1] K == a.shape[2] N == b.shape[2]
   IN Mk(A.dt, <<M, N>>, LAMBDA idx :
         LET dot == SumF(LAMBDA k : At(a, <<idx[1], k>>) * At(b, <<k, idx[2]>>), 0, K - 1)
             c == IF IsNil(C) THEN 0 ELSE At(C, BIndex(idx, C.shape))
         IN \* alpha.n/alpha.d * dot + beta.n/beta.d * c
            QElem(alpha.n * dot * beta.d + beta.n * c * alpha.d, alpha.d * beta.d))
SemGemm(A, B, C, attrs) ==
   LET tA == AttrV(attrs, "transA", 0) # 0  tB == AttrV(attrs, "transB", 0) # 0
       alpha == AttrV(attrs, "alpha", Fin(1))  beta == AttrV(attrs, "beta", Fin(1))
   IN IF A.dt # B.dt \/ (~IsNil(C) /\ C.dt # A.dt) THEN NoCrash
      ELSE IF ~GemmValid(A, B, C, tA, tB) THEN MustError
      ELSE Weaken(A.dt # "f32", MustValue(<<GemmValue(A, B, C, tA, tB, alpha, beta)>>))

\* ---------------------------------------------------------- LinearRegressor
\* coefficients: sequence of integers of length targets*F; intercepts: sequence (length targets) or <<>> when absent
SemLinearRegressor(X, attrs) ==
   LET coef == AttrV(attrs, "coefficients", <<>>)
       targets == AttrV(attrs, "targets", 1)
       hasI == HasAttr(attrs, "intercepts")
       inter == AttrV(attrs, "intercepts", <<>>)
   IN IF HasAttr(attrs, "post_transform") THEN ValueOrError(<<>>) \* not generated with a value
      ELSE IF Len(X.shape) # 2 \/ ~HasAttr(attrs, "coefficients") \/ targets < 1 THEN MustError
      ELSE LET N == X.shape[1] F == X.shape[2] IN
           IF Len(coef) # targets * F \/ (hasI /\ Len(inter) # targets /\ Len(inter) # 1) THEN MustError
           ELSE LET v == Mk("f32", <<N, targets>>, LAMBDA idx :
                            SumF(LAMBDA f : At(X, <<idx[1], f>>) * coef[idx[2] * F + f + 1], 0, F - 1)
                            + (IF hasI THEN (IF Len(inter) = 1 THEN inter[1] ELSE inter[idx[2] + 1]) ELSE 0))
                IN \* the property requires float32 operands to be computed; absent intercepts and a single broadcast intercept may be refused
                   Weaken(X.dt # "f32" \/ ~hasI \/ (Len(inter) = 1 /\ targets > 1), MustValue(<<v>>))

\* ------------------------------------------------------------------- Scaler
SemScaler(X, attrs) ==
   LET off == AttrV(attrs, "offset", <<>>) sc == AttrV(attrs, "scale", <<>>) IN
   IF ~HasAttr(attrs, "offset") \/ ~HasAttr(attrs, "scale") THEN MustError
   ELSE IF Len(X.shape) = 0 THEN NoCrash
   ELSE LET F == X.shape[Len(X.shape)] IN
        IF (Len(off) # F /\ Len(off) # 1) \/ (Len(sc) # F /\ Len(sc) # 1) THEN MustError
        ELSE LET v == Mk("f32", X.shape, LAMBDA idx :
                         LET f == idx[Len(idx)] IN
                         (At(X, idx) - (IF Len(off) = 1 THEN off[1] ELSE off[f + 1])) * (IF Len(sc) = 1 THEN sc[1] ELSE sc[f + 1]))
             IN Weaken(X.dt # "f32", MustValue(<<v>>))
=============================================================================
