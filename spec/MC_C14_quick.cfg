SPECIFICATION Spec
CONSTANTS
  MaxRank = 4
  MaxExt = 3
  DTypeSweep = TRUE
INVARIANT Laws
CHECK_DEADLOCK FALSE
