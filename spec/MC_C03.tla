------------------------------- MODULE MC_C03 -------------------------------
(***************************************************************************)
(* C03 case generator: three orthogonal exhaustive configurations.         *)
(*  Mode = "shapes" : Ops x every ordered pair of shapes from ShapeSet,    *)
(*                    distinct ids (f32; bool patterns for logic)          *)
(*  Mode = "values" : per operator and dtype, every ordered pair of the    *)
(*                    special-value catalogue (vector vs scalar, both      *)
(*                    operand orders), undetermined pairs filtered out     *)
(*  Mode = "types"  : every dtype for both operands (same type) and mixed  *)
(***************************************************************************)
EXTENDS OpElementwise, Json, TLC

CONSTANTS Mode, MaxRank, MaxExt, Rank4Ext, Ops
VARIABLES st

ShapeSet == ShapesOf(0..MaxRank, 1..MaxExt) \cup (IF Rank4Ext > 0 THEN ShapesOf({4}, 1..Rank4Ext) ELSE {})

\* ---- catalogues
FloatCat == <<NaN, PInf, NInf, Fin(0), NZ, Fin(1), Fin(-1), Rat(5, 2), Rat(-5, 2), FMax, NMax, Fin(7), Rat(1, 2), Fin(-3)>>
SIntCat  == <<Fin(0), Fin(1), Fin(-1), Fin(7), Fin(-7), IMinS, IMaxS, Sym(1, -2), Sym(1, 1), Fin(3)>>
UIntCat  == <<Fin(0), Fin(1), Fin(7), IMaxU, Fin(-2), Sym(1, 0), Sym(1, -1), Fin(3)>>
BoolCat  == <<TRUE, FALSE>>
Cat(dt) == IF dt \in FloatTypes THEN FloatCat ELSE IF dt \in SIntTypes THEN SIntCat
           ELSE IF dt \in UIntTypes THEN UIntCat ELSE BoolCat
OpTypes(op) == IF op \in LogicOps THEN {"bool"}
               ELSE IF op = "Equal" THEN NumTypes \cup {"bool"} ELSE NumTypes

\* elements for the shapes configuration: ids as records, booleans with a non-periodic pattern for logic
IdT(op, shape, base) ==
   IF op \in LogicOps
   THEN T("bool", shape, [k \in 1..Size(shape) |-> (((k + base) * (k + base + 1)) \div 2) % 3 = 0])
   ELSE T("f32", shape, [k \in 1..Size(shape) |-> Fin(IF op = "Div" THEN (IF base = 0 THEN 6 * k ELSE k) ELSE base + k)])

SelectSeq2(s, Test(_)) == SelectSeq(s, Test)

CaseRec(fam, op, A, B, feat) ==
   [prop |-> "C03", fam |-> fam, kind |-> "op", op |-> op, attrs |-> <<>>,
    inputs |-> <<LowerT(A), LowerT(B)>>, nout |-> 1,
    allowed |-> LowerA(SemBinary(op, A, B)),
    cmp |-> "bits", feat |-> feat, known |-> <<>>]

ShapeFeat(a, b) ==
   (IF ~BCompat(a, b) THEN <<"incompatible">>
    ELSE IF BShape(a, b) # a /\ BShape(a, b) # b THEN <<"both_stretched">>
    ELSE IF a = b THEN <<"same_shape">> ELSE <<"one_stretched">>) \o
   (IF Len(a) = 0 \/ Len(b) = 0 THEN <<"scalar">> ELSE <<>>)

\* for each catalogue element b: (vector of all a with a determined result) op (scalar b), and the mirrored case
EmitValues(op, dt) ==
   LET cat == Cat(dt) IN
   \A j \in 1..Len(cat) :
      LET b == cat[j]
          as == SelectSeq(cat, LAMBDA a : ScalarDefined(op, dt, a, b))
          bs == SelectSeq(cat, LAMBDA a : ScalarDefined(op, dt, b, a))
          \* both operands are the SAME tensor object / graph name (x op x): NaN = NaN is still false, x - x of an infinity still NaN
          selfs == SelectSeq(cat, LAMBDA a : ScalarDefined(op, dt, a, a))
      IN \* both operands of rank 0 (a scalar's backing is not a slice in the tensor library: its own code path)
         /\ \A i \in 1..Len(cat) :
               ScalarDefined(op, dt, cat[i], b) =>
                  PrintT(<<"CASE", ToJson(CaseRec("values", op, ScalarT(dt, cat[i]), ScalarT(dt, b), <<"values", dt, "both_rank0">>))>>)
         \* one element, but of rank 1 and 2: the broadcast result keeps the rank
         /\ \A i \in 1..Len(cat) :
               ScalarDefined(op, dt, cat[i], b) =>
                  /\ PrintT(<<"CASE", ToJson(CaseRec("values", op, T(dt, <<1, 1>>, <<cat[i]>>), T(dt, <<1>>, <<b>>), <<"values", dt, "single_element_rank2">>))>>)
                  /\ PrintT(<<"CASE", ToJson(CaseRec("values", op, T(dt, <<1>>, <<cat[i]>>), ScalarT(dt, b), <<"values", dt, "single_element_rank1">>))>>)
         /\ (j = 1 /\ Len(selfs) > 0 =>
               PrintT(<<"CASE", ToJson(CaseRec("values", op, Vec(dt, selfs), Vec(dt, selfs), <<"values", dt, "same_operand">>) @@ [same |-> <<-1, 0>>])>>))
         /\ (Len(as) > 0 => PrintT(<<"CASE", ToJson(CaseRec("values", op, Vec(dt, as), ScalarT(dt, b), <<"values", dt>>))>>))
         /\ (Len(bs) > 0 => PrintT(<<"CASE", ToJson(CaseRec("values", op, T(dt, <<1>>, <<b>>), Vec(dt, bs), <<"values", dt, "scalar_left">>))>>))
         \* a rank-0 LEFT operand against a vector (and against a matrix holding the same values)
         /\ (Len(bs) > 0 => PrintT(<<"CASE", ToJson(CaseRec("values", op, ScalarT(dt, b), Vec(dt, bs), <<"values", dt, "rank0_left">>))>>))
         /\ (Len(bs) > 1 => PrintT(<<"CASE", ToJson(CaseRec("values", op, ScalarT(dt, b), T(dt, <<Len(bs), 1>>, bs), <<"values", dt, "rank0_left_matrix">>))>>))

EmitTypes(op) ==
   \A d1 \in {"f32", "i32", "bool"}, d2 \in {"f64", "i64", "i32", "u8"} :
      d1 # d2 =>
        PrintT(<<"CASE", ToJson(CaseRec("types", op, T(d1, <<2>>, <<Cat(d1)[1], Cat(d1)[2]>>),
                                        T(d2, <<2>>, <<Cat(d2)[2], Cat(d2)[1]>>), <<"mixed_types">>))>>)

\* long operands (an element count that is no multiple of a block size): every element is computed, the last ones too
LongN == 40003
EmitLong(op) ==
   LET dts == IF op \in LogicOps THEN {"bool"} ELSE {"f32", "i64"} IN
   \A dt \in dts : \A bshape \in {<<1>>, <<LongN>>} :
      LET A == IF dt = "bool" THEN T("bool", <<LongN>>, [k \in 1..LongN |-> (k * k) % 3 = 1]) ELSE T(dt, <<LongN>>, [k \in 1..LongN |-> Fin(((k * 7) % 23) - 11)])
          B == IF dt = "bool" THEN T("bool", bshape, [k \in 1..Size(bshape) |-> k % 5 < 2]) ELSE T(dt, bshape, [k \in 1..Size(bshape) |-> Fin(((k * 5) % 19) + 1)])
      IN PrintT(<<"CASE", ToJson(CaseRec("types", op, A, B, <<"long", dt>>))>>)

\* operands that hold the same elements under different shapes (the harness also builds them over one backing slice)
EmitSameData(op) ==
   \A p \in {<<<<3, 1>>, <<1, 3>>>>, <<<<3>>, <<1, 3>>>>, <<<<2, 3>>, <<3, 2>>>>, <<<<2, 1, 2>>, <<1, 4>>>>} :
      LET mk(sh) == IF op \in LogicOps THEN T("bool", sh, [k \in 1..Size(sh) |-> k % 3 = 1]) ELSE T("f32", sh, [k \in 1..Size(sh) |-> Fin(IF op = "Div" THEN k ELSE k - 2)]) IN
      PrintT(<<"CASE", ToJson(CaseRec("types", op, mk(p[1]), mk(p[2]), <<"same_data">>))>>)
\* tiling law (Outcome.tla): rows along axis 0 are treated independently; the harness repeats the flagged operands beyond a
\* million elements
TileVariants == {<<<<3>>, <<3>>, {1, 2}>>, <<<<3>>, <<1>>, {1}>>, <<<<1>>, <<3>>, {2}>>, <<<<3, 2>>, <<2>>, {1}>>, <<<<3, 2>>, <<3, 1>>, {1, 2}>>, <<<<3>>, <<>>, {1}>>,
                 <<<<5, 1>>, <<1, 4>>, {1}>>}
EmitTile(op) ==
   LET dts == IF op \in LogicOps THEN {"bool"} ELSE {"f32", "i64"} IN
   \A dt \in dts : \A v \in TileVariants :
      LET A == IF dt = "bool" THEN T("bool", v[1], [k \in 1..Size(v[1]) |-> (k * k) % 3 = 1]) ELSE T(dt, v[1], [k \in 1..Size(v[1]) |-> Fin(((k * 7) % 23) - 11)])
          B == IF dt = "bool" THEN T("bool", v[2], [k \in 1..Size(v[2]) |-> k % 5 < 2]) ELSE T(dt, v[2], [k \in 1..Size(v[2]) |-> Fin(((k * 5) % 19) + 1)])
      IN TileLaw(LAMBDA ins : SemBinary(op, ins[1], ins[2]), <<A, B>>, v[3]) =>
            PrintT(<<"CASE", ToJson(CaseRec("types", op, A, B, <<"tile_law", dt>>) @@ [tile |-> TileField(v[3])])>>)

Init ==
   CASE Mode = "shapes" -> st \in [mode : {"shapes"}, op : Ops, a : ShapeSet, b : ShapeSet, done : {FALSE}]
     [] Mode = "values" -> st \in [mode : {"values"}, op : Ops, dt : NumTypes \cup {"bool"}, done : {FALSE}]
     [] Mode = "types"  -> st \in [mode : {"types"}, op : Ops, done : {FALSE}]

Emit ==
   /\ ~st.done
   /\ CASE st.mode = "shapes" ->
             PrintT(<<"CASE", ToJson(CaseRec("shapes", st.op, IdT(st.op, st.a, 0), IdT(st.op, st.b, 100), ShapeFeat(st.a, st.b)))>>)
        [] st.mode = "values" -> (st.dt \in OpTypes(st.op) => EmitValues(st.op, st.dt))
        [] st.mode = "types" -> EmitTypes(st.op) /\ EmitLong(st.op) /\ EmitTile(st.op) /\ EmitSameData(st.op)
   /\ st' = [st EXCEPT !.done = TRUE]

Next == Emit
Spec == Init /\ [][Next]_st

\* ---- laws of the definitions (design level), evaluated in every shapes-state
Laws ==
   st.mode = "shapes" /\ BCompat(st.a, st.b) =>
      LET A == IdT(st.op, st.a, 0) B == IdT(st.op, st.b, 100) IN
      /\ ElementwiseValue(st.op, A, B).shape = BShape(st.a, st.b)
      /\ (st.op \in {"Add", "Mul", "Equal", "And", "Or", "Xor"} =>
            ElementwiseValue(st.op, A, B).data = ElementwiseValue(st.op, B, A).data)
      /\ (st.op = "Greater" => ElementwiseValue("Greater", A, B).data = ElementwiseValue("Less", B, A).data)
=============================================================================
