----------------------------- MODULE Trace_Decode -----------------------------
(***************************************************************************)
(* Direction B for C12: `harness record decode` hands random TensorProtos  *)
(* (every element type and other data_type codes, both encodings, rank     *)
(* 0..4, payload lengths around the expected one, random bit patterns,     *)
(* wrong typed fields, zero and negative dims) to the real                 *)
(* onnx.TensorFromProto and logs the proto with the decoded tensor as      *)
(* little-endian byte images.  Every event must be explained by            *)
(* Decode.DecodeAllowed (or by the defect model of the open finding        *)
(* KF-C12-undefined-type-fallback, which is then counted).                 *)
(***************************************************************************)
EXTENDS Decode, Json, TLC
Trace == ndJsonDeserialize("trace.ndjson")
VARIABLES l
Ev == Trace[l]

Same(t, out) == out.dt = t.dt /\ out.shape = t.shape /\ out.data = t.data
Explained(e, a) ==
   CASE a.must = "value"          -> e.kind = "value" /\ Same(a.value[1], e.out)
     [] a.must = "error"          -> e.kind = "error"
     [] a.must = "value_or_error" -> e.kind = "error" \/ (e.kind = "value" /\ (a.value = <<>> \/ Same(a.value[1], e.out)))
     [] a.must = "no_crash"       -> e.kind \in {"value", "error"}
\* the typed element tensors of a defect model carry carrier-width byte tuples of the field's own type
MatchesKnown(e, k) == IF k.out.kind = "value" THEN e.kind = "value" /\ Same(k.out.value[1], e.out) ELSE e.kind = k.out.kind

Init == l = 1
Step ==
   /\ l <= Len(Trace) /\ Ev.ev = "Decode"
   /\ LET a == DecodeAllowed(Ev.tp) ks == KnownDecode(Ev.tp) IN
      \/ Explained(Ev, a)
      \/ /\ ~Explained(Ev, a)
         /\ \E i \in 1..Len(ks) : MatchesKnown(Ev, ks[i]) /\ PrintT(<<"KNOWN", ks[i].id>>)
   /\ l' = l + 1
Spec == Init /\ [][Step]_l
Post == PrintT(<<"TRACE", TLCGet("stats").diameter - 1, Len(Trace)>>)
=============================================================================
