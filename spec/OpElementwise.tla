--------------------------- MODULE OpElementwise ---------------------------
(***************************************************************************)
(* Add Sub Mul Div, Equal Greater GreaterOrEqual Less LessOrEqual,         *)
(* And Or Xor with ONNX multidirectional broadcasting (C03).               *)
(* Element convention: records of Values.tla (Fin(n) for small integers),    *)
(* TLA+ booleans for bool tensors.                                         *)
(***************************************************************************)
EXTENDS Attrs

\* printing: lower Fin(n) to the bare integer n (JSON gets shorter; the harness reads both)
LowerE(x) == IF x.c = "fin" /\ x.d = 1 THEN x.n ELSE x
LowerT(t) == IF t.dt = "bool" THEN t ELSE [t EXCEPT !.data = [i \in 1..Len(t.data) |-> LowerE(t.data[i])]]
LowerA(a) == [a EXCEPT !.value = [i \in 1..Len(a.value) |-> LowerT(a.value[i])]]

ArithOps == {"Add", "Sub", "Mul", "Div"}
CmpOps   == {"Equal", "Greater", "GreaterOrEqual", "Less", "LessOrEqual"}
LogicOps == {"And", "Or", "Xor"}
BinaryOps == ArithOps \cup CmpOps \cup LogicOps

Signed(dt) == dt \in SIntTypes

ScalarDefined(op, dt, a, b) ==
   IF dt \in FloatTypes
   THEN CASE op = "Mul" -> FMulDefined(a, b)
          [] op = "Div" -> FDivDefined(a, b)
          [] OTHER -> TRUE
   ELSE IF dt \in IntTypes /\ op = "Div" THEN IDivDefined(a, b, Signed(dt))
   ELSE TRUE

ScalarArith(op, dt, a, b) ==
   IF dt \in FloatTypes
   THEN CASE op = "Add" -> FAdd(a, b) [] op = "Sub" -> FSub(a, b)
          [] op = "Mul" -> FMul(a, b) [] op = "Div" -> FDiv(a, b)
   ELSE CASE op = "Add" -> IAdd(a, b) [] op = "Sub" -> ISub(a, b)
          [] op = "Mul" -> IMul(a, b) [] op = "Div" -> IDiv(a, b, Signed(dt))

Less(dt, a, b) == IF dt \in FloatTypes THEN FLess(a, b) ELSE ILess(a, b, Signed(dt))
Eq(dt, a, b)   == IF dt \in FloatTypes THEN FEq(a, b) ELSE IF dt = "bool" THEN a = b ELSE IEq(a, b)
ScalarCmp(op, dt, a, b) ==
   CASE op = "Equal"          -> Eq(dt, a, b)
     [] op = "Greater"        -> Less(dt, b, a)
     [] op = "GreaterOrEqual" -> Less(dt, b, a) \/ Eq(dt, a, b)
     [] op = "Less"           -> Less(dt, a, b)
     [] op = "LessOrEqual"    -> Less(dt, a, b) \/ Eq(dt, a, b)
ScalarLogic(op, a, b) ==
   CASE op = "And" -> a /\ b [] op = "Or" -> a \/ b [] op = "Xor" -> a # b

BinScalar(op, dt, a, b) ==
   IF op \in ArithOps THEN ScalarArith(op, dt, a, b)
   ELSE IF op \in CmpOps THEN ScalarCmp(op, dt, a, b)
   ELSE ScalarLogic(op, a, b)
OutType(op, dt) == IF op \in ArithOps THEN dt ELSE "bool"

\* dtypes the property statement requires to be computed; other accepted types may be refused
CoreTypes(op) == IF op \in LogicOps THEN {"bool"} ELSE {"f32", "f64", "i32", "i64"}
Meaningful(op, dt) == IF op \in LogicOps THEN dt = "bool"
                      ELSE IF op \in ArithOps THEN dt \in NumTypes
                      ELSE dt \in NumTypes \/ (op = "Equal" /\ dt = "bool")

ElementwiseValue(op, A, B) ==
   LET s == BShape(A.shape, B.shape)
   IN Mk(OutType(op, A.dt), s,
         LAMBDA idx : BinScalar(op, A.dt, At(A, BIndex(idx, A.shape)), At(B, BIndex(idx, B.shape))))

\* allowed outcome of a binary elementwise node
SemBinary(op, A, B) ==
   IF A.dt # B.dt \/ ~Meaningful(op, A.dt) THEN NoCrash       \* ONNX requires one type T; not generated with must-levels
   ELSE IF ~BCompat(A.shape, B.shape) THEN MustError
   ELSE Weaken(A.dt \notin CoreTypes(op), MustValue(<<ElementwiseValue(op, A, B)>>))

\* every element pair that meets under broadcasting has a determined result
AllDefined(op, A, B) ==
   \/ ~BCompat(A.shape, B.shape)
   \/ LET s == BShape(A.shape, B.shape) IN
      \A k \in 1..Size(s) : LET idx == Unravel(k - 1, s) IN
          ScalarDefined(op, A.dt, At(A, BIndex(idx, A.shape)), At(B, BIndex(idx, B.shape)))

=============================================================================
