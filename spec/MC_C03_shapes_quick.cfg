SPECIFICATION Spec
CONSTANTS
  Mode = "shapes"
  MaxRank = 3
  MaxExt = 3
  Rank4Ext = 0
  Ops = {"Add", "Sub", "Mul", "Div", "Equal", "Greater", "GreaterOrEqual", "Less", "LessOrEqual", "And", "Or", "Xor"}
INVARIANT Laws
CHECK_DEADLOCK FALSE
