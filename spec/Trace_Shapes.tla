----------------------------- MODULE Trace_Shapes -----------------------------
(***************************************************************************)
(* Direction B at the level of shapes (C03, C14): `harness record shapes`  *)
(* applies binary operators to every broadcast-compatible ordered pair of  *)
(* shapes of rank <= 4 over a set of extents, in one process and in a      *)
(* fixed order, plus incompatible neighbours, and logs the two shapes and  *)
(* the shape of the result (or that the request was refused).  For every   *)
(* event: compatible shapes give a result of the broadcast shape,          *)
(* incompatible ones an error - never a panic, never another shape.        *)
(* Events: [ev, op, a, b, kind, oshape].                                   *)
(***************************************************************************)
EXTENDS Tensors, Json, TLC

Trace == ndJsonDeserialize("trace.ndjson")
VARIABLES l
Ev == Trace[l]

Init == l = 1
Step ==
   /\ l <= Len(Trace) /\ Ev.ev = "Pair"
   /\ IF BCompat(Ev.a, Ev.b) THEN Ev.kind = "value" /\ Ev.oshape = BShape(Ev.a, Ev.b) ELSE Ev.kind = "error"
   /\ l' = l + 1
Spec == Init /\ [][Step]_l
Post == PrintT(<<"TRACE", TLCGet("stats").diameter - 1, Len(Trace)>>)
=============================================================================
