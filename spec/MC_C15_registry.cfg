SPECIFICATION SpecMC
CONSTANTS
  Mode = "registry"
  SingletonInstances = FALSE
  MaxSteps = 5
INVARIANTS FreshInstances OwnState
CHECK_DEADLOCK FALSE
