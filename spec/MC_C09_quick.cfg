SPECIFICATION Spec
CONSTANTS
  Fams = {"argmax", "reduce", "softmax"}
  MaxRank = 3
  MaxExt = 3
INVARIANT Laws
CHECK_DEADLOCK FALSE
