SPECIFICATION Spec
CONSTANTS
  Fams = {"argmax", "reduce", "softmax", "long"}
  LongShapes <- LongShapesQuick
  MaxRank = 4
  MaxExt = 3
INVARIANT Laws
CHECK_DEADLOCK FALSE
