------------------------------- MODULE MC_C15 -------------------------------
(***************************************************************************)
(* C15 case generator.  Mode "gate": the complete (operator, count, dtype  *)
(* at each position, nil at each optional position) space over the table   *)
(* extracted from the real operators.  Mode "registry": every behaviour of *)
(* Registry.tla up to MaxSteps steps, printed at its last step.            *)
(* Mode "names": names outside the opset.                                  *)
(***************************************************************************)
EXTENDS Gate, Registry, Json, TLC
CONSTANTS Mode
VARIABLES st

OpTable == JsonDeserialize("optable.json")
P(c) == PrintT(<<"CASE", ToJson(c)>>)

BaseType(e, i) == IF i <= Len(e.cons) /\ Len(e.cons[i]) > 0
                  THEN (IF Allowed(e, i, "f32") THEN "f32" ELSE IF Allowed(e, i, "i64") THEN "i64" ELSE IF Allowed(e, i, "bool") THEN "bool" ELSE e.cons[i][1])
                  ELSE "f32"
Base(e, n) == [i \in 1..n |-> BaseType(e, i)]
\* shk: the shape of the tensor supplied at each position ("one" [1], "empty" [0], "empty2" [2,0], "scalar" [], "mat" [2,3]); the
\* verdict of the gate does not depend on it - an element type is carried by a tensor with no elements as by any other
ShapeKinds == {"empty", "empty2", "scalar", "mat"}
GateCaseS(e, dts, shk, feat) ==
   [prop |-> "C15", fam |-> "gate", kind |-> "gate", op |-> e.name, attrs |-> <<>>, inputs |-> <<>>, nout |-> 0,
    allowed |-> (IF GateOutcome(e, dts).expect = "error" THEN MustError ELSE NoCrash),
    x |-> [dts |-> dts, shk |-> shk] @@ GateOutcome(e, dts), feat |-> <<GateOutcome(e, dts).expect, feat>>, known |-> <<>>]
GateCase(e, dts, feat) == GateCaseS(e, dts, [i \in 1..Len(dts) |-> "one"], feat)
MaxN(e) == IF e.name = "Concat" THEN 4 ELSE e.max + 2
\* a variadic operator accepts input lists of any length: long lists, every position typed alike, one position perturbed
LongListCases(e) ==
   \A n \in {33, 65, 130} :
      /\ P(GateCase(e, Base(e, n), "long_list"))
      /\ \A i \in {1, 32, 33, n} : P(GateCase(e, [Base(e, n) EXCEPT ![i] = "int"], "long_list_dtype")) /\ P(GateCase(e, [Base(e, n) EXCEPT ![i] = "i64"], "long_list_dtype"))
GateCases(e) ==
   (e.name = "Concat" => LongListCases(e)) /\
   \A n \in 0..MaxN(e) :
      /\ P(GateCase(e, Base(e, n), "count"))
      /\ \A i \in 1..n : \A d \in GateTypes : d # BaseType(e, i) => P(GateCase(e, [Base(e, n) EXCEPT ![i] = d], "dtype"))
      /\ \A i \in 1..n : \A d \in GateTypes \ {"int"} : \A k \in ShapeKinds :
            P(GateCaseS(e, [Base(e, n) EXCEPT ![i] = d], [[j \in 1..n |-> "one"] EXCEPT ![i] = k], "dtype_shape_" \o k))
      /\ \A k \in ShapeKinds : P(GateCaseS(e, Base(e, n), [j \in 1..n |-> k], "count_shape_" \o k))
      /\ \A i \in 1..n : i > e.min => P(GateCase(e, [Base(e, n) EXCEPT ![i] = "nil"], "nil_optional"))
      \* two consecutive positions of one and the same element type (the harness also passes ONE tensor object at both): each position
      \* is judged by its own constraint - a type that is legal at one of them need not be legal at the other
      /\ \A i \in 2..n : \A d \in GateTypes \ {"int", "nil"} : P(GateCase(e, [Base(e, n) EXCEPT ![i - 1] = d, ![i] = d], "same_type_pair"))
      /\ \A i, j \in 1..n : (i > e.min /\ j > i) => P(GateCase(e, [Base(e, n) EXCEPT ![i] = "nil", ![j] = "nil"], "nil_optional"))
      \* an absent optional input combined with a perturbed element type at another position (before or after it)
      /\ \A i, j \in 1..n : (i > e.min /\ j # i) =>
            \A d \in GateTypes : d # BaseType(e, j) => P(GateCase(e, [Base(e, n) EXCEPT ![i] = "nil", ![j] = d], "nil_and_dtype"))

BadNames == {"Relu%", "%v", "%s", "Top%dK", "100%Relu", "%w", "", "add", "ADD", " Add", "Add ", "Gelu", "LayerNormalization", "HardSwish", "Mish", "Relu6", "Softmax13", "Pow", "Sqrt", "Identity",
             "ai.onnx.Add", "Scaler2", "lstm", "Conv2D", "MaxPool", "BatchNormalization"}
NameCase(name, known) ==
   [prop |-> "C15", fam |-> "names", kind |-> "lookup", op |-> name, attrs |-> <<>>, inputs |-> <<>>, nout |-> 0,
    allowed |-> IF known THEN NoCrash ELSE MustErrorOf(<<"UnsupportedOperator">>), feat |-> <<IF known THEN "registered" ELSE "unregistered">>, known |-> <<>>]

RegistryCase(h) ==
   [prop |-> "C15", fam |-> "registry", kind |-> "registry", op |-> "", attrs |-> <<>>, inputs |-> <<>>, nout |-> 0,
    allowed |-> NoCrash, x |-> h, feat |-> <<"steps" \o ToString(Len(h))>>, known |-> <<>>]

InitMC ==
   /\ Init
   /\ CASE Mode = "gate"     -> st \in [k : 1..Len(OpTable), done : {FALSE}]
        [] Mode = "names"    -> st \in [k : {0}, done : {FALSE}]
        [] Mode = "registry" -> st = [k |-> 0, done |-> FALSE]

EmitGate  == Mode = "gate" /\ ~st.done /\ GateCases(OpTable[st.k]) /\ st' = [st EXCEPT !.done = TRUE] /\ UNCHANGED vars
EmitNames == /\ Mode = "names" /\ ~st.done
             /\ \A n \in BadNames : P(NameCase(n, FALSE))
             /\ \A k \in 1..Len(OpTable) : P(NameCase(OpTable[k].name, TRUE))
             /\ st' = [st EXCEPT !.done = TRUE] /\ UNCHANGED vars
\* registry behaviours: print the history when it ends with an observation and has reached the bound
StepReg   == /\ Mode = "registry" /\ Next /\ UNCHANGED st
             /\ ((Len(hist') = MaxSteps /\ hist'[MaxSteps].act = "apply" /\ (\E k \in 1..(MaxSteps - 1) : hist'[k].act = "init"))
                   => P(RegistryCase(hist')))

NextMC == EmitGate \/ EmitNames \/ StepReg
SpecMC == InitMC /\ [][NextMC]_<<vars, st>>

TableWellFormed == \A k \in 1..Len(OpTable) : WellFormed(OpTable[k])
NamesAreTheOpset == Len(OpTable) = 55
=============================================================================
