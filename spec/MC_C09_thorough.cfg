SPECIFICATION Spec
CONSTANTS
  Fams = {"argmax", "reduce", "softmax", "long"}
  LongShapes <- LongShapesThorough
  MaxRank = 4
  MaxExt = 3
INVARIANT Laws
CHECK_DEADLOCK FALSE
