SPECIFICATION Spec
CONSTANTS
  MaxNodes = 3
  FinishAtMax = FALSE
  TplFilter = "core"
  Supplied = TRUE
INVARIANTS WellFormed StagedEqualsRunSem
CHECK_DEADLOCK FALSE
