SPECIFICATION Spec
CONSTANTS
  MaxRank = 4
  MaxExt = 4
  DTypeSweep = TRUE
INVARIANT Laws
CHECK_DEADLOCK FALSE
