------------------------------ MODULE Trace_Run ------------------------------
(***************************************************************************)
(* Direction B for C01 / C02: `harness record run` builds random DAG       *)
(* programs (4..9 nodes, longer than the programs MC_C01 enumerates),      *)
(* loads each as a Model and runs it 2..3 times with fresh inputs.  A      *)
(* recording spy around Model.GetOperator logs, for every node in          *)
(* execution order, the node the interpreter initialised the operator      *)
(* with, the tensors it gathered and what the operator returned.           *)
(* This specification replays the events on the interpreter model:         *)
(*   Load / RunBegin : env := Env0(model, caller inputs)   (weights fresh  *)
(*                     in every Run: nothing survives from the Run before) *)
(*   Node            : it is node pc of the graph; the gathered tensors    *)
(*                     are exactly GatherVals(env, node.ins); the result   *)
(*                     is what OpSem allows; env := BindVals(...)          *)
(*   RunEnd          : every node was executed; the returned tensors are   *)
(*                     env[o] for the graph outputs o, in order.           *)
(* A trace is accepted iff every event is consumed.                        *)
(***************************************************************************)
EXTENDS RunSem, Json, TLC

Trace == ndJsonDeserialize("trace.ndjson")
VARIABLES l, g, env, pc, st
vars == <<l, g, env, pc, st>>
Ev == Trace[l]

Str(t) == [dt |-> t.dt, shape |-> t.shape, data |-> [k \in 1..Len(t.data) |-> ToString(t.data[k])]]
SameT(specT, logged) == IF IsNil(specT) THEN logged = Nil ELSE Str(specT) = logged
ValueMatches(vals, outs) == Len(outs) >= Len(vals) /\ \A i \in 1..Len(vals) : IsNil(vals[i]) \/ Str(vals[i]) = outs[i]

Init == l = 1 /\ g = [nodes |-> <<>>, outputs |-> <<>>, inits |-> <<>>] /\ env = <<>> /\ pc = 0 /\ st = "idle"

Begin ==
   /\ l <= Len(Trace) /\ Ev.ev \in {"Load", "RunBegin"} /\ st = "idle"
   /\ g' = IF Ev.ev = "Load" THEN Ev.model ELSE g
   /\ env' = Env0(g', Ev.ins) /\ pc' = 1 /\ st' = "running" /\ l' = l + 1

Node ==
   /\ l <= Len(Trace) /\ Ev.ev = "Node" /\ st = "running" /\ pc <= Len(g.nodes)
   /\ LET n == g.nodes[pc] IN
      /\ Ev.op = n.op /\ Ev.ins = n.ins /\ Ev.outs = n.outs                     \* nodes are executed in graph order, one operator per node
      /\ Known_(env, n.ins)
      /\ LET gathered == GatherVals(env, n.ins)
             a == NodeSem(n.op, n.attrs, gathered, Len(n.outs)) IN
         /\ Ev.kind = "value" /\ a.must \in {"value", "value_or_error"} /\ Len(a.value) >= 1     \* the recorder keeps the programs that run
         /\ Len(Ev.inputs) >= Len(gathered)
         /\ \A i \in 1..Len(Ev.inputs) : IF i <= Len(gathered) THEN SameT(gathered[i], Ev.inputs[i]) ELSE Ev.inputs[i] = Nil
         /\ ValueMatches(a.value, Ev.results)
         /\ env' = BindVals(env, n.outs, a.value)
   /\ pc' = pc + 1 /\ l' = l + 1 /\ UNCHANGED <<g, st>>

End ==
   /\ l <= Len(Trace) /\ Ev.ev = "RunEnd" /\ st = "running" /\ pc = Len(g.nodes) + 1
   /\ Ev.kind = "value" /\ Ev.names = g.outputs /\ Len(Ev.out) = Len(g.outputs)
   /\ \A i \in 1..Len(g.outputs) : g.outputs[i] \in DOMAIN env /\ Str(env[g.outputs[i]]) = Ev.out[i]
   /\ st' = "idle" /\ l' = l + 1 /\ UNCHANGED <<g, env, pc>>

Next == Begin \/ Node \/ End
Spec == Init /\ [][Next]_vars
Post == PrintT(<<"TRACE", TLCGet("stats").diameter - 1, Len(Trace)>>)
=============================================================================
