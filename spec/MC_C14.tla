------------------------------- MODULE MC_C14 -------------------------------
(***************************************************************************)
(* C14: case generator for ops.MultidirectionalBroadcast and               *)
(* ops.UnidirectionalBroadcast.  BFS enumerates every ordered pair of      *)
(* shapes of rank 0..MaxRank with extents 1..MaxExt exactly once; sources  *)
(* carry distinct element ids so every element of both results is decided. *)
(***************************************************************************)
EXTENDS Outcome, Json, TLC

CONSTANTS MaxRank, MaxExt, DTypeSweep
VARIABLES st

Shapes == ShapesOf(0..MaxRank, 1..MaxExt)
SweepShapes == {<<>>, <<3>>, <<2, 1>>, <<1, 3>>, <<2, 1, 2>>}

Multi(A, B) ==
   IF BCompat(A.shape, B.shape)
   THEN LET s == BShape(A.shape, B.shape) IN MustValue(<<BroadcastTo(A, s), BroadcastTo(B, s)>>)
   ELSE MustError
Uni(A, B) ==
   IF UCompat(A.shape, B.shape)
   THEN MustValue(<<A, BroadcastTo(B, A.shape)>>)
   ELSE MustError

Feat(a, b) ==
   (IF Len(a) # Len(b) THEN <<"rankdiff">> ELSE <<>>) \o
   (IF BCompat(a, b) THEN (IF BShape(a, b) # a /\ BShape(a, b) # b THEN <<"both_stretched">> ELSE <<"compatible">>)
    ELSE <<"incompatible">>) \o
   (IF Len(a) = 0 \/ Len(b) = 0 THEN <<"scalar">> ELSE <<>>)

CaseOf(op, dt, a, b) ==
   LET A == Iota(dt, a, 0)
       B == Iota(dt, b, 100)
   IN [prop |-> "C14", fam |-> "bcast", kind |-> "helper", op |-> op,
       attrs |-> <<>>, inputs |-> <<A, B>>, nout |-> 2,
       allowed |-> IF op = "MultidirectionalBroadcast" THEN Multi(A, B) ELSE Uni(A, B),
       cmp |-> "bits", keep |-> TRUE, feat |-> Feat(a, b), known |-> <<>>]

Ops == {"MultidirectionalBroadcast", "UnidirectionalBroadcast"}

Init == \/ st \in [op : Ops, dt : {"f32"}, a : Shapes, b : Shapes, done : {FALSE}]
        \/ (DTypeSweep /\ st \in [op : Ops, dt : AllDTypes \ {"f32", "bool"}, a : SweepShapes, b : SweepShapes, done : {FALSE}])

\* the two operands need not have the same element type: each result keeps the type of its own source
MixedCase(op, dta, dtb, a, b) ==
   LET A == Iota(dta, a, 0) B == Iota(dtb, b, 100)
   IN [prop |-> "C14", fam |-> "bcast", kind |-> "helper", op |-> op, attrs |-> <<>>, inputs |-> <<A, B>>, nout |-> 2,
       allowed |-> IF op = "MultidirectionalBroadcast" THEN Multi(A, B) ELSE Uni(A, B),
       cmp |-> "bits", keep |-> TRUE, feat |-> Feat(a, b) \o <<"mixed_types">>, known |-> <<>>]
MixedPairs == {<<"f32", "i64">>, <<"i64", "f32">>, <<"f64", "u8">>, <<"i32", "f64">>}
\* broadcasting copies bit patterns: every special value survives being the single element that is stretched (sign of zero, NaN,
\* infinities, extreme integers) and being an element of the operand it is stretched against
SpecialVals(dt) == IF dt \in FloatTypes THEN <<NZ, Fin(0), NaN, PInf, NInf, FMax, NMax, Rat(-5, 2)>>
                   ELSE IF dt \in SIntTypes THEN <<Fin(0), IMinS, IMaxS, Fin(-1)>> ELSE <<Fin(0), IMaxU, Sym(1, 0)>>
ValueCases(op) ==
   \A dt \in {"f32", "f64", "i32", "i64", "u8"} : \A k \in 1..Len(SpecialVals(dt)) : \A one \in {<<>>, <<1>>, <<1, 1>>} : \A big \in {<<3>>, <<2, 3>>, <<2, 1, 2>>} :
      LET S == T(dt, one, <<SpecialVals(dt)[k]>>)
          L == T(dt, big, [i \in 1..Size(big) |-> SpecialVals(dt)[((i + k) % Len(SpecialVals(dt))) + 1]])
          mk(A, B) == [prop |-> "C14", fam |-> "bcast", kind |-> "helper", op |-> op, attrs |-> <<>>, inputs |-> <<A, B>>, nout |-> 2,
                       allowed |-> IF op = "MultidirectionalBroadcast" THEN Multi(A, B) ELSE Uni(A, B),
                       cmp |-> "bits", keep |-> TRUE, feat |-> Feat(A.shape, B.shape) \o <<"special_values">>, known |-> <<>>]
      IN PrintT(<<"CASE", ToJson(mk(L, S))>>) /\ PrintT(<<"CASE", ToJson(mk(S, L))>>)
\* long operands (an element count that is no multiple of a block size)
LongCases(op) ==
   \A p \in {<<<<40003>>, <<1>>>>, <<<<20001, 2>>, <<2>>>>, <<<<20001, 1>>, <<1, 2>>>>, <<<<2, 20001>>, <<>>>>, <<<<1>>, <<40003>>>>} :
      PrintT(<<"CASE", ToJson([CaseOf(op, "f32", p[1], p[2]) EXCEPT !.feat = @ \o <<"long">>])>>)
\* extents beyond 30 and around 64 (a shape pair must not be mistaken for another one whose digits add up alike): A = (p, q) against
\* column, row, scalar and fixed small operands, compatible and incompatible
WideShapes == {<<p, q>> : p \in 1..4, q \in {1, 2, 3, 4} \cup (30..35) \cup (62..66)}
WideCases(op) ==
   \A a \in WideShapes : \A b \in {<<a[1], 1>>, <<1, a[2]>>, <<>>, <<2, 1>>, <<1, 3>>, <<a[2]>>} :
      PrintT(<<"CASE", ToJson([CaseOf(op, "f32", a, b) EXCEPT !.feat = @ \o <<"wide_extents">>])>>)
      /\ (op = "MultidirectionalBroadcast" => PrintT(<<"CASE", ToJson([CaseOf(op, "f32", b, a) EXCEPT !.feat = @ \o <<"wide_extents">>])>>))
\* operands that hold the same elements under different shapes (a column and a row of one vector): the harness also builds them as
\* two tensor objects over ONE backing slice
SameDataCases(op) ==
   \A p \in {<<<<3, 1>>, <<1, 3>>>>, <<<<3>>, <<1, 3>>>>, <<<<1, 3>>, <<3>>>>, <<<<2, 3>>, <<3, 2>>>>, <<<<6>>, <<2, 3>>>>, <<<<2, 1, 2>>, <<1, 4>>>>, <<<<4, 1>>, <<2, 2>>>>} :
      LET A == Iota("f32", p[1], 0) B == Iota("f32", p[2], 0) IN
      PrintT(<<"CASE", ToJson([prop |-> "C14", fam |-> "bcast", kind |-> "helper", op |-> op, attrs |-> <<>>, inputs |-> <<A, B>>, nout |-> 2,
                               allowed |-> IF op = "MultidirectionalBroadcast" THEN Multi(A, B) ELSE Uni(A, B),
                               cmp |-> "bits", keep |-> TRUE, feat |-> Feat(p[1], p[2]) \o <<"same_data">>, known |-> <<>>])>>)
\* very high ranks (66 axes): an operand stretched along an axis beyond position 64, another prepended with 65 axes
HighRankCases(op) ==
   LET lead2 == [i \in 1..66 |-> IF i = 1 THEN 2 ELSE 1] tail3 == [i \in 1..66 |-> IF i = 66 THEN 3 ELSE 1] mid == [i \in 1..66 |-> IF i = 65 THEN 2 ELSE 1] IN
   \A p \in {<<<<3>>, lead2>>, <<tail3, lead2>>, <<lead2, tail3>>, <<lead2, <<3>>>>, <<tail3, mid>>, <<mid, <<2, 3>>>>, <<lead2, lead2>>} :
      PrintT(<<"CASE", ToJson([CaseOf(op, "f32", p[1], p[2]) EXCEPT !.feat = @ \o <<"rank66">>])>>)
\* every pair of ranks 0..12: the operand of lower rank is padded with 1..12 leading axes (total sizes kept small: one axis of
\* extent 2 or 3 in each operand, the others 1, the stretched axis placed last, first, and in the middle of the shorter operand)
RankLadderCases(op) ==
   \A ra \in 0..12, rb \in 0..12 : (ra # rb /\ (ra > 4 \/ rb > 4)) =>
      \A ka \in {1, (ra + 1) \div 2, ra}, kb \in {1, rb} : (ka >= 1 /\ ka <= ra /\ kb >= 1 /\ kb <= rb) \/ (ra = 0 /\ ka = 1 /\ kb \in {1, rb}) \/ (rb = 0 /\ kb = 1 /\ ka >= 1 /\ ka <= ra) =>
         LET sa == [i \in 1..ra |-> IF i = ka THEN 2 ELSE 1] sb == [i \in 1..rb |-> IF i = kb THEN 3 ELSE 1] IN
         PrintT(<<"CASE", ToJson([CaseOf(op, "f32", sa, sb) EXCEPT !.feat = @ \o <<"rank_ladder", "ranks_" \o ToString(ra) \o "_" \o ToString(rb)>>])>>)
\* tiling law (Outcome.tla): the flagged operands are repeated beyond a million elements by the harness
TileVariants == {<<<<3, 2>>, <<2>>, {1}>>, <<<<3>>, <<1>>, {1}>>, <<<<1>>, <<3>>, {2}>>, <<<<3, 1>>, <<1, 2>>, {1}>>, <<<<3, 2>>, <<3, 1>>, {1, 2}>>, <<<<3>>, <<>>, {1}>>,
                 <<<<3, 2>>, <<3, 2>>, {1, 2}>>, <<<<3, 1, 2>>, <<2, 1>>, {1}>>}
TileCases(op) ==
   \A v \in TileVariants : \A dt \in {"f32", "i64"} :
      LET c == CaseOf(op, dt, v[1], v[2]) IN
      TileLaw(LAMBDA ins : IF op = "MultidirectionalBroadcast" THEN Multi(ins[1], ins[2]) ELSE Uni(ins[1], ins[2]), c.inputs, v[3]) =>
         PrintT(<<"CASE", ToJson([c EXCEPT !.feat = @ \o <<"tile_law">>] @@ [tile |-> TileField(v[3])])>>)
\* the same law along any axis (Outcome!TileLawAx): the first operand repeated along a MIDDLE or the last axis, so that the other
\* one is stretched to an extent of several hundred thousand along an axis that is neither the leading nor (first variant) the last
TileAxCases(op) ==
   \A v \in {<<<<2, 3, 2>>, <<2, 1, 2>>, 1>>, <<<<2, 3>>, <<2, 1>>, 1>>, <<<<2, 2, 3, 2>>, <<1, 2>>, 2>>, <<<<2, 3, 2>>, <<1, 2>>, 1>>} : \A dt \in {"f32", "i64"} :
      LET c == CaseOf(op, dt, v[1], v[2]) iax == [i \in {1} |-> v[3]] oax == <<v[3], v[3]>> IN
      TileLawAx(LAMBDA ins : IF op = "MultidirectionalBroadcast" THEN Multi(ins[1], ins[2]) ELSE Uni(ins[1], ins[2]), c.inputs, iax, oax) =>
         PrintT(<<"CASE", ToJson([c EXCEPT !.feat = @ \o <<"tile_law", "tiled_along_axis_" \o ToString(v[3])>>] @@ [tile |-> TileFieldAx(iax, oax)])>>)
Emit == /\ ~st.done
        /\ (st.dt = "f32" /\ st.a = <<>> /\ st.b = <<>> => ValueCases(st.op) /\ LongCases(st.op) /\ TileCases(st.op) /\ WideCases(st.op) /\ HighRankCases(st.op) /\ SameDataCases(st.op) /\ RankLadderCases(st.op) /\ TileAxCases(st.op))
        /\ PrintT(<<"CASE", ToJson(CaseOf(st.op, st.dt, st.a, st.b))>>)
        /\ (st.dt = "f32" /\ Len(st.a) <= 2 /\ Len(st.b) <= 2 =>
              \A p \in MixedPairs : PrintT(<<"CASE", ToJson(MixedCase(st.op, p[1], p[2], st.a, st.b))>>))
        /\ st' = [st EXCEPT !.done = TRUE]

Next == Emit
Spec == Init /\ [][Next]_st

\* design-level laws of the broadcast definition, checked in every state
Laws ==
   LET a == st.a b == st.b IN
   /\ BCompat(a, b) = BCompat(b, a)
   /\ (BCompat(a, b) => BShape(a, b) = BShape(b, a))
   /\ (UCompat(a, b) => BCompat(a, b) /\ BShape(a, b) = a)
   /\ (BCompat(a, b) => \A i \in 1..Len(BShape(a, b)) :
           BShape(a, b)[i] = MaxI(PadShape(a, Len(BShape(a, b)))[i], PadShape(b, Len(BShape(a, b)))[i]))
=============================================================================
