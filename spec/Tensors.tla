------------------------------- MODULE Tensors -------------------------------
(***************************************************************************)
(* Tensors as [dt, shape, data] with data the row-major element sequence,  *)
(* index arithmetic, and ONNX broadcasting (declarative definition).       *)
(* Index vectors are 0-based sequences of the same length as the shape.    *)
(***************************************************************************)
EXTENDS Values

Nil == [nil |-> TRUE]                \* an absent optional input / output (a record, so it compares with tensors)
IsNil(t) == DOMAIN t = {"nil"}

RECURSIVE ProdSeq(_, _)
ProdSeq(s, i) == IF i > Len(s) THEN 1 ELSE s[i] * ProdSeq(s, i + 1)
Size(shape) == ProdSeq(shape, 1)
\* stride of axis i (1-based) in row-major layout
Stride(shape, i) == ProdSeq(shape, i + 1)

Unravel(k, shape) == [i \in 1..Len(shape) |-> (k \div Stride(shape, i)) % shape[i]]
RECURSIVE RavelFrom(_, _, _)
RavelFrom(idx, shape, i) ==
   IF i > Len(shape) THEN 0 ELSE idx[i] * Stride(shape, i) + RavelFrom(idx, shape, i + 1)
Ravel(idx, shape) == RavelFrom(idx, shape, 1)

T(dt, shape, data) == [dt |-> dt, shape |-> shape, data |-> data]
Mk(dt, shape, F(_)) == T(dt, shape, [k \in 1..Size(shape) |-> F(Unravel(k - 1, shape))])
At(t, idx) == t.data[Ravel(idx, t.shape) + 1]
Rank(t) == Len(t.shape)
\* tensor whose elements are the distinct ids base+1 .. base+size
Iota(dt, shape, base) == T(dt, shape, [k \in 1..Size(shape) |-> base + k])
Const(dt, shape, v) == T(dt, shape, [k \in 1..Size(shape) |-> v])
Vec(dt, seq) == T(dt, <<Len(seq)>>, seq)
ScalarT(dt, v) == T(dt, <<>>, <<v>>)

\* all shapes of rank lo..hi with extents in ext (a set of positive ints)
ShapesOf(ranks, exts) == UNION {[1..r -> exts] : r \in ranks}

\* axis normalisation: ONNX axes may be negative
NormAxis(a, r) == IF a < 0 THEN a + r ELSE a
AxisOK(a, r) == a >= -r /\ a <= r - 1

\* Let(x, F): F applied to the VALUE of x.  TLC passes operator arguments lazily and re-evaluates them at every use inside
\* recursive operators; a variable bound by a set constructor holds an evaluated value, so this forces one evaluation.
Let(x, F(_)) == CHOOSE r \in {F(v) : v \in {x}} : TRUE

\* sequence helpers
SeqMap(F(_), s) == [i \in 1..Len(s) |-> F(s[i])]
Range(s) == {s[i] : i \in 1..Len(s)}
RECURSIVE SumSeq(_, _)
SumSeq(s, i) == IF i > Len(s) THEN 0 ELSE s[i] + SumSeq(s, i + 1)
Take(s, n) == [i \in 1..n |-> s[i]]
Drop(s, n) == [i \in 1..(Len(s) - n) |-> s[i + n]]
IsPerm(p, r) == Len(p) = r /\ Range(p) = 0..(r - 1)
Injective(s) == \A i, j \in 1..Len(s) : i # j => s[i] # s[j]

\* ------------------------------------------------------------ broadcasting
\* right-aligned, missing axes count as 1
PadShape(s, r) == [i \in 1..r |-> IF i <= r - Len(s) THEN 1 ELSE s[i - (r - Len(s))]]
BCompat(a, b) ==
   LET r == MaxI(Len(a), Len(b)) pa == PadShape(a, r) pb == PadShape(b, r)
   IN \A i \in 1..r : pa[i] = pb[i] \/ pa[i] = 1 \/ pb[i] = 1
BShape(a, b) ==
   LET r == MaxI(Len(a), Len(b)) pa == PadShape(a, r) pb == PadShape(b, r)
   IN [i \in 1..r |-> IF pa[i] = 1 THEN pb[i] ELSE pa[i]]
\* source index for result index idx (rank >= Len(s)): stretched axes pinned to 0
BIndex(idx, s) ==
   [i \in 1..Len(s) |-> IF s[i] = 1 THEN 0 ELSE idx[i + (Len(idx) - Len(s))]]
BroadcastTo(t, shape) == Mk(t.dt, shape, LAMBDA idx : At(t, BIndex(idx, t.shape)))
\* unidirectional: B is broadcast to A, A stays as it is
UCompat(a, b) == BCompat(a, b) /\ BShape(a, b) = a

=============================================================================
