SPECIFICATION Spec
CONSTANTS
  Fams = {"transpose", "concat", "slice", "gather", "expand", "dtypes"}
  MaxExt = 3
  SliceRank = 2
  SlicePad = 2
  SliceNeg = TRUE
  SlicePairs = TRUE
  ExpandRank = 3
  GatherIdxRank = 2
INVARIANT Laws
CHECK_DEADLOCK FALSE
