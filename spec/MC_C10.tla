------------------------------- MODULE MC_C10 -------------------------------
EXTENDS OpUnary, OpElementwise, RefTables64, Json, TLC
CONSTANTS Fams, MaxRank, MaxExt, LongSizes
VARIABLES st
P(c) == PrintT(<<"CASE", ToJson(c)>>)
Tag(a) == IF a.must = "error" THEN "invalid" ELSE a.must
CaseRec(fam, op, inputs, allowed, cmp, feat, known) ==
   [prop |-> "C10", fam |-> fam, kind |-> "op", op |-> op, attrs |-> <<>>, inputs |-> inputs, nout |-> 1,
    allowed |-> allowed, cmp |-> cmp, feat |-> feat, known |-> known]
Shapes == ShapesOf(0..MaxRank, 1..MaxExt)

FloatCat == <<NaN, PInf, NInf, Fin(0), NZ, Fin(1), Fin(-1), Rat(5, 2), Rat(-5, 2), FMax, NMax, Fin(7), Rat(1, 2), Fin(-3)>>
SIntCat  == <<Fin(0), Fin(1), Fin(-1), Fin(7), Fin(-7), IMinS, IMaxS, Sym(1, -2), Sym(1, 1), Fin(3)>>
UIntCat  == <<Fin(0), Fin(1), Fin(7), IMaxU, Fin(-2), Sym(1, 0), Sym(1, -1), Fin(3)>>
Cat(dt) == IF dt \in FloatTypes THEN FloatCat ELSE IF dt \in SIntTypes THEN SIntCat ELSE UIntCat
\* tensor of the given shape filled cyclically with the catalogue, starting at offset
CatT(dt, shape, off) == T(dt, shape, [k \in 1..Size(shape) |-> Cat(dt)[((k + off - 1) % Len(Cat(dt))) + 1]])

ExactCases(shape) ==
   /\ \A dt \in NumTypes, off \in {0, 5} :
         LET X == CatT(dt, shape, off) s == SemAbs(X) IN P(CaseRec("exact", "Abs", <<LowerT(X)>>, LowerA(s), "bits", <<Tag(s), dt>>, <<>>))    \* |-0| is +0: bit for bit
   /\ \A dt \in FloatTypes, off \in {0, 5} :
         LET X == CatT(dt, shape, off) s == SemRelu(X) IN P(CaseRec("exact", "Relu", <<LowerT(X)>>, LowerA(s), "num", <<Tag(s), dt>>, <<>>))
   /\ LET X == T("bool", shape, [k \in 1..Size(shape) |-> (k * k) % 3 = 1]) s == SemNot(X) IN P(CaseRec("exact", "Not", <<X>>, s, "num", <<Tag(s)>>, <<>>))

\* PRelu: slope unidirectionally broadcast over every shape pair; values from the catalogue with determined products
PReluCases(a, b) ==
   \A dt \in {"f32", "f64", "i32", "i64", "u32", "u64"} :
      LET X == CatT(dt, a, 2)
          S == T(dt, b, [k \in 1..Size(b) |-> IF dt \in FloatTypes THEN (IF k % 2 = 0 THEN Rat(1, 2) ELSE Fin(-1)) ELSE (IF k % 2 = 0 THEN Fin(3) ELSE Fin(-1))])
          ok == \/ ~UCompat(a, b)
                \/ \A k \in 1..Size(a) : LET idx == Unravel(k - 1, a) IN PReluDefined(dt, At(X, idx), At(S, BIndex(idx, b)))
          s == SemPRelu(X, S)
      IN ok => P(CaseRec("prelu", "PRelu", <<LowerT(X), LowerT(S)>>, LowerA(s), "num", <<Tag(s), dt>>, <<>>))

\* PRelu on special values: zeros of either sign are passed through unchanged (they are not < 0) whatever the slope is, also an
\* infinite or NaN slope; negative inputs take the IEEE product. Compared bit for bit (the sign of zero matters here).
PReluSpecial(dt, off) ==
   \A sl \in {NaN, PInf, NInf, Fin(-1), Fin(2), NZ} :
      LET X == CatT(dt, <<6>>, off)
          S == T(dt, <<1>>, <<sl>>)
          ok == \A k \in 1..6 : PReluDefined(dt, X.data[k], sl)
          s == SemPRelu(X, S)
      IN ok => P(CaseRec("prelu", "PRelu", <<LowerT(X), LowerT(S)>>, LowerA(s), "bits", <<Tag(s), dt, "special_values">>, <<>>))

TableCases(fn, shape) ==
   \A dt \in FloatTypes, off \in {0, 31, 57} :
      P(CaseRec("table", fn, <<GridX(fn, dt, shape, off)>>, MustValue(<<GridY(fn, dt, shape, off)>>),
                "ulp:" \o ToString(UlpOf(fn, off, Size(shape))), <<"value", dt>>, <<>>))
TableFull(fn) ==
   \A dt \in FloatTypes :
      /\ P(CaseRec("table", fn, <<GridX(fn, dt, <<GridLen(fn)>>, 0)>>, MustValue(<<GridY(fn, dt, <<GridLen(fn)>>, 0)>>),
                   "ulp:" \o ToString(UlpOf(fn, 0, GridLen(fn))), <<"value", dt, "full_grid">>, <<>>))
      \* the whole grid behind a leading NaN / infinity (and in front of a trailing one): an element's image does not depend on its neighbours
      /\ \A lead \in {OrdNaN, 2139095040, -2139095040} :
            (lead = OrdNaN \/ HasArg(fn, lead)) =>
               LET n == GridLen(fn)
                   lx == IF lead = OrdNaN THEN NaN ELSE Ord(lead)
                   ly == IF lead = OrdNaN THEN NaN ELSE OrdOrNaN(Lookup(fn, lead))
                   gx == GridX(fn, dt, <<n>>, 0).data  gy == GridY(fn, dt, <<n>>, 0).data IN
               /\ P(CaseRec("table", fn, <<T(dt, <<n + 1>>, <<lx>> \o gx)>>, MustValue(<<T(dt, <<n + 1>>, <<ly>> \o gy)>>),
                            "ulp:" \o ToString(UlpOf(fn, 0, n)), <<"value", dt, "special_first">>, <<>>))
               /\ P(CaseRec("table", fn, <<T(dt, <<n + 1>>, gx \o <<lx>>)>>, MustValue(<<T(dt, <<n + 1>>, gy \o <<ly>>)>>),
                            "ulp:" \o ToString(UlpOf(fn, 0, n)), <<"value", dt, "special_last">>, <<>>))
      /\ P(CaseRec("table", fn, <<T(dt, <<2>>, <<NaN, Fin(0)>>)>>, MustValue(<<T(dt, <<2>>, <<NaN, OrdOrNaN(Lookup(fn, 0))>>)>>),
                   "ulp:" \o ToString(Ulp(fn)), <<"value", dt, "nan_input">>, <<>>))

\* long tensors (an element count that is no multiple of a block size): every element is computed, the last ones too
LongCases(n) ==
   /\ \A dt \in {"f32", "i32"} : LET X == CatT(dt, <<n>>, 3) s == SemAbs(X) IN P(CaseRec("long", "Abs", <<LowerT(X)>>, LowerA(s), "bits", <<Tag(s), dt, "long">>, <<>>))
   /\ LET X == CatT("f32", <<n>>, 1) s == SemRelu(X) IN P(CaseRec("long", "Relu", <<LowerT(X)>>, LowerA(s), "num", <<Tag(s), "f32", "long">>, <<>>))
   /\ LET X == T("bool", <<n>>, [k \in 1..n |-> ((k % 7) * (k % 5)) % 3 = 1]) s == SemNot(X) IN P(CaseRec("long", "Not", <<X>>, s, "num", <<Tag(s), "long">>, <<>>))
   /\ \A dt \in {"f32", "i64"} : \A b \in {<<1>>, <<n>>} :
         LET X == T(dt, <<n>>, [k \in 1..n |-> Fin(((k * 7) % 23) - 11)])
             S == T(dt, b, [k \in 1..Size(b) |-> IF k % 3 = 0 THEN Fin(3) ELSE Fin(-2)])
             s == SemPRelu(X, S)
         IN P(CaseRec("long", "PRelu", <<LowerT(X), LowerT(S)>>, LowerA(s), "num", <<Tag(s), dt, "long">>, <<>>))
   /\ \A fn \in RefFns : P(CaseRec("long", fn, <<GridX(fn, "f32", <<n>>, 0)>>, MustValue(<<GridY(fn, "f32", <<n>>, 0)>>),
                                  "ulp:" \o ToString(UlpOf(fn, 0, GridLen(fn))), <<"value", "f32", "long">>, <<>>))

\* tiling law (Outcome.tla): the flagged operands are repeated beyond a million elements by the harness
LookupT(fn, X) == T(X.dt, X.shape, [k \in 1..Len(X.data) |-> OrdOrNaN(Lookup(fn, X.data[k].n))])       \* grid arguments only
TileEmit(fam, op, ins, a, cmp, feat, S, Sem(_)) ==
   TileLaw(Sem, ins, S) => P(CaseRec(fam, op, [i \in 1..Len(ins) |-> LowerT(ins[i])], LowerA(a), cmp, feat \o <<"tile_law">>, <<>>) @@ [tile |-> TileField(S)])
TileCases ==
   /\ \A dt \in {"f32", "i64"}, sh \in {<<3>>, <<3, 2>>, <<5, 1, 2>>} :
         LET X == CatT(dt, sh, 2) IN TileEmit("tile", "Abs", <<X>>, SemAbs(X), "bits", <<"value", dt>>, {1}, LAMBDA ins : SemAbs(ins[1]))
   /\ \A dt \in {"f32", "f64"}, sh \in {<<3>>, <<3, 2>>} :
         LET X == CatT(dt, sh, 4) IN TileEmit("tile", "Relu", <<X>>, SemRelu(X), "num", <<"value", dt>>, {1}, LAMBDA ins : SemRelu(ins[1]))
   /\ LET X == T("bool", <<3, 2>>, <<TRUE, FALSE, FALSE, TRUE, TRUE, TRUE>>) IN TileEmit("tile", "Not", <<X>>, SemNot(X), "num", <<"value", "bool">>, {1}, LAMBDA ins : SemNot(ins[1]))
   /\ \A dt \in {"f32", "i64"} : \A v \in {<<<<3, 2>>, <<2>>, {1}>>, <<<<3>>, <<3>>, {1, 2}>>, <<<<3>>, <<1>>, {1}>>, <<<<3, 2>>, <<3, 1>>, {1, 2}>>} :
         LET X == T(dt, v[1], [k \in 1..Size(v[1]) |-> Fin(((k * 7) % 23) - 11)])
             S == T(dt, v[2], [k \in 1..Size(v[2]) |-> IF k % 3 = 0 THEN Fin(3) ELSE Fin(-2)])
         IN TileEmit("tile", "PRelu", <<X, S>>, SemPRelu(X, S), "num", <<"value", dt>>, v[3], LAMBDA ins : SemPRelu(ins[1], ins[2]))
   /\ \A fn \in RefFns : \A off \in {0, 40} :
         LET X == GridX(fn, "f32", <<7>>, off) IN
         TileLaw(LAMBDA ins : MustValue(<<LookupT(fn, ins[1])>>), <<X>>, {1}) =>
            P(CaseRec("tile", fn, <<X>>, MustValue(<<LookupT(fn, X)>>), "ulp:" \o ToString(UlpOf(fn, off, 7)), <<"value", "f32", "tile_law">>, <<>>) @@ [tile |-> TileField({1})])

\* float64 tensors at float64 precision: the float64 reference grid (small arguments where f(x) and x differ only beyond float32
\* precision, ordinary and moderately large ones), compared in units of the last place of a float64
\* (256 units: the kernels are Go's math functions; near the ends of a domain - Acos close to 1 is pi/2 - Asin - they lose several
\* bits to cancellation, which is rounding error of the computation; a shortcut that is only valid in float32 is off by 10^4 units and more)
Ulp64(fn) == 256
Table64Cases(fn) ==
   LET n == Len(Ref64(fn))
       X == T("f64", <<n>>, [k \in 1..n |-> Ref64(fn)[k][1]]) Y == T("f64", <<n>>, [k \in 1..n |-> Ref64(fn)[k][2]])
       m == n \div 2
       X2 == T("f64", <<2, m>>, [k \in 1..(2 * m) |-> Ref64(fn)[n + 1 - k][1]]) Y2 == T("f64", <<2, m>>, [k \in 1..(2 * m) |-> Ref64(fn)[n + 1 - k][2]]) IN
   /\ P(CaseRec("table64", fn, <<X>>, MustValue(<<Y>>), "ulp64:" \o ToString(Ulp64(fn)), <<"value", "f64", "float64_precision">>, <<>>))
   /\ P(CaseRec("table64", fn, <<X2>>, MustValue(<<Y2>>), "ulp64:" \o ToString(Ulp64(fn)), <<"value", "f64", "float64_precision">>, <<>>))

Init ==
   \/ ("long" \in Fams /\ st \in [fam : {"long"}, n : LongSizes, done : {FALSE}])
   \/ ("exact" \in Fams /\ st \in [fam : {"exact"}, shape : Shapes, done : {FALSE}])
   \/ ("prelu" \in Fams /\ st \in [fam : {"prelu"}, a : ShapesOf(0..3, 1..2), b : ShapesOf(0..3, 1..2), done : {FALSE}])
   \/ ("table" \in Fams /\ st \in [fam : {"table"}, fn : RefFns, shape : ShapesOf(0..MaxRank, 2..MaxExt) \cup {<<>>, <<1>>, <<1, 1>>}, done : {FALSE}])
   \/ ("table" \in Fams /\ st \in [fam : {"tablefull"}, fn : RefFns, done : {FALSE}])
Emit ==
   /\ ~st.done
   /\ CASE st.fam = "exact" -> ExactCases(st.shape)
        [] st.fam = "long" -> LongCases(st.n) /\ TileCases
        [] st.fam = "prelu" -> PReluCases(st.a, st.b) /\ (st.a = <<>> /\ st.b = <<>> => \A dt \in FloatTypes, off \in 0..13 : PReluSpecial(dt, off))
        [] st.fam = "table" -> TableCases(st.fn, st.shape)
        [] st.fam = "tablefull" -> TableFull(st.fn) /\ Table64Cases(st.fn)
   /\ st' = [st EXCEPT !.done = TRUE]
Next == Emit
Spec == Init /\ [][Next]_st
Laws == TableLaws
=============================================================================
