------------------------------- MODULE OpReduce -------------------------------
(***************************************************************************)
(* ArgMax, ReduceMax, ReduceMin, Softmax, LogSoftmax (C09).                *)
(* Element convention: plain integers for the reductions; Softmax family:  *)
(* integers that are multiples of BIG (exact regime: exp(-BIG) underflows  *)
(* to 0 in float32 and float64, so the result is 1/k on the k maxima of a  *)
(* slice and exactly 0 elsewhere; LogSoftmax with a unique maximum is      *)
(* x - max exactly).                                                       *)
(***************************************************************************)
EXTENDS Attrs

BIG == 1000
SetMax(S) == CHOOSE x \in S : \A y \in S : y <= x
SetMin(S) == CHOOSE x \in S : \A y \in S : x <= y

\* indices of X that project onto out-index idx when the axes in axset (0-based) are reduced
\* outIdx has the reduced axes present with value 0 (keepdims layout)
\* built axis by axis over the reduced axes only (the filtered function set over all axes is exponential in the rank)
RECURSIVE SourcesFrom(_, _, _)
SourcesFrom(shape, axes, base) ==
   IF axes = {} THEN {base}
   ELSE LET a == CHOOSE x \in axes : \A y \in axes : x <= y IN
        UNION {SourcesFrom(shape, axes \ {a}, [base EXCEPT ![a + 1] = v]) : v \in 0..(shape[a + 1] - 1)}
SourceSet(shape, axset, kidx) == SourcesFrom(shape, axset, kidx)
KeepShape(shape, axset) == [i \in 1..Len(shape) |-> IF (i - 1) \in axset THEN 1 ELSE shape[i]]
DropShape(shape, axset) ==
   LET keep == SelectSeq([i \in 1..Len(shape) |-> i], LAMBDA i : (i - 1) \notin axset)
   IN [j \in 1..Len(keep) |-> shape[keep[j]]]

ReduceValue(X, axset, keepdims, Pick(_)) ==
   LET ks == KeepShape(X.shape, axset)
       full == Mk(X.dt, ks, LAMBDA kidx : Pick({At(X, src) : src \in SourceSet(X.shape, axset, kidx)}))
   IN IF keepdims THEN full ELSE T(X.dt, DropShape(X.shape, axset), full.data)

ReduceAxesInRange(shape, axes) == \A i \in 1..Len(axes) : AxisOK(axes[i], Len(shape))
ReduceAxesDistinct(shape, axes) == Injective([i \in 1..Len(axes) |-> NormAxis(axes[i], Len(shape))])
SemReduce(op, X, attrs) ==
   LET r == Len(X.shape)
       axes == AttrV(attrs, "axes", <<>>)
       keep == AttrV(attrs, "keepdims", 1) # 0
       axset == IF HasAttr(attrs, "axes") /\ Len(axes) > 0 THEN {NormAxis(axes[i], r) : i \in 1..Len(axes)} ELSE 0..(r - 1)
   IN IF ~ReduceAxesInRange(X.shape, axes) THEN MustError
      ELSE IF ~ReduceAxesDistinct(X.shape, axes) THEN NoCrash          \* the property does not speak about repeated axes
      ELSE Weaken(X.dt \notin {"f32", "f64", "i32", "i64"},
                  MustValue(<<IF op = "ReduceMax" THEN ReduceValue(X, axset, keep, SetMax) ELSE ReduceValue(X, axset, keep, SetMin)>>))

\* ArgMax: first occurrence of the maximum along one axis, int64
ArgMaxValue(X, a, keepdims) ==
   LET ks == KeepShape(X.shape, {a})
       full == Mk("i64", ks, LAMBDA kidx :
                  LET vals == [j \in 0..(X.shape[a + 1] - 1) |-> At(X, [kidx EXCEPT ![a + 1] = j])]
                      m == SetMax({vals[j] : j \in DOMAIN vals})
                  IN SetMin({j \in DOMAIN vals : vals[j] = m}))
   IN IF keepdims THEN full ELSE T("i64", DropShape(X.shape, {a}), full.data)
SemArgMax(X, attrs) ==
   LET r == Len(X.shape) axis == AttrV(attrs, "axis", 0) keep == AttrV(attrs, "keepdims", 1) # 0 IN
   IF r = 0 \/ ~AxisOK(axis, r) THEN MustError
   ELSE IF AttrV(attrs, "select_last_index", 0) # 0 THEN ValueOrError(<<>>)     \* generated only to be refused
   ELSE Weaken(X.dt \notin {"f32", "f64", "i32", "i64"}, MustValue(<<ArgMaxValue(X, NormAxis(axis, r), keep)>>))

\* Softmax family in the exact regime: every element of X is a multiple of BIG
SliceVals(X, a, idx) == {At(X, [idx EXCEPT ![a + 1] = j]) : j \in 0..(X.shape[a + 1] - 1)}
CountMax(X, a, idx) == LET m == SetMax(SliceVals(X, a, idx)) IN
                       Cardinality({j \in 0..(X.shape[a + 1] - 1) : At(X, [idx EXCEPT ![a + 1] = j]) = m})
SoftmaxValue(X, a) ==
   Mk(X.dt, X.shape, LAMBDA idx : IF At(X, idx) = SetMax(SliceVals(X, a, idx)) THEN Rat(1, CountMax(X, a, idx)) ELSE Fin(0))
\* defined only when every slice has a unique maximum
LogSoftmaxValue(X, a) == Mk(X.dt, X.shape, LAMBDA idx : Fin(At(X, idx) - SetMax(SliceVals(X, a, idx))))
UniqueMax(X, a) == \A k \in 1..Size(X.shape) : CountMax(X, a, Unravel(k - 1, X.shape)) = 1
\* KF-C09-softmax-lastaxis-max (defect model). Along the LAST axis the tensor library seeds the running maximum of
\* every slice with the first element of the whole tensor (and skips the slice's own first element), so a slice
\* lying far below that element, or whose first element is its far-largest, is normalised with exp() under/overflow.
\* In the exact regime (multiples of BIG) the outcome is:
\*   m' = max(x[0...0], slice[1..]);  z = x - m'
\*   all z < 0  : Softmax NaN everywhere (0 * 1/0),  LogSoftmax +Inf everywhere (z - log 0)
\*   some z > 0 : Softmax NaN there and 0 elsewhere (exp * 1/Inf), LogSoftmax -Inf everywhere (z - log Inf)
AsIsLastAxis(op, X) ==
   LET r == Len(X.shape) a == r - 1 n == X.shape[r]
       first == X.data[1]
       MPrime(idx) == SetMax({first} \cup {At(X, [idx EXCEPT ![r] = j]) : j \in 1..(n - 1)})
       Z(idx, j) == At(X, [idx EXCEPT ![r] = j]) - MPrime(idx)
       AllBelow(idx) == \A j \in 0..(n - 1) : Z(idx, j) < 0
       SomeAbove(idx) == \E j \in 0..(n - 1) : Z(idx, j) > 0
       K(idx) == Cardinality({j \in 0..(n - 1) : Z(idx, j) = 0})
   IN Mk(X.dt, X.shape, LAMBDA idx :
         IF AllBelow(idx) THEN (IF op = "Softmax" THEN NaN ELSE PInf)
         ELSE IF SomeAbove(idx) THEN (IF op = "Softmax" THEN (IF Z(idx, idx[r]) > 0 THEN NaN ELSE Fin(0)) ELSE NInf)
         ELSE IF op = "Softmax" THEN (IF Z(idx, idx[r]) = 0 THEN Rat(1, K(idx)) ELSE Fin(0))
         ELSE Fin(Z(idx, idx[r])))
KnownSoftmax(op, X, attrs) ==
   LET r == Len(X.shape) axis == AttrV(attrs, "axis", -1) IN
   IF r >= 1 /\ AxisOK(axis, r) /\ NormAxis(axis, r) = r - 1
   THEN LET m == AsIsLastAxis(op, X)
            good == IF op = "Softmax" THEN SoftmaxValue(X, r - 1) ELSE LogSoftmaxValue(X, r - 1)
        IN IF m # good /\ (op = "Softmax" \/ UniqueMax(X, r - 1)) THEN <<Known("KF-C09-softmax-lastaxis-max", "value", <<m>>)>> ELSE <<>>
   ELSE <<>>

SemSoftmax(op, X, attrs) ==
   LET r == Len(X.shape) axis == AttrV(attrs, "axis", -1) IN
   IF r = 0 THEN NoCrash
   ELSE IF ~AxisOK(axis, r) THEN MustError
   ELSE IF op = "Softmax" THEN MustValue(<<SoftmaxValue(X, NormAxis(axis, r))>>)
   ELSE IF UniqueMax(X, NormAxis(axis, r)) THEN MustValue(<<LogSoftmaxValue(X, NormAxis(axis, r))>>)
   ELSE NoCrash
=============================================================================
