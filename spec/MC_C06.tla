------------------------------- MODULE MC_C06 -------------------------------
(***************************************************************************)
(* C06 case generator for RNN / GRU / LSTM.  The cell is run as a state    *)
(* machine: one TLC transition per time step, with H, C and the outputs    *)
(* held in the state (this is the recurrence itself, and it keeps TLC from *)
(* re-evaluating intermediate tensors).                                    *)
(*  "structure" : every size x every subset of optional inputs, distinct   *)
(*                weights per gate block and bias half (any swap changes   *)
(*                the result); saturated-sigmoid gates with relu cells     *)
(*  "slots"     : every activation tuple over {sigmoid, tanh, relu}        *)
(*  "invalid"   : attribute combinations that must be refused              *)
(*  "split"     : whole sequence vs two pieces with the state fed forward  *)
(* Only cases whose evaluation stays in the exact regime are emitted.      *)
(***************************************************************************)
EXTENDS OpRecurrent, Json, TLC
CONSTANTS Fams, OpSet, MaxS, MaxB, MaxIn, MaxH
VARIABLES st
P(c) == PrintT(<<"CASE", ToJson(c)>>)

Scale(a) == IF a = "relu" THEN 1 ELSE RBIG
NZ5(v) == LET m == (v % 5) - 2 IN IF m >= 0 THEN m + 1 ELSE m          \* in {-2,-1,1,2,3}
\* activation slot of each gate block
SlotOf(op, g) == CASE op = "RNN" -> 1 [] op = "GRU" -> (IF g = 2 THEN 2 ELSE 1) [] op = "LSTM" -> (IF g = 3 THEN 2 ELSE 1)
\* cboost: give the cell block the large scale even under relu (so that h = tanh/sigmoid sees |C| >= BIG)
BlockScale(op, acts, g, cboost) == IF cboost /\ SlotOf(op, g) = 2 THEN RBIG ELSE Scale(acts[SlotOf(op, g)])

MkW(op, dt, acts, Hd, width, salt, cboost) ==
   LET G == NGates(op) IN
   T(dt, <<1, G * Hd, width>>,
     [n \in 1..(G * Hd * width) |->
        LET g == (n - 1) \div (Hd * width) j == (((n - 1) \div width) % Hd) + 1 k == ((n - 1) % width) + 1
            sc == BlockScale(op, acts, g, cboost)
        IN (IF sc = 1 THEN 1 ELSE 2 * sc) * NZ5(g * 7 + j * 3 + k * 11 + salt)])
MkB(op, dt, acts, Hd, salt, cboost) ==
   LET G == NGates(op) IN
   T(dt, <<1, 2 * G * Hd>>,
     [n \in 1..(2 * G * Hd) |->
        LET blk == (n - 1) \div Hd j == ((n - 1) % Hd) + 1 g == blk % G half == blk \div G
            sc == BlockScale(op, acts, g, cboost)
        IN IF sc = 1 THEN NZ5(blk * 3 + j + salt)
           ELSE IF half = 0 THEN sc * (2 * NZ5(blk * 3 + j + salt) + 1)      \* odd multiple: the gate pre-activation is never 0
           ELSE sc * 2 * NZ5(blk * 5 + j * 2 + salt)])
MkP(dt, acts, Hd, salt) ==
   T(dt, <<1, 3 * Hd>>, [n \in 1..(3 * Hd) |-> (IF Scale(acts[1]) = 1 THEN 1 ELSE 2 * RBIG) * NZ5(n * 3 + salt)])
MkX(dt, S, Bt, I, salt) == T(dt, <<S, Bt, I>>, [n \in 1..(S * Bt * I) |-> ((n * 7 + salt) % 5) - 2])
MkH0(dt, Bt, Hd, salt) == T(dt, <<1, Bt, Hd>>, [n \in 1..(Bt * Hd) |-> ((n * 3 + salt) % 4) - 1])
MkC0(dt, Bt, Hd, salt, big) == T(dt, <<1, Bt, Hd>>, [n \in 1..(Bt * Hd) |-> (IF big THEN 3 * RBIG ELSE 1) * NZ5(n * 2 + salt)])

SetMaxI(S) == CHOOSE x \in S : \A y \in S : y <= x
\* opt: subset of {"B","h0","c0","P"} present; absent inputs before the last present one are spelled as skipped ("")
BuildInputs(op, dt, acts, S, Bt, I, Hd, opt, salt, cboost, bigc) ==
   LET full == <<MkX(dt, S, Bt, I, salt), MkW(op, dt, acts, Hd, I, salt, cboost), MkW(op, dt, acts, Hd, Hd, salt + 1, cboost),
                 IF "B" \in opt THEN MkB(op, dt, acts, Hd, salt, cboost) ELSE Nil, Nil,
                 IF "h0" \in opt THEN MkH0(dt, Bt, Hd, salt) ELSE Nil>> \o
               (IF op = "LSTM" THEN <<IF "c0" \in opt THEN MkC0(dt, Bt, Hd, salt, bigc) ELSE Nil,
                                      IF "P" \in opt THEN MkP(dt, acts, Hd, salt) ELSE Nil>> ELSE <<>>)
       last == SetMaxI({i \in 1..Len(full) : ~IsNil(full[i])})
   IN Take(full, last)

ActAttr(op, acts) == IF acts = DefaultActs(op) THEN <<>> ELSE <<ASs("activations", acts)>>
NOut(op) == IF op = "LSTM" THEN 3 ELSE 2
OptSets(op) == IF op = "LSTM" THEN SUBSET {"B", "h0", "c0", "P"} ELSE SUBSET {"B", "h0"}
AllOpt(op) == IF op = "LSTM" THEN {"B", "h0", "c0", "P"} ELSE {"B", "h0"}
OptFeat(opt) == (IF "B" \in opt THEN <<"B">> ELSE <<"noB">>) \o (IF "h0" \in opt THEN <<"h0">> ELSE <<>>)
                \o (IF "c0" \in opt THEN <<"c0">> ELSE <<>>) \o (IF "P" \in opt THEN <<"P">> ELSE <<>>)
StructActs(op) == CASE op = "RNN" -> {<<"relu">>, <<"tanh">>} [] op = "GRU" -> {<<"sigmoid", "relu">>, <<"sigmoid", "tanh">>}
                    [] op = "LSTM" -> {<<"sigmoid", "relu", "relu">>, <<"relu", "relu", "relu">>}
ActTuples(op) == [1..NActs(op) -> KnownActs]

\* ---------------------------------------------------------------- parameter spaces (one initial state per case)
WidePairs == {<<1, 12>>, <<11, 2>>, <<12, 1>>, <<1, 21>>, <<2, 11>>, <<21, 1>>, <<1, 11>>, <<11, 1>>, <<1, 10>>, <<10, 1>>, <<2, 13>>, <<21, 3>>, <<3, 12>>, <<31, 2>>}
Params ==
   UNION {
     IF "structure" \in Fams
     THEN UNION {[fam : {"structure"}, op : {op}, S : 1..MaxS, Bt : 1..MaxB, I : 1..MaxIn, Hd : 1..MaxH, acts : StructActs(op), opt : OptSets(op),
                  salt : {0, 3}, lbr : IF op = "GRU" THEN {0, 1} ELSE {0}, cboost : {FALSE}, bigc : {FALSE}, k : {0}] : op \in OpSet}
     ELSE {},
     \* extents of two decimal digits, in pairs whose digit strings coincide when written one after the other ((1,12) and (11,2), (1,21)
     \* and (12,1), ...): whatever a state shape is turned into - a key, a label, a size - two different shapes stay two different shapes
     IF "structure" \in Fams
     THEN UNION {[fam : {"structure"}, op : {op}, S : {1, 2}, Bt : {bh[1]}, I : {1}, Hd : {bh[2]}, acts : {CHOOSE a \in StructActs(op) : a[Len(a)] = "relu"},
                  opt : {{}, AllOpt(op)}, salt : {0}, lbr : {0}, cboost : {FALSE}, bigc : {FALSE}, k : {0}] : op \in OpSet, bh \in WidePairs}
     ELSE {},
     IF "slots" \in Fams
     THEN UNION {[fam : {"slots"}, op : {op}, S : 1..2, Bt : {2}, I : {2}, Hd : {2}, acts : ActTuples(op), opt : {AllOpt(op), AllOpt(op) \ {"P"}},
                  salt : IF op = "RNN" THEN {1} ELSE {1, 2}, lbr : {0}, cboost : IF op = "LSTM" THEN BOOLEAN ELSE {FALSE},
                  bigc : IF op = "LSTM" THEN BOOLEAN ELSE {FALSE}, k : {0}] : op \in OpSet}
     ELSE {},
     IF "split" \in Fams
     THEN UNION {{p \in [fam : {"split"}, op : {op}, S : 2..MaxS, Bt : 1..MaxB, I : {2}, Hd : 1..MaxH, acts : StructActs(op), opt : {AllOpt(op)},
                        salt : {0, 3}, lbr : {0}, cboost : {FALSE}, bigc : {FALSE}, k : 1..(MaxS - 1)] : p.k < p.S} : op \in OpSet}
     ELSE {} }

Blank == [phase |-> "param", ins |-> <<>>, t |-> 0, H |-> <<>>, C |-> <<>>, Ys |-> <<>>, lawok |-> TRUE]

Init == \/ \E p \in Params : st = [p |-> p] @@ Blank
        \/ ("invalid" \in Fams /\ \E op \in OpSet : st = [p |-> [fam |-> "invalid", op |-> op]] @@ [Blank EXCEPT !.phase = "invalid"])

\* ---------------------------------------------------------------- the cell as a state machine
Build ==
   /\ st.phase = "param"
   /\ LET p == st.p
          ins == BuildInputs(p.op, "f32", p.acts, p.S, p.Bt, p.I, p.Hd, p.opt, p.salt, p.cboost, p.bigc)
      IN st' = [st EXCEPT !.phase = "run", !.ins = ins, !.t = 1,
                          !.H = Init2(In(ins, 6), p.Bt, p.Hd), !.C = Init2(In(ins, 7), p.Bt, p.Hd)]

StepOf(p, ins, X, t, H, C) ==
   CASE p.op = "RNN"  -> RNNStep(X, ins[2], ins[3], In(ins, 4), t, H, p.acts[1], p.Hd) @@ [C |-> C]
     [] p.op = "GRU"  -> GRUStep(X, ins[2], ins[3], In(ins, 4), t, H, p.acts[1], p.acts[2], p.lbr = 1, p.Hd) @@ [C |-> C]
     [] p.op = "LSTM" -> LSTMStep(X, ins[2], ins[3], In(ins, 4), In(ins, 8), t, H, C, p.acts[1], p.acts[2], p.acts[3], FALSE, p.Hd)

Step ==
   /\ st.phase = "run" /\ st.t <= st.p.S
   /\ LET p == st.p X == st.ins[1]
          s == StepOf(p, st.ins, X, st.t, st.H, st.C)
          \* splitting law: the second piece, started at the state reached after k steps, takes the same step as the whole
          per == p.Bt * p.I
          X2 == T("f32", <<p.S - p.k, p.Bt, p.I>>, Drop(X.data, p.k * per))
          law == (p.fam = "split" /\ st.t > p.k /\ s.ok) => (StepOf(p, st.ins, X2, st.t - p.k, st.H, st.C) = s)
      IN IF s.ok
         THEN st' = [st EXCEPT !.t = st.t + 1, !.H = s.H, !.C = s.C, !.Ys = Append(st.Ys, s.H), !.lawok = law]
         ELSE st' = [st EXCEPT !.phase = "filtered"]

CaseFeat(p) ==
   CASE p.fam = "structure" -> <<p.op, "acts_" \o p.acts[1]>> \o OptFeat(p.opt) \o (IF p.lbr = 1 THEN <<"linear_before_reset">> ELSE <<>>)
                               \o (IF p.Hd = 1 THEN <<"hidden1">> ELSE <<>>) \o (IF p.Bt = 1 THEN <<"batch1">> ELSE <<>>) \o (IF p.S = 1 THEN <<"seq1">> ELSE <<>>)
                               \o (IF p.Bt >= 10 \/ p.Hd >= 10 THEN <<"two_digit_extent">> ELSE <<>>)
     [] p.fam = "slots" -> <<p.op, "slots">> \o [i \in 1..Len(p.acts) |-> "slot" \o ToString(i) \o "_" \o p.acts[i]]
     [] p.fam = "split" -> <<p.op, "split_at_" \o ToString(p.k)>>

Emit ==
   /\ st.phase = "run" /\ st.t > st.p.S
   /\ LET p == st.p
          Y  == T("f32", <<p.S, 1, p.Bt, p.Hd>>, FlatY(st.Ys, 1, p.Bt, p.Hd))
          Yh == T("f32", <<1, p.Bt, p.Hd>>, Flat2(st.H, p.Bt, p.Hd))
          outs == IF p.op = "LSTM" THEN <<Y, Yh, T("f32", <<1, p.Bt, p.Hd>>, Flat2(st.C, p.Bt, p.Hd))>> ELSE <<Y, Yh>>
          attrs == <<AI("hidden_size", p.Hd)>> \o ActAttr(p.op, p.acts) \o (IF p.lbr = 1 THEN <<AI("linear_before_reset", 1)>> ELSE <<>>)
          c == [prop |-> "C06", fam |-> p.fam, kind |-> IF p.fam = "split" THEN "recsplit" ELSE "op", op |-> p.op, attrs |-> attrs,
                inputs |-> st.ins, nout |-> NOut(p.op), allowed |-> MustValue(outs), cmp |-> "num", feat |-> CaseFeat(p), known |-> <<>>,
                x |-> [k |-> p.k]]
      IN P(c)
   /\ st' = [st EXCEPT !.phase = "done"]

\* ---------------------------------------------------------------- requests that must be refused (evaluated with the recursive semantics)
CaseOf(fam, op, attrs, inputs, nout, feat) ==
   LET r == SemRecurrent(op, attrs, inputs, nout) IN
   [prop |-> "C06", fam |-> fam, kind |-> "op", op |-> op, attrs |-> attrs, inputs |-> inputs, nout |-> nout,
    allowed |-> r.allowed, cmp |-> "num", feat |-> feat, known |-> <<>>, emit |-> r.ok]
Emit1(c) == LET cc == c IN cc.emit => P(cc)
Invalid(op) ==
   LET ins == BuildInputs(op, "f32", DefaultActs(op), 2, 2, 2, 2, {"B", "h0"}, 0, FALSE, FALSE)
       base == <<AI("hidden_size", 2)>>
       E(attrs, inputs, nout, f) == Emit1(CaseOf("invalid", op, attrs, inputs, nout, <<op, f>>))
   IN /\ \A n \in 0..4 : n # NActs(op) => E(base \o <<ASs("activations", [i \in 1..n |-> "relu"])>>, ins, NOut(op), "activations_wrong_length")
      /\ E(base \o <<ASs("activations", [i \in 1..NActs(op) |-> "softsign"])>>, ins, NOut(op), "activation_unknown")
      /\ E(base \o <<ASs("activations", [i \in 1..NActs(op) |-> "Relu"])>>, BuildInputs(op, "f32", [i \in 1..NActs(op) |-> "relu"], 2, 2, 2, 2, {"B", "h0"}, 0, FALSE, FALSE), NOut(op), "activation_onnx_spelling")
      \* the ONNX spelling in one slot, for every slot and name: refused, or computed with exactly that function in that slot
      /\ \A i \in 1..NActs(op) : \A nm \in {<<"Relu", "relu">>, <<"Tanh", "tanh">>, <<"Sigmoid", "sigmoid">>} : \A a \in StructActs(op) :
            E(base \o <<ASs("activations", [a EXCEPT ![i] = nm[1]])>>, BuildInputs(op, "f32", [a EXCEPT ![i] = nm[2]], 2, 2, 2, 2, {"B", "h0"}, 0, FALSE, FALSE), NOut(op),
              "activation_onnx_spelling_slot" \o ToString(i))
      /\ E(base \o <<AF("clip", 3)>>, ins, NOut(op), "clip")
      /\ \A d \in {"reverse", "bidirectional"} : E(base \o <<AS("direction", d)>>, ins, NOut(op), "direction")
      /\ E(base, [ins EXCEPT ![5] = T("i32", <<2>>, <<2, 2>>)], NOut(op), "sequence_lens")
      \* sequence_lens over a batch of 3 and 3 steps: all full, mixed, all short, and ill-formed ones - refused, or honoured with the
      \* ONNX meaning (a sample stops at its own length: its later rows of Y are zero, Y_h / Y_c hold its last valid state)
      /\ \A a \in StructActs(op) : \A lens \in {<<3, 3, 3>>, <<3, 1, 3>>, <<1, 2, 3>>, <<2, 2, 2>>, <<1, 1, 1>>, <<3, 0, 3>>, <<4, 3, 3>>, <<3, 3>>} :
            LET insL == BuildInputs(op, "f32", a, 3, 3, 2, 2, {"B", "h0"}, 1, FALSE, FALSE) IN
            E(base \o ActAttr(op, a), [insL EXCEPT ![5] = T("i32", <<Len(lens)>>, lens)], NOut(op), "sequence_lens_batch")
      /\ E(<<>>, ins, NOut(op), "no_hidden_size")
      /\ \A a \in StructActs(op) :
            E(base \o ActAttr(op, a), BuildInputs(op, "f64", a, 2, 2, 2, 2, {"B", "h0"}, 0, FALSE, FALSE), NOut(op), "f64")
      /\ \A nout \in 1..(NOut(op) - 1) : \A a \in StructActs(op) :
            E(base \o ActAttr(op, a), BuildInputs(op, "f32", a, 2, 2, 2, 2, {"B", "h0"}, 0, FALSE, FALSE), nout, "fewer_outputs")
      /\ (op = "LSTM" => \A a \in StructActs(op), opt \in {{"B"}, {"B", "h0", "c0", "P"}} :
            E(base \o ActAttr(op, a) \o <<AI("input_forget", 1)>>, BuildInputs(op, "f32", a, 2, 2, 2, 2, opt, 0, FALSE, FALSE), 3, "input_forget"))
\* tiling law along the batch axis (Outcome!TileLawAx): X and the initial states carry the batch on axis 1, Y on axis 2, Y_h / Y_c on
\* axis 1; the samples of a batch are independent, so the harness repeats a 2-sample batch several thousand times
TileRec(op) ==
   \A a \in StructActs(op) : \A opt \in {{"B"}, AllOpt(op), AllOpt(op) \ {"B"}} :
      LET ins == BuildInputs(op, "f32", a, 2, 2, 2, 2, opt, 0, FALSE, FALSE)
          attrs == <<AI("hidden_size", 2)>> \o ActAttr(op, a)
          iax == [i \in {1} \cup (IF "h0" \in opt THEN {6} ELSE {}) \cup (IF op = "LSTM" /\ "c0" \in opt THEN {7} ELSE {}) |-> 1]
          oax == IF op = "LSTM" THEN <<2, 1, 1>> ELSE <<2, 1>>
          c == CaseOf("tile", op, attrs, ins, NOut(op), <<op, "tile_law">> \o OptFeat(opt)) IN
      (c.emit /\ TileLawAx(LAMBDA i : SemRecurrent(op, attrs, i, NOut(op)).allowed, ins, iax, oax)) => P(c @@ [tile |-> TileFieldAx(iax, oax)])
\* zero-padding law: hidden units whose weights, recurrence weights, biases, peepholes and initial state are all zero stay at exactly zero
\* (g(0) = h(0) = 0 for relu and tanh, whatever the gates do) and feed nothing back; input features whose weights are zero contribute
\* nothing. So the case with q more hidden units and p more input features, padded with zeros block by block (the gates are stacked along
\* the hidden axis of W, R, B and P), has the outputs of the case, padded with q zeros along the hidden axis. TLC checks the law on the
\* specification for (p, q) = (1, 1) and (0, 2); the harness pads the flagged case to 1024 hidden units and 512 input features - weight
\* matrices of more than a million elements, a size no enumeration reaches.
PadAxis(t, a, b, x) ==
   LET e == t.shape[a + 1] \div b ne == e + x nshape == [t.shape EXCEPT ![a + 1] = b * ne] IN
   Mk(t.dt, nshape, LAMBDA idx : LET j == idx[a + 1] IN
                                  IF j % ne >= e THEN 0 ELSE At(t, [idx EXCEPT ![a + 1] = (j \div ne) * e + (j % ne)]))
Gates(op) == CASE op = "RNN" -> 1 [] op = "GRU" -> 3 [] op = "LSTM" -> 4
PadPlan(op) ==     \* [pos (1-based), axis (0-based), blocks, dim]
   <<[pos |-> 1, axis |-> 2, blocks |-> 1, dim |-> "i"], [pos |-> 2, axis |-> 1, blocks |-> Gates(op), dim |-> "h"], [pos |-> 2, axis |-> 2, blocks |-> 1, dim |-> "i"],
     [pos |-> 3, axis |-> 1, blocks |-> Gates(op), dim |-> "h"], [pos |-> 3, axis |-> 2, blocks |-> 1, dim |-> "h"],
     [pos |-> 4, axis |-> 1, blocks |-> 2 * Gates(op), dim |-> "h"], [pos |-> 6, axis |-> 2, blocks |-> 1, dim |-> "h"]>> \o
   (IF op = "LSTM" THEN <<[pos |-> 7, axis |-> 2, blocks |-> 1, dim |-> "h"], [pos |-> 8, axis |-> 1, blocks |-> 3, dim |-> "h"]>> ELSE <<>>)
RECURSIVE PadWith(_, _, _, _, _)
PadWith(ins, plan, k, p, q) ==
   IF k > Len(plan) THEN ins
   ELSE LET e == plan[k] x == IF e.dim = "h" THEN q ELSE p IN
        PadWith(IF e.pos <= Len(ins) /\ ~IsNil(ins[e.pos]) /\ x > 0 THEN [ins EXCEPT ![e.pos] = PadAxis(@, e.axis, e.blocks, x)] ELSE ins, plan, k + 1, p, q)
OutAxes(op) == IF op = "LSTM" THEN <<3, 2, 2>> ELSE <<3, 2>>
PadLawAt(op, attrsOf(_), ins, Hd, p, q) ==
   LET a == SemRecurrent(op, attrsOf(Hd), ins, NOut(op)).allowed
       b == SemRecurrent(op, attrsOf(Hd + q), PadWith(ins, PadPlan(op), 1, p, q), NOut(op)).allowed IN
   /\ a.must = "value" /\ b.must = "value" /\ Len(a.value) = Len(b.value)
   /\ \A j \in 1..Len(a.value) : b.value[j] = PadAxis(a.value[j], OutAxes(op)[j], 1, q)
PadRec(op) ==
   \A a \in StructActs(op) : \A opt \in {{}, AllOpt(op)} :
      LET ins == BuildInputs(op, "f32", a, 2, 2, 2, 2, opt, 0, FALSE, FALSE)
          attrsOf(h) == <<AI("hidden_size", h)>> \o ActAttr(op, a)
          plan == PadPlan(op)
          used == SelectSeq(plan, LAMBDA e : e.pos <= Len(ins) /\ ~IsNil(ins[e.pos]))
          c == CaseOf("pad", op, attrsOf(2), ins, NOut(op), <<op, "zero_padding_law">> \o OptFeat(opt)) IN
      (c.emit /\ PadLawAt(op, attrsOf, ins, 2, 1, 1) /\ PadLawAt(op, attrsOf, ins, 2, 0, 2)) =>
         P(c @@ [pad |-> [ins |-> [k \in 1..Len(used) |-> [pos |-> used[k].pos - 1, axis |-> used[k].axis, blocks |-> used[k].blocks, dim |-> used[k].dim]],
                          outs |-> [j \in 1..NOut(op) |-> [axis |-> OutAxes(op)[j]]], attr |-> "hidden_size"]])
EmitInvalid == st.phase = "invalid" /\ Invalid(st.p.op) /\ TileRec(st.p.op) /\ PadRec(st.p.op) /\ st' = [st EXCEPT !.phase = "done"]

Next == Build \/ Step \/ Emit \/ EmitInvalid
Spec == Init /\ [][Next]_st

\* processing a sequence in two pieces while feeding the final state of the first into the second takes, step for step,
\* the same transitions as processing it whole (the cell depends only on the current input and on (H, C))
SplitLaw == st.lawok
=============================================================================
