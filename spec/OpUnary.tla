------------------------------- MODULE OpUnary -------------------------------
(***************************************************************************)
(* Unary math and activation operators (C10).                              *)
(*  - Abs, Relu, PRelu, Not: exact semantics on the record value domain    *)
(*  - the 13 transcendental operators (Sin .. Atanh, Sigmoid, Tanh): the   *)
(*    reference table RefTables.tla (correctly rounded float32 values on a *)
(*    grid, as ordinals), the tolerance Ulp(fn), and the laws the table    *)
(*    itself satisfies (parity, monotonicity, range) checked by TLC.       *)
(***************************************************************************)
EXTENDS Attrs, RefTables

\* ---------------------------------------------------------------- exact ops
IsNegI(x, signed) == signed /\ ILess(x, Fin(0), TRUE)
AbsElem(dt, x) == IF dt \in FloatTypes THEN FAbs(x) ELSE IF IsNegI(x, dt \in SIntTypes) THEN INeg(x) ELSE x
ReluElem(x) == IF IsNaN(x) THEN NaN ELSE IF FLess(Fin(0), x) THEN x ELSE Fin(0)
PReluElem(dt, x, s) ==
   IF dt \in FloatTypes THEN (IF FLess(x, Fin(0)) THEN FMul(s, x) ELSE x)
   ELSE IF IsNegI(x, dt \in SIntTypes) THEN IMul(s, x) ELSE x
PReluDefined(dt, x, s) == dt \notin FloatTypes \/ ~FLess(x, Fin(0)) \/ FMulDefined(s, x)

MapT(X, odt, F(_)) == T(odt, X.shape, [k \in 1..Len(X.data) |-> F(X.data[k])])
SemAbs(X) == Weaken(X.dt \notin {"f32", "f64", "i32", "i64"}, MustValue(<<MapT(X, X.dt, LAMBDA v : AbsElem(X.dt, v))>>))
SemRelu(X) == MustValue(<<MapT(X, X.dt, ReluElem)>>)
SemNot(X) == MustValue(<<MapT(X, "bool", LAMBDA v : ~v)>>)
SemPRelu(X, S) ==
   IF X.dt # S.dt THEN MustError
   ELSE IF ~UCompat(X.shape, S.shape) THEN MustError
   \* (the operator's gate accepts float32/64, int32/64 and uint32/64: "all accepted element types" are computed)
   ELSE Weaken(X.dt \notin {"f32", "f64", "i32", "i64", "u32", "u64"},
               MustValue(<<Mk(X.dt, X.shape, LAMBDA idx : PReluElem(X.dt, At(X, idx), At(S, BIndex(idx, S.shape))))>>))

\* ------------------------------------------------------- table-based operators
\* allowed distance, in float32 ulps, between the operator's result and the correctly rounded value
\* (kernels evaluate in float64 and round, or - Sigmoid, Tanh - in float32 arithmetic)
GridLen(fn) == Len(Ref(fn))
\* float32 Sigmoid = 1/(1+exp(-x)) evaluates exp in float32 with an argument-reduction error that grows like |x| ulps,
\* so its tolerance for a tensor is 4 + 2 * (largest ceil|x| in it, capped at 128 where exp saturates)
Ulp(fn) == CASE fn = "Sigmoid" -> 4 [] fn = "Tanh" -> 4 [] OTHER -> 1
RECURSIVE MaxMag(_, _, _, _)
MaxMag(fn, off, n, k) == IF k > n THEN 0 ELSE LET m == Ref(fn)[((k + off - 1) % GridLen(fn)) + 1][3] r == MaxMag(fn, off, n, k + 1) IN IF m > r THEN m ELSE r
UlpOf(fn, off, n) == IF fn = "Sigmoid" THEN 4 + 2 * MaxMag(fn, off, n, 1) ELSE Ulp(fn)
Ord(o) == [c |-> "ord", n |-> o, d |-> 1]
OrdOrNaN(y) == IF y = OrdNaN THEN NaN ELSE Ord(y)
\* tensor of `shape` filled with consecutive grid arguments starting at offset off, and its reference image
GridX(fn, dt, shape, off) == T(dt, shape, [k \in 1..Size(shape) |-> Ord(Ref(fn)[((k + off - 1) % GridLen(fn)) + 1][1])])
GridY(fn, dt, shape, off) == T(dt, shape, [k \in 1..Size(shape) |-> OrdOrNaN(Ref(fn)[((k + off - 1) % GridLen(fn)) + 1][2])])

\* laws of the reference table (design level): parity on the ordinals, monotonicity on the sorted grid, range
OddFns  == {"Sin", "Tan", "Asin", "Atan", "Sinh", "Tanh", "Asinh", "Atanh"}
EvenFns == {"Cos", "Cosh"}
IncFns  == {"Atan", "Sinh", "Tanh", "Asinh", "Sigmoid", "Asin", "Atanh", "Acosh"}
Lookup(fn, x) == LET i == CHOOSE i \in 1..GridLen(fn) : Ref(fn)[i][1] = x IN Ref(fn)[i][2]
HasArg(fn, x) == \E i \in 1..GridLen(fn) : Ref(fn)[i][1] = x
NegY(y) == IF y = OrdNaN THEN OrdNaN ELSE -y
TableLaws ==
   /\ \A fn \in OddFns : \A i \in 1..GridLen(fn) :
         LET x == Ref(fn)[i][1] IN HasArg(fn, -x) => Lookup(fn, -x) = NegY(Ref(fn)[i][2])
   /\ \A fn \in EvenFns : \A i \in 1..GridLen(fn) :
         LET x == Ref(fn)[i][1] IN HasArg(fn, -x) => Lookup(fn, -x) = Ref(fn)[i][2]
   /\ \A fn \in IncFns : \A i, j \in 1..GridLen(fn) :
         (Ref(fn)[i][1] < Ref(fn)[j][1] /\ Ref(fn)[i][2] # OrdNaN /\ Ref(fn)[j][2] # OrdNaN) => Ref(fn)[i][2] <= Ref(fn)[j][2]
   /\ \A i \in 1..GridLen("Sigmoid") : Ref("Sigmoid")[i][2] >= 0 /\ Ref("Sigmoid")[i][2] <= OrdOne
   /\ \A i \in 1..GridLen("Tanh") : Ref("Tanh")[i][2] >= -OrdOne /\ Ref("Tanh")[i][2] <= OrdOne
   /\ \A i \in 1..GridLen("Cosh") : Ref("Cosh")[i][2] >= OrdOne /\ Ref("Cosh")[i][2] <= OrdPInf
   /\ Lookup("Sin", 0) = 0 /\ Lookup("Cos", 0) = OrdOne /\ Lookup("Acos", OrdOne) = 0 /\ Lookup("Acosh", OrdOne) = 0
   /\ Lookup("Atanh", OrdOne) = OrdPInf /\ Lookup("Atanh", -OrdOne) = OrdNInf /\ Lookup("Tanh", OrdPInf) = OrdOne
   /\ Lookup("Asin", 1073741824) = OrdNaN /\ Lookup("Acosh", 0) = OrdNaN /\ Lookup("Sin", OrdPInf) = OrdNaN
=============================================================================
