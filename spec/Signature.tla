------------------------------ MODULE Signature ------------------------------
(***************************************************************************)
(* Declared graph inputs and the acceptance predicate of Run (C13).        *)
(* A declared input is [name, dims] with each dim                          *)
(*   [kind |-> "fixed", size |-> n]  a fixed extent n >= 1                 *)
(*   [kind |-> "sym",   size |-> 0]  a symbolic (named) extent             *)
(*   [kind |-> "none",  size |-> 0]  an unspecified extent                 *)
(* Run accepts a set of supplied tensors iff every declared input that is  *)
(* not an initializer is supplied with equal rank and equal fixed extents. *)
(***************************************************************************)
EXTENDS Attrs, TLC

DFix(n) == [kind |-> "fixed", size |-> n]
DSym    == [kind |-> "sym", size |-> 0]
DNone   == [kind |-> "none", size |-> 0]
\* two more encodings of an unspecified dimension that exporters write: an explicit dim_value of 0, and a dim_param that is ""
DZero   == [kind |-> "zero", size |-> 0]
DSymEmpty == [kind |-> "symempty", size |-> 0]
\* a dimension may carry an ONNX denotation (DATA_BATCH, DATA_CHANNEL, ...): a comment on its meaning, not a part of the signature
Denoted(d, den) == d @@ [den |-> den]
IsDynamic(d) == d.kind # "fixed"

ShapeOK(dims, shape) ==
   /\ Len(dims) = Len(shape)
   /\ \A i \in 1..Len(dims) : dims[i].kind = "fixed" => dims[i].size = shape[i]
\* decl: sequence of declared inputs; initNames: set of initializer names; supplied: function name -> shape
Missing(decl, initNames, supplied) ==
   {i \in 1..Len(decl) : decl[i].name \notin initNames /\ decl[i].name \notin DOMAIN supplied}
Mismatched(decl, initNames, supplied) ==
   {i \in 1..Len(decl) : decl[i].name \notin initNames /\ decl[i].name \in DOMAIN supplied /\ ~ShapeOK(decl[i].dims, supplied[decl[i].name])}
Accept(decl, initNames, supplied) == Missing(decl, initNames, supplied) = {} /\ Mismatched(decl, initNames, supplied) = {}
\* error classes Run may report for a rejected call: any offending input may be the one reported (the code ranges over a map)
RejectClasses(decl, initNames, supplied) ==
   (IF Missing(decl, initNames, supplied) # {} THEN {"Model"} ELSE {}) \cup
   (IF Mismatched(decl, initNames, supplied) # {} THEN {"InvalidShape"} ELSE {})

\* introspection: what InputNames / InputShapes / InputDimSize report
InputNames(decl) == [i \in 1..Len(decl) |-> decl[i].name]
InputDimSize(decl, name, i) ==       \* i: 0-based axis; result [ok, size]
   IF \A k \in 1..Len(decl) : decl[k].name # name THEN [ok |-> FALSE, size |-> 0]
   ELSE LET d == decl[CHOOSE k \in 1..Len(decl) : decl[k].name = name].dims IN
        IF i >= Len(d) THEN [ok |-> FALSE, size |-> 0] ELSE [ok |-> TRUE, size |-> d[i + 1].size]
=============================================================================
