SPECIFICATION Spec
CONSTANTS
  Fams = {"structure", "slots", "invalid", "split"}
  OpSet = {"RNN", "GRU", "LSTM"}
  MaxS = 3
  MaxB = 2
  MaxIn = 2
  MaxH = 2
INVARIANT SplitLaw
CHECK_DEADLOCK FALSE
