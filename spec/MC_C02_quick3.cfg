SPECIFICATION MCSpec
CONSTANTS
  RunIds = {1}
  Semantics = "pure"
  ModelSet = {"conv_bias_init", "gru_state_init", "rnn_state_init", "argmax_reduce", "expand_concat_add", "const_scaler_gemm", "prelu_slopes", "gemm_row_bias", "matmul_vector_weight", "logic_ops"}
  Rich = TRUE
  MaxCalls = 3
INVARIANTS HistoryIndependent OutputsComplete
PROPERTY WeightsAndCallerTensorsImmutable
CHECK_DEADLOCK FALSE
