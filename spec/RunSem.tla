-------------------------------- MODULE RunSem --------------------------------
(***************************************************************************)
(* The functional meaning of Model.Run (the oracle of C01, C02, C13, C16): *)
(* validate the supplied inputs against the signature, then apply every    *)
(* node's operator, in list order, to the tensors named by its inputs and  *)
(* bind its results to its output names by position.                       *)
(* A graph is g = [nodes, inputs, outputs, inits];                         *)
(*   node = [op, attrs, ins, outs]; inits : name -> tensor.                *)
(***************************************************************************)
EXTENDS OpSem, Signature

RECURSIVE SeqOfSet(_)
SeqOfSet(S) == IF S = {} THEN <<>> ELSE LET x == CHOOSE x \in S : TRUE IN <<x>> \o SeqOfSet(S \ {x})

\* env : name -> tensor (values).  The property semantics: a caller-supplied value wins over an initializer of the same name.
Env0(g, ins) == [n \in (DOMAIN g.inits) \cup (DOMAIN ins) |-> IF n \in DOMAIN ins THEN ins[n] ELSE g.inits[n]]
\* (an empty name is "this optional input is absent" whatever the environment holds - a stray entry "" in the caller's feed, an
\* initializer without a name: the harness repeats the first call of every model case that skips an input with both)
GatherVals(env, names) == [i \in 1..Len(names) |-> IF names[i] = "" THEN Nil ELSE env[names[i]]]
Known_(env, names) == \A i \in 1..Len(names) : names[i] = "" \/ names[i] \in DOMAIN env
BindVals(env, names, vals) ==
   LET real == {i \in 1..Len(names) : names[i] # ""} IN
   [n \in (DOMAIN env) \cup {names[i] : i \in real} |->
      IF \E i \in real : names[i] = n THEN vals[CHOOSE i \in real : names[i] = n /\ \A j \in real : names[j] = n => j <= i] ELSE env[n]]
\* (Let forces one evaluation of its first argument: TLC would otherwise re-evaluate the lazily passed graph / environment
\*  expressions at every tensor element access further down)
RECURSIVE RunNodes(_, _, _)
RunNodes(g, env, k) ==          \* -> [ok, err, env]; err = "Indefinite" when an operator outcome is not fixed by the properties
   IF k > Len(g.nodes) THEN [ok |-> TRUE, err |-> "", env |-> env]
   ELSE Let(g.nodes[k], LAMBDA n :
        IF n.op \notin SupportedOps THEN [ok |-> FALSE, err |-> "UnsupportedOperator", env |-> env]
        ELSE IF ~Known_(env, n.ins) THEN [ok |-> FALSE, err |-> "Model", env |-> env]
        ELSE Let(GatherVals(env, n.ins), LAMBDA gathered :
             Let(NodeSem(n.op, n.attrs, gathered, Len(n.outs)), LAMBDA a :
                IF a.must = "error" THEN [ok |-> FALSE, err |-> "Operator", env |-> env]
                ELSE IF a.must # "value" THEN [ok |-> FALSE, err |-> "Indefinite", env |-> env]
                ELSE IF Len(n.outs) > Len(a.value) THEN [ok |-> FALSE, err |-> "Model", env |-> env]
                ELSE Let(BindVals(env, n.outs, a.value), LAMBDA e2 : RunNodes(g, e2, k + 1)))))
\* shapes of the supplied tensors
ShapesOf_(ins) == [n \in DOMAIN ins |-> ins[n].shape]
\* a name the caller maps to no tensor (nil) is a name the caller did not supply
SuppliedTensors(ins0) == [n \in {m \in DOMAIN ins0 : ~IsNil(ins0[m])} |-> ins0[n]]
RunSemV(g, ins) ==
   IF ~Accept(g.inputs, DOMAIN g.inits, ShapesOf_(ins))
   THEN [ok |-> FALSE, errc |-> RejectClasses(g.inputs, DOMAIN g.inits, ShapesOf_(ins)), out |-> <<>>]
   ELSE Let(RunNodes(g, Env0(g, ins), 1), LAMBDA r :
        IF ~r.ok THEN [ok |-> FALSE, errc |-> {r.err}, out |-> <<>>]
        ELSE IF \E i \in 1..Len(g.outputs) : g.outputs[i] \notin DOMAIN r.env THEN [ok |-> FALSE, errc |-> {"Model"}, out |-> <<>>]
        ELSE [ok |-> TRUE, errc |-> {}, out |-> [i \in 1..Len(g.outputs) |-> r.env[g.outputs[i]]]])
\* -> [ok, errc (set of acceptable classes), out (seq of tensors, in the order of g.outputs)]
RunSem(g0, ins0) == Let(g0, LAMBDA g : Let(SuppliedTensors(ins0), LAMBDA ins : RunSemV(g, ins)))
=============================================================================
