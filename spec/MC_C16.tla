------------------------------- MODULE MC_C16 -------------------------------
(***************************************************************************)
(* C16: samples in a batch do not influence one another.  For models whose *)
(* operators act per sample along a batch axis the specification itself    *)
(* satisfies BatchIndependent (checked by TLC as an invariant):            *)
(*    RunSem(model, Stack(xs))[i] = RunSem(model, <<xs[i]>>)               *)
(* and every batch composition (sub-selections, permutations, repeats,     *)
(* batch sizes 1..MaxBatch) is run on the real code as a history on one    *)
(* model: the batch, then each of its samples alone.                       *)
(***************************************************************************)
EXTENDS RunSem, Json
CONSTANTS ModelSet, MaxBatch
VARIABLES st
P(c) == PrintT(<<"CASE", ToJson(c)>>)
Nd(op, attrs, ins, outs) == [op |-> op, attrs |-> attrs, ins |-> ins, outs |-> outs]
InD(name, dims) == [name |-> name, dt |-> "f32", dims |-> dims]
RW(G, Hd, width, salt) == T("f32", <<1, G * Hd, width>>, [n \in 1..(G * Hd * width) |-> ((n * 5 + salt) % 3) - 1])
RB(G, Hd, salt) == T("f32", <<1, 2 * G * Hd>>, [n \in 1..(2 * G * Hd) |-> ((n * 2 + salt) % 3) - 1])
ReluActs(n) == ASs("activations", [i \in 1..n |-> "relu"])

\* model: graph + batch axis of the input (0-based) + per-sample shape (without the batch axis) + batch axis of every output
Models ==
  [ gemm_relu |-> [g |-> [nodes |-> <<Nd("Gemm", <<AF("alpha", Fin(2))>>, <<"x", "w", "c">>, <<"t">>), Nd("Relu", <<>>, <<"t">>, <<"y">>)>>,
                          inputs |-> <<InD("x", <<DSym, DFix(3)>>)>>, outputs |-> <<"t", "y">>,
                          inits |-> [w |-> T("f32", <<3, 2>>, <<1, -2, 0, 3, -1, 1>>), c |-> T("f32", <<2>>, <<5, -5>>)]],
                   axis |-> 0, sample |-> <<3>>, oaxes |-> <<0, 0>>],
    \* beta scales the bias: 2*x*w + 0.5*c for every sample, whatever the other samples of the call hold
    gemm_beta |-> [g |-> [nodes |-> <<Nd("Gemm", <<AF("alpha", Fin(2)), AF("beta", Rat(1, 2))>>, <<"x", "w", "c">>, <<"t">>), Nd("Relu", <<>>, <<"t">>, <<"y">>)>>,
                          inputs |-> <<InD("x", <<DSym, DFix(3)>>)>>, outputs |-> <<"t", "y">>,
                          inits |-> [w |-> T("f32", <<3, 2>>, <<1, -2, 0, 3, -1, 1>>), c |-> T("f32", <<2>>, <<8, -12>>)]],
                   axis |-> 0, sample |-> <<3>>, oaxes |-> <<0, 0>>],
    matmul_add |-> [g |-> [nodes |-> <<Nd("MatMul", <<>>, <<"x", "w">>, <<"t">>), Nd("Add", <<>>, <<"t", "v">>, <<"y">>), Nd("Abs", <<>>, <<"y">>, <<"z">>)>>,
                           inputs |-> <<InD("x", <<DSym, DFix(3)>>)>>, outputs |-> <<"y", "z">>,
                           inits |-> [w |-> T("f32", <<3, 2>>, <<2, 1, -1, 0, 1, -3>>), v |-> T("f32", <<2>>, <<1, -7>>)]],
                    axis |-> 0, sample |-> <<3>>, oaxes |-> <<0, 0>>],
    conv_flatten |-> [g |-> [nodes |-> <<Nd("Conv", <<AIs("pads", <<1, 0>>)>>, <<"x", "w", "b">>, <<"t">>), Nd("Flatten", <<AI("axis", 1)>>, <<"t">>, <<"y">>)>>,
                             inputs |-> <<InD("x", <<DSym, DFix(1), DFix(3)>>)>>, outputs |-> <<"t", "y">>,
                             inits |-> [w |-> T("f32", <<2, 1, 2>>, <<1, -1, 2, 3>>), b |-> T("f32", <<2>>, <<10, 20>>)]],
                      axis |-> 0, sample |-> <<1, 3>>, oaxes |-> <<0, 0>>],
    \* auto_pad with a stride: the padding is a function of the spatial extents only, never of the batch or channel extents
    conv_same_stride |-> [g |-> [nodes |-> <<Nd("Conv", <<AS("auto_pad", "SAME_UPPER"), AIs("strides", <<2>>)>>, <<"x", "w", "b">>, <<"y">>),
                                              Nd("Conv", <<AS("auto_pad", "SAME_LOWER"), AIs("strides", <<3>>)>>, <<"x", "w">>, <<"z">>)>>,
                             inputs |-> <<InD("x", <<DSym, DFix(1), DFix(6)>>)>>, outputs |-> <<"y", "z">>,
                             inits |-> [w |-> T("f32", <<2, 1, 3>>, <<1, -1, 2, 3, 0, -2>>), b |-> T("f32", <<2>>, <<10, 20>>)]],
                      axis |-> 0, sample |-> <<1, 6>>, oaxes |-> <<0, 0>>],
    conv2d_same_stride |-> [g |-> [nodes |-> <<Nd("Conv", <<AS("auto_pad", "SAME_UPPER"), AIs("strides", <<2, 3>>)>>, <<"x", "w">>, <<"y">>)>>,
                             inputs |-> <<InD("x", <<DSym, DFix(2), DFix(4), DFix(5)>>)>>, outputs |-> <<"y">>,
                             inits |-> [w |-> T("f32", <<1, 2, 3, 2>>, <<1, -1, 2, 3, 0, -2, 1, 1, -1, 2, 0, 1>>)]],
                      axis |-> 0, sample |-> <<2, 4, 5>>, oaxes |-> <<0>>],
    \* plain weights on the LEFT of a batched operand (and a batched operand times plain weights)
    matmul_left_weights |-> [g |-> [nodes |-> <<Nd("MatMul", <<>>, <<"wl", "x">>, <<"y">>), Nd("MatMul", <<>>, <<"x", "wr">>, <<"z">>)>>,
                             inputs |-> <<InD("x", <<DSym, DFix(3), DFix(2)>>)>>, outputs |-> <<"y", "z">>,
                             inits |-> [wl |-> T("f32", <<4, 3>>, <<1, -1, 2, 0, 3, 1, -2, 1, 0, 1, 1, -1>>), wr |-> T("f32", <<2, 2>>, <<1, 2, -1, 3>>)]],
                      axis |-> 0, sample |-> <<3, 2>>, oaxes |-> <<0, 0>>],
    \* default beta, (1, M) bias: nothing is stretched for a batch of one
    gemm_row_bias |-> [g |-> [nodes |-> <<Nd("Gemm", <<>>, <<"x", "w", "c">>, <<"t">>), Nd("Relu", <<>>, <<"t">>, <<"y">>)>>,
                          inputs |-> <<InD("x", <<DSym, DFix(3)>>)>>, outputs |-> <<"t", "y">>,
                          inits |-> [w |-> T("f32", <<3, 2>>, <<1, -2, 0, 3, -1, 1>>), c |-> T("f32", <<1, 2>>, <<5, -5>>)]],
                   axis |-> 0, sample |-> <<3>>, oaxes |-> <<0, 0>>],
    reshapes |-> [g |-> [nodes |-> <<Nd("Transpose", <<AIs("perm", <<0, 2, 1>>)>>, <<"x">>, <<"t">>), Nd("Squeeze", <<>>, <<"t", "ax">>, <<"s">>),
                                      Nd("Unsqueeze", <<>>, <<"s", "ax2">>, <<"u">>)>>,
                         inputs |-> <<InD("x", <<DSym, DFix(1), DFix(3)>>)>>, outputs |-> <<"t", "s", "u">>,
                         inits |-> [ax |-> T("i64", <<1>>, <<2>>), ax2 |-> T("i64", <<1>>, <<-1>>)]],
                  axis |-> 0, sample |-> <<1, 3>>, oaxes |-> <<0, 0, 0>>],
    gru |-> [g |-> [nodes |-> <<Nd("GRU", <<AI("hidden_size", 2), ReluActs(2)>>, <<"x", "w", "r", "bb">>, <<"Y", "Yh">>)>>,
                    inputs |-> <<InD("x", <<DFix(2), DSym, DFix(2)>>)>>, outputs |-> <<"Y", "Yh">>,
                    inits |-> [w |-> RW(3, 2, 2, 0), r |-> RW(3, 2, 2, 1), bb |-> RB(3, 2, 2)]],
             axis |-> 1, sample |-> <<2, 2>>, oaxes |-> <<2, 1>>],
    lstm |-> [g |-> [nodes |-> <<Nd("LSTM", <<AI("hidden_size", 2), ReluActs(3)>>, <<"x", "w", "r", "bb">>, <<"Y", "Yh", "Yc">>)>>,
                     inputs |-> <<InD("x", <<DFix(2), DSym, DFix(2)>>)>>, outputs |-> <<"Y", "Yh", "Yc">>,
                     inits |-> [w |-> RW(4, 2, 2, 2), r |-> RW(4, 2, 2, 0), bb |-> RB(4, 2, 1)]],
              axis |-> 1, sample |-> <<2, 2>>, oaxes |-> <<2, 1, 1>>],
    \* peephole weights are per hidden unit and shared by all samples of the batch
    lstm_peephole |-> [g |-> [nodes |-> <<Nd("LSTM", <<AI("hidden_size", 2), ReluActs(3)>>, <<"x", "w", "r", "bb", "", "", "", "p">>, <<"Y", "Yh", "Yc">>)>>,
                     inputs |-> <<InD("x", <<DFix(2), DSym, DFix(2)>>)>>, outputs |-> <<"Y", "Yh", "Yc">>,
                     inits |-> [w |-> RW(4, 2, 2, 2), r |-> RW(4, 2, 2, 0), bb |-> RB(4, 2, 1), p |-> T("f32", <<1, 6>>, <<1, -1, 2, 0, -2, 1>>)]],
              axis |-> 1, sample |-> <<2, 2>>, oaxes |-> <<2, 1, 1>>],
    gru_lbr |-> [g |-> [nodes |-> <<Nd("GRU", <<AI("hidden_size", 2), AI("linear_before_reset", 1), ReluActs(2)>>, <<"x", "w", "r", "bb">>, <<"Y", "Yh">>)>>,
                    inputs |-> <<InD("x", <<DFix(2), DSym, DFix(2)>>)>>, outputs |-> <<"Y", "Yh">>,
                    inits |-> [w |-> RW(3, 2, 2, 1), r |-> RW(3, 2, 2, 2), bb |-> RB(3, 2, 0)]],
             axis |-> 1, sample |-> <<2, 2>>, oaxes |-> <<2, 1>>],
    rnn |-> [g |-> [nodes |-> <<Nd("RNN", <<AI("hidden_size", 2), ReluActs(1)>>, <<"x", "w", "r">>, <<"Y", "Yh">>)>>,
                    inputs |-> <<InD("x", <<DFix(2), DSym, DFix(2)>>)>>, outputs |-> <<"Y", "Yh">>,
                    inits |-> [w |-> RW(1, 2, 2, 1), r |-> RW(1, 2, 2, 2)]],
             axis |-> 1, sample |-> <<2, 2>>, oaxes |-> <<2, 1>>] ]

\* sample pool: PoolSize distinct samples (as flat data of the per-sample shape)
PoolSize == 3
\* (sample 0 is the all-zero sample - padding, a dead activation vector: alone, among its like, and beside the others)
SampleData(m, s) == [k \in 1..Size(Models[m].sample) |-> IF s = 0 THEN 0 ELSE ((k * 3 + s * 5) % 7) - 3]
\* stack samples along the batch axis: shape = sample with the batch extent inserted at `axis`
StackShape(m, n) == LET sh == Models[m].sample a == Models[m].axis IN Take(sh, a) \o <<n>> \o Drop(sh, a)
Stack(m, ss) ==
   LET sh == Models[m].sample a == Models[m].axis shape == StackShape(m, Len(ss))
   IN Mk("f32", shape, LAMBDA idx : SampleData(m, ss[idx[a + 1] + 1])[Ravel(Take(idx, a) \o Drop(idx, a + 1), sh) + 1])
\* row i (0-based) of tensor t along axis a, keeping the axis with extent 1
RowOf(t, a, i) == Mk(t.dt, [t.shape EXCEPT ![a + 1] = 1], LAMBDA idx : At(t, [idx EXCEPT ![a + 1] = i]))

Batches == UNION {[1..n -> 1..PoolSize] : n \in 1..MaxBatch} \cup {b \in UNION {[1..n -> 0..PoolSize] : n \in 1..3} : \E i \in DOMAIN b : b[i] = 0}
Out(m, ss) == RunSem(Models[m].g, [x |-> Stack(m, ss)])
InitsSeq(g) == LET names == SeqOfSet(DOMAIN g.inits) IN [k \in 1..Len(names) |-> [name |-> names[k], t |-> g.inits[names[k]]]]
CallJ(m, ss) == LET s == Out(m, ss) IN
   [ins |-> [x |-> Stack(m, ss)], reuse |-> <<>>, allowed |-> IF s.ok THEN MustValue(s.out) ELSE NoCrash]

Init == st \in [m : ModelSet, ss : Batches, done : {FALSE}]
Emit ==
   /\ ~st.done
   /\ LET g == Models[st.m].g IN
      P([prop |-> "C16", fam |-> "batch", kind |-> "model", op |-> "", attrs |-> <<>>, inputs |-> <<>>, nout |-> 0, allowed |-> NoCrash,
         cmp |-> "num", known |-> <<>>, feat |-> <<st.m, "batch" \o ToString(Len(st.ss))>> \o (IF Len(st.ss) > 1 /\ st.ss[1] = st.ss[2] THEN <<"repeated_sample">> ELSE <<>>)
                   \o (IF \E i \in DOMAIN st.ss : st.ss[i] = 0 THEN <<"zero_sample">> ELSE <<>>),
         x |-> [model |-> [nodes |-> g.nodes, inputs |-> g.inputs, outputs |-> g.outputs, inits |-> InitsSeq(g), opset |-> 13],
                \* the batch first, then each of its samples alone (on the same Model)
                calls |-> <<CallJ(st.m, st.ss)>> \o [i \in 1..Len(st.ss) |-> CallJ(st.m, <<st.ss[i]>>)],
                checks |-> <<"inputs_unchanged", "weights_unchanged", "fresh_equal">>]])
   /\ st' = [st EXCEPT !.done = TRUE]
Next == Emit
Spec == Init /\ [][Next]_st

\* the specification's own batch-independence theorem, on every generated batch
BatchIndependent ==
   LET m == st.m b == Out(m, st.ss) IN
   b.ok => \A i \in 1..Len(st.ss) :
              LET one == Out(m, <<st.ss[i]>>) IN
              one.ok /\ \A o \in 1..Len(b.out) : RowOf(b.out[o], Models[m].oaxes[o], i - 1) = one.out[o]
=============================================================================
