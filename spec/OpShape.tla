------------------------------- MODULE OpShape -------------------------------
(***************************************************************************)
(* Reshape, Flatten, Squeeze, Unsqueeze, Shape (C07).  All keep the        *)
(* row-major element sequence and the dtype; only the shape changes.       *)
(* Element convention: any (elements are never inspected).                 *)
(***************************************************************************)
EXTENDS Attrs

\* ------------------------------------------------------------------ Reshape
\* target: sequence of ints as held by the int64 shape tensor
ReshapeZeroOK(target, inShape) == \A i \in 1..Len(target) : target[i] = 0 => i <= Len(inShape)
ReshapeCopy(target, inShape) == [i \in 1..Len(target) |-> IF target[i] = 0 THEN inShape[i] ELSE target[i]]
CountOf(s, v) == Cardinality({i \in 1..Len(s) : s[i] = v})
ProdExcept(s, v) == ProdSeq([i \in 1..Len(s) |-> IF s[i] = v THEN 1 ELSE s[i]], 1)
ReshapeValid(target, inShape) ==
   /\ ReshapeZeroOK(target, inShape)
   /\ LET t == ReshapeCopy(target, inShape) IN
      /\ \A i \in 1..Len(t) : t[i] = -1 \/ t[i] >= 1
      /\ CountOf(t, -1) <= 1
      /\ IF CountOf(t, -1) = 1
         THEN Size(inShape) % ProdExcept(t, -1) = 0
         ELSE Size(t) = Size(inShape)
ReshapeShape(target, inShape) ==
   LET t == ReshapeCopy(target, inShape)
   IN [i \in 1..Len(t) |-> IF t[i] = -1 THEN Size(inShape) \div ProdExcept(t, -1) ELSE t[i]]
\* S: the shape tensor (int64); ONNX requires it to be 1-D
SemReshape(X, S) ==
   IF Len(S.shape) = 0
   THEN \* a rank-0 shape tensor is not ONNX; the library may treat it as a 1-element list or refuse it
        (IF ReshapeValid(S.data, X.shape) THEN ValueOrError(<<T(X.dt, ReshapeShape(S.data, X.shape), X.data)>>) ELSE MustError)
   ELSE IF Len(S.shape) # 1 THEN MustError
   ELSE IF ReshapeValid(S.data, X.shape)
        THEN MustValue(<<T(X.dt, ReshapeShape(S.data, X.shape), X.data)>>)
        ELSE MustError

\* ------------------------------------------------------------------ Flatten
SemFlatten(X, axis) ==
   LET r == Len(X.shape) IN
   IF axis < -r \/ axis > r THEN MustError
   ELSE LET a == NormAxis(axis, r)
            out == T(X.dt, <<Size(Take(X.shape, a)), Size(Drop(X.shape, a))>>, X.data)
        IN IF r = 0 THEN ValueOrError(<<out>>) ELSE MustValue(<<out>>)

\* ------------------------------------------------------------------ Squeeze
DropAxes(shape, axset) ==     \* axset: set of 0-based axes
   LET keep == SelectSeq([i \in 1..Len(shape) |-> i], LAMBDA i : (i - 1) \notin axset)
   IN [j \in 1..Len(keep) |-> shape[keep[j]]]
SqueezeAxesValid(shape, axes) ==
   LET r == Len(shape) IN
   /\ \A i \in 1..Len(axes) : AxisOK(axes[i], r)
   /\ Injective([i \in 1..Len(axes) |-> NormAxis(axes[i], r)])
   /\ \A i \in 1..Len(axes) : shape[NormAxis(axes[i], r) + 1] = 1
\* A: Nil or the int64 axes tensor (1-D)
SemSqueeze(X, A) ==
   IF IsNil(A)
   THEN MustValue(<<T(X.dt, DropAxes(X.shape, {i - 1 : i \in {j \in 1..Len(X.shape) : X.shape[j] = 1}}), X.data)>>)
   ELSE IF Len(A.shape) # 1 THEN MustError
   ELSE IF SqueezeAxesValid(X.shape, A.data)
        THEN MustValue(<<T(X.dt, DropAxes(X.shape, {NormAxis(A.data[i], Len(X.shape)) : i \in 1..Len(A.data)}), X.data)>>)
        ELSE MustError

\* ---------------------------------------------------------------- Unsqueeze
UnsqueezeValid(shape, axes) ==
   LET R == Len(shape) + Len(axes) IN
   /\ \A i \in 1..Len(axes) : AxisOK(axes[i], R)
   /\ Injective([i \in 1..Len(axes) |-> NormAxis(axes[i], R)])
UnsqueezeShape(shape, axes) ==
   LET R == Len(shape) + Len(axes)
       ones == {NormAxis(axes[i], R) : i \in 1..Len(axes)}
       \* number of non-inserted positions strictly before output position p (0-based)
       Before(p) == Cardinality({q \in 0..(p - 1) : q \notin ones})
   IN [p \in 1..R |-> IF (p - 1) \in ones THEN 1 ELSE shape[Before(p - 1) + 1]]
SemUnsqueeze(X, A) ==
   IF Len(A.shape) # 1 THEN MustError
   ELSE IF UnsqueezeValid(X.shape, A.data)
        THEN MustValue(<<T(X.dt, UnsqueezeShape(X.shape, A.data), X.data)>>)
        ELSE MustError

\* -------------------------------------------------------------------- Shape
SemShape(X) == MustValue(<<T("i64", <<Len(X.shape)>>, X.shape)>>)
=============================================================================
