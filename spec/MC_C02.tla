------------------------------- MODULE MC_C02 -------------------------------
(***************************************************************************)
(* C02: histories of Run calls on ONE loaded model, explored on the Interp *)
(* state machine with its object heap: a call may use fresh tensors,       *)
(* another batch size, re-use the very tensor OBJECT of an earlier call,   *)
(* take an output object of an earlier call as input, or be a failing call *)
(* (wrong rank, missing input, an operator error in the middle).           *)
(* TLC checks the Interp invariants in every state and prints every        *)
(* history of MaxCalls calls; with Semantics = "asis" it exhibits the      *)
(* histories that break them.                                              *)
(***************************************************************************)
EXTENDS Interp, Json
CONSTANTS ModelSet, MaxCalls, Rich
VARIABLES mid, fresh,      \* which model of the family; the tensors created since the last call (the next call passes them all)
          touched,         \* the caller tensor refilled since the last call (0: none): the next call passes it
          stale            \* results of calls that read a buffer refilled since: the code may hand an operand back as a result (Concat of
                           \* one tensor does), the model's results are always new objects, so these are not fed back
P(c) == PrintT(<<"CASE", ToJson(c)>>)
allvars == <<vars, mid, fresh, touched, stale>>

Nd(op, attrs, ins, outs) == [op |-> op, attrs |-> attrs, ins |-> ins, outs |-> outs]
InD(name, dims) == [name |-> name, dt |-> "f32", dims |-> dims]
RW(G, Hd, width, salt) == T("f32", <<1, G * Hd, width>>, [n \in 1..(G * Hd * width) |-> ((n * 5 + salt) % 3) - 1])
RB(G, Hd, salt) == T("f32", <<1, 2 * G * Hd>>, [n \in 1..(2 * G * Hd) |-> ((n * 2 + salt) % 3) - 1])
ReluActs(n) == ASs("activations", [i \in 1..n |-> "relu"])

\* ---- the model family: operators that consume a weight or a caller tensor as bias / initial state / reduction operand
Models ==
  [ conv_bias_init |->
      [nodes |-> <<Nd("Conv", <<>>, <<"x", "w", "b">>, <<"y">>)>>, inputs |-> <<InD("x", <<DSym, DFix(1), DFix(3)>>)>>, outputs |-> <<"y">>,
       inits |-> [w |-> T("f32", <<2, 1, 2>>, <<1, -1, 2, 3>>), b |-> T("f32", <<2>>, <<10, 20>>)]],
    conv_bias_caller |->
      [nodes |-> <<Nd("Conv", <<>>, <<"x", "w", "b">>, <<"y">>)>>, inputs |-> <<InD("x", <<DSym, DFix(1), DFix(3)>>), InD("b", <<DFix(2)>>)>>, outputs |-> <<"y">>,
       inits |-> [w |-> T("f32", <<2, 1, 2>>, <<1, -1, 2, 3>>)]],
    gru_state_init |->
      [nodes |-> <<Nd("GRU", <<AI("hidden_size", 2), ReluActs(2)>>, <<"x", "w", "r", "bb", "", "h0">>, <<"Y", "Yh">>)>>,
       inputs |-> <<InD("x", <<DSym, DFix(1), DFix(2)>>)>>, outputs |-> <<"Y", "Yh">>,
       inits |-> [w |-> RW(3, 2, 2, 0), r |-> RW(3, 2, 2, 1), bb |-> RB(3, 2, 2), h0 |-> T("f32", <<1, 1, 2>>, <<1, 2>>)]],
    gru_state_caller |->
      [nodes |-> <<Nd("GRU", <<AI("hidden_size", 2), ReluActs(2)>>, <<"x", "w", "r", "", "", "h0">>, <<"Y", "Yh">>)>>,
       inputs |-> <<InD("x", <<DSym, DFix(1), DFix(2)>>), InD("h0", <<DFix(1), DFix(1), DFix(2)>>)>>, outputs |-> <<"Y", "Yh">>,
       inits |-> [w |-> RW(3, 2, 2, 0), r |-> RW(3, 2, 2, 1)]],
    lstm_state_caller |->
      [nodes |-> <<Nd("LSTM", <<AI("hidden_size", 2), ReluActs(3)>>, <<"x", "w", "r", "bb", "", "h0", "c0">>, <<"Y", "Yh", "Yc">>)>>,
       inputs |-> <<InD("x", <<DSym, DFix(1), DFix(2)>>), InD("h0", <<DFix(1), DFix(1), DFix(2)>>)>>, outputs |-> <<"Y", "Yh", "Yc">>,
       inits |-> [w |-> RW(4, 2, 2, 2), r |-> RW(4, 2, 2, 0), bb |-> RB(4, 2, 1), c0 |-> T("f32", <<1, 1, 2>>, <<0, 1>>)]],
    rnn_state_init |->
      [nodes |-> <<Nd("RNN", <<AI("hidden_size", 2), ReluActs(1)>>, <<"x", "w", "r", "", "", "h0">>, <<"Y", "Yh">>)>>,
       inputs |-> <<InD("x", <<DSym, DFix(1), DFix(2)>>)>>, outputs |-> <<"Y", "Yh">>,
       inits |-> [w |-> RW(1, 2, 2, 1), r |-> RW(1, 2, 2, 2), h0 |-> T("f32", <<1, 1, 2>>, <<2, 0>>)]],
    argmax_reduce |->
      [nodes |-> <<Nd("ArgMax", <<AI("axis", 1), AI("keepdims", 1)>>, <<"x">>, <<"i">>), Nd("ReduceMax", <<AIs("axes", <<1>>), AI("keepdims", 1)>>, <<"x">>, <<"m">>),
                   Nd("ReduceMin", <<AI("keepdims", 0)>>, <<"x">>, <<"n">>)>>,
       inputs |-> <<InD("x", <<DSym, DFix(3)>>)>>, outputs |-> <<"i", "m", "n">>, inits |-> <<>>],
    expand_concat_add |->
      [nodes |-> <<Nd("Expand", <<>>, <<"x", "shp">>, <<"e">>), Nd("Concat", <<AI("axis", 0)>>, <<"x">>, <<"c">>), Nd("Add", <<>>, <<"c", "v">>, <<"s">>)>>,
       inputs |-> <<InD("x", <<DSym, DFix(3)>>)>>, outputs |-> <<"e", "c", "s">>,
       inits |-> [shp |-> T("i64", <<3>>, <<2, 1, 3>>), v |-> T("f32", <<3>>, <<100, 200, 300>>)]],
    \* a convolution with ONE output position per channel: for batch 1 the output has exactly the broadcast bias's shape
    conv_point_init |->
      [nodes |-> <<Nd("Conv", <<>>, <<"x", "w", "b">>, <<"y">>), Nd("Conv", <<>>, <<"x2", "w2", "b">>, <<"y2">>)>>,
       inputs |-> <<InD("x", <<DSym, DFix(1), DFix(2)>>), InD("x2", <<DSym, DFix(1), DFix(2), DFix(2)>>)>>, outputs |-> <<"y", "y2">>,
       inits |-> [w |-> T("f32", <<2, 1, 2>>, <<1, -1, 2, 3>>), w2 |-> T("f32", <<2, 1, 2, 2>>, <<1, -1, 2, 3, 0, 1, -2, 1>>), b |-> T("f32", <<2>>, <<10, 20>>)]],
    \* Gemm with alpha, beta # 1 and a C weight that needs no broadcasting for batch 1; MatMul on a weight
    gemm_scaled_init |->
      [nodes |-> <<Nd("Gemm", <<AF("alpha", Fin(2)), AF("beta", Fin(3))>>, <<"x", "w", "c3">>, <<"g1">>),
                   Nd("Gemm", <<AF("alpha", Fin(2)), AF("beta", Fin(3))>>, <<"x", "w", "c13">>, <<"g2">>),
                   Nd("Gemm", <<AF("alpha", Fin(-1)), AF("beta", Fin(2)), AI("transA", 1)>>, <<"w", "w", "w">>, <<"g3">>),
                   Nd("MatMul", <<>>, <<"x", "w">>, <<"mm">>)>>,
       inputs |-> <<InD("x", <<DSym, DFix(3)>>)>>, outputs |-> <<"g1", "g2", "g3", "mm">>,
       inits |-> [w |-> T("f32", <<3, 3>>, <<1, 0, -1, 2, 1, 0, 0, 3, 1>>), c3 |-> T("f32", <<3>>, <<5, -6, 7>>), c13 |-> T("f32", <<1, 3>>, <<-1, 2, -3>>)]],
    \* elementwise operators whose weight operand has exactly the other operand's shape (no broadcast copy is needed for batch 1)
    elementwise_same_shape |->
      [nodes |-> <<Nd("Add", <<>>, <<"x", "v">>, <<"a">>), Nd("Mul", <<>>, <<"v", "x">>, <<"m">>), Nd("Sub", <<>>, <<"v", "x">>, <<"s">>),
                   Nd("Relu", <<>>, <<"v">>, <<"r">>), Nd("Abs", <<>>, <<"v">>, <<"ab">>), Nd("Add", <<>>, <<"v", "v">>, <<"vv">>),
                   Nd("Relu", <<>>, <<"x">>, <<"rx">>), Nd("Sub", <<>>, <<"x", "x">>, <<"z">>)>>,
       inputs |-> <<InD("x", <<DSym, DFix(3)>>)>>, outputs |-> <<"a", "m", "s", "r", "ab", "vv", "rx", "z">>,
       inits |-> [v |-> T("f32", <<1, 3>>, <<-1, 2, -3>>)]],
    \* shape operators may hand out views of a weight; the operators applied to those views must not write through them
    views_of_weight |->
      [nodes |-> <<Nd("Reshape", <<>>, <<"v", "shp3">>, <<"a">>), Nd("Relu", <<>>, <<"a">>, <<"ra">>),
                   Nd("Squeeze", <<>>, <<"v">>, <<"b">>), Nd("Abs", <<>>, <<"b">>, <<"ab">>),
                   Nd("Flatten", <<>>, <<"v">>, <<"c">>), Nd("Add", <<>>, <<"c", "x">>, <<"cx">>),
                   Nd("Transpose", <<>>, <<"w">>, <<"d">>), Nd("Relu", <<>>, <<"d">>, <<"rd">>),
                   Nd("Unsqueeze", <<>>, <<"v", "ax0">>, <<"u">>), Nd("Mul", <<>>, <<"u", "u">>, <<"uu">>),
                   Nd("Slice", <<>>, <<"w", "st", "en">>, <<"sl">>), Nd("Abs", <<>>, <<"sl">>, <<"asl">>),
                   Nd("Gather", <<>>, <<"w", "idx">>, <<"g">>), Nd("Relu", <<>>, <<"g">>, <<"rg">>),
                   Nd("Expand", <<>>, <<"v", "shp13">>, <<"e">>), Nd("Relu", <<>>, <<"e">>, <<"re">>),
                   Nd("Concat", <<AI("axis", 0)>>, <<"v">>, <<"cc">>), Nd("Abs", <<>>, <<"cc">>, <<"acc">>),
                   Nd("Sub", <<>>, <<"x", "a">>, <<"xa">>)>>,
       inputs |-> <<InD("x", <<DSym, DFix(3)>>)>>,
       outputs |-> <<"ra", "ab", "cx", "rd", "uu", "asl", "rg", "re", "acc", "xa", "a", "b", "d", "sl", "e">>,
       inits |-> [v |-> T("f32", <<1, 3>>, <<-1, 2, -3>>), w |-> T("f32", <<3, 2>>, <<1, -2, 3, -4, 5, -6>>), shp3 |-> T("i64", <<1>>, <<3>>),
                  ax0 |-> T("i64", <<1>>, <<0>>), st |-> T("i64", <<1>>, <<1>>), en |-> T("i64", <<1>>, <<3>>), idx |-> T("i64", <<2>>, <<2, 0>>),
                  shp13 |-> T("i64", <<2>>, <<1, 3>>)]],
    \* an input with an initializer as its default: a call that supplies it must not change what a later call without it reads
    \* operators that may hand back their operand object itself (Expand with nothing to stretch, Concat of one tensor), applied to
    \* weights, their results consumed by other nodes and NOT returned: whatever a Run does with what lived only inside it, the
    \* weights are the same weights in the next Run
    hidden_identities |->
      [nodes |-> <<Nd("Expand", <<>>, <<"w", "shp">>, <<"e">>), Nd("Concat", <<AI("axis", 0)>>, <<"w2">>, <<"c1">>),
                   Nd("Concat", <<AI("axis", 0)>>, <<"e", "x", "c1">>, <<"y">>), Nd("Add", <<>>, <<"x", "c1">>, <<"z">>)>>,
       inputs |-> <<InD("x", <<DSym, DFix(3)>>)>>, outputs |-> <<"y", "z">>,
       inits |-> [w |-> T("f32", <<2, 3>>, <<1, 2, 3, 4, 5, 6>>), w2 |-> T("f32", <<1, 3>>, <<20, 21, 22>>), shp |-> T("i64", <<2>>, <<2, 3>>)]],
    defaulted_input |->
      \* (the node producing vw reads initializers only, one of which the caller may override)
      [nodes |-> <<Nd("Add", <<>>, <<"x", "v">>, <<"a">>), Nd("Sub", <<>>, <<"v", "a">>, <<"m">>), Nd("Mul", <<>>, <<"v", "w2">>, <<"vw">>)>>,
       inputs |-> <<InD("x", <<DSym, DFix(3)>>), InD("v", <<DFix(1), DFix(3)>>)>>, outputs |-> <<"a", "m", "vw">>,
       inits |-> [v |-> T("f32", <<1, 3>>, <<10, 20, 30>>), w2 |-> T("f32", <<3>>, <<2, -1, 3>>)]],
    \* comparisons and logic: the first operand already has the output shape, the second one is stretched; the intermediate
    \* `lt` and the weight `mfull` are read again by later nodes
    logic_ops |->
      [nodes |-> <<Nd("Less", <<>>, <<"x", "v">>, <<"lt">>), Nd("And", <<>>, <<"lt", "m">>, <<"an">>), Nd("Or", <<>>, <<"lt", "m">>, <<"o">>),
                   Nd("Xor", <<>>, <<"lt", "m">>, <<"xo">>), Nd("And", <<>>, <<"mfull", "m">>, <<"wm">>), Nd("Xor", <<>>, <<"mfull", "m">>, <<"wx">>),
                   Nd("Not", <<>>, <<"lt">>, <<"nl">>), Nd("Equal", <<>>, <<"x", "v">>, <<"eq">>), Nd("Or", <<>>, <<"mfull", "lt1">>, <<"ow">>),
                   Nd("GreaterOrEqual", <<>>, <<"v", "v">>, <<"lt1">>)>>,
       inputs |-> <<InD("x", <<DSym, DFix(3)>>)>>, outputs |-> <<"lt", "an", "o", "xo", "wm", "wx", "nl", "eq">>,
       inits |-> [v |-> T("f32", <<3>>, <<1, 0, -1>>), m |-> T("bool", <<3>>, <<TRUE, FALSE, TRUE>>),
                  mfull |-> T("bool", <<2, 3>>, <<TRUE, TRUE, FALSE, FALSE, TRUE, FALSE>>)]],
    \* a vector weight: MatMul promotes it to a matrix; a Run that fails inside the MatMul (inner extents differ) is followed by good ones
    matmul_vector_weight |->
      [nodes |-> <<Nd("MatMul", <<>>, <<"x", "v">>, <<"y">>), Nd("MatMul", <<>>, <<"v", "w">>, <<"z">>), Nd("Add", <<>>, <<"v", "v">>, <<"vv">>)>>,
       inputs |-> <<InD("x", <<DSym, DSym>>)>>, outputs |-> <<"y", "z", "vv">>,
       inits |-> [v |-> T("f32", <<2>>, <<3, -1>>), w |-> T("f32", <<2, 3>>, <<1, 0, -1, 2, 1, 0>>)]],
    \* Gemm with the default beta and a (1, M) bias: for batch 1 the broadcast bias is the weight itself
    gemm_row_bias |->
      [nodes |-> <<Nd("Gemm", <<>>, <<"x", "w", "c13">>, <<"g">>), Nd("Gemm", <<AI("transB", 1)>>, <<"x", "w", "cfull">>, <<"h">>)>>,
       inputs |-> <<InD("x", <<DSym, DFix(3)>>)>>, outputs |-> <<"g", "h">>,
       inits |-> [w |-> T("f32", <<3, 3>>, <<1, 0, -1, 2, 1, 0, 0, 3, 1>>), c13 |-> T("f32", <<1, 3>>, <<-1, 2, -3>>), cfull |-> T("f32", <<1, 3>>, <<4, 5, 6>>)]],
    \* a dilated convolution whose kernel_shape is inferred from the weight
    conv_dilated_init |->
      [nodes |-> <<Nd("Conv", <<AIs("dilations", <<2>>)>>, <<"x", "w", "b">>, <<"y">>), Nd("Conv", <<AIs("dilations", <<2, 1>>), AIs("pads", <<1, 0, 1, 0>>)>>, <<"x2", "w2">>, <<"y2">>)>>,
       inputs |-> <<InD("x", <<DSym, DFix(1), DFix(5)>>), InD("x2", <<DSym, DFix(1), DFix(3), DFix(2)>>)>>, outputs |-> <<"y", "y2">>,
       inits |-> [w |-> T("f32", <<2, 1, 2>>, <<1, -1, 2, 3>>), w2 |-> T("f32", <<1, 1, 2, 2>>, <<1, -1, 2, 1>>), b |-> T("f32", <<2>>, <<10, 20>>)]],
    \* a dilated convolution whose kernel is a tensor of the caller
    conv_kernel_caller |->
      [nodes |-> <<Nd("Conv", <<AIs("dilations", <<2>>)>>, <<"x", "w">>, <<"y">>)>>,
       inputs |-> <<InD("x", <<DSym, DFix(1), DFix(4)>>), InD("w", <<DFix(2), DFix(1), DFix(2)>>)>>, outputs |-> <<"y">>, inits |-> <<>>],
    \* PRelu slopes: equal rank with an axis to stretch, exactly the shape of x for batch 1, and lower rank
    prelu_slopes |->
      [nodes |-> <<Nd("PRelu", <<>>, <<"x", "s13">>, <<"p">>), Nd("PRelu", <<>>, <<"x", "s3">>, <<"q">>), Nd("Unsqueeze", <<>>, <<"x", "ax0">>, <<"xx">>),
                   Nd("PRelu", <<>>, <<"xx", "s113">>, <<"r">>)>>,
       inputs |-> <<InD("x", <<DSym, DFix(3)>>)>>, outputs |-> <<"p", "q", "r">>,
       inits |-> [s13 |-> T("f32", <<1, 3>>, <<2, -1, 3>>), s3 |-> T("f32", <<3>>, <<-2, 0, 1>>), s113 |-> T("f32", <<1, 1, 3>>, <<1, 2, 3>>), ax0 |-> T("i64", <<1>>, <<0>>)]],
    const_scaler_gemm |->
      [nodes |-> <<Nd("Constant", <<AT("value", [dt |-> "f32", shape |-> <<3>>, data |-> <<1, 2, 3>>])>>, <<>>, <<"k">>),
                   Nd("Scaler", <<AFs("offset", <<1, 2, 3>>), AFs("scale", <<2, 2, 2>>)>>, <<"x">>, <<"sc">>),
                   Nd("Gemm", <<AI("transB", 1)>>, <<"sc", "w", "k">>, <<"g">>), Nd("Reshape", <<>>, <<"g", "shp">>, <<"f">>)>>,
       inputs |-> <<InD("x", <<DSym, DFix(3)>>)>>, outputs |-> <<"k", "sc", "g", "f">>,
       inits |-> [w |-> T("f32", <<3, 3>>, <<1, 0, -1, 2, 1, 0, 0, 3, 1>>), shp |-> T("i64", <<2>>, <<3, -1>>)]] ]

G == Models[mid]
\* ---- candidate fresh caller tensors for input `name` of the model: the declared shape with batch 1 / batch 2, and a wrong rank
XShape(g, name, batch) ==
   LET d == g.inputs[CHOOSE i \in 1..Len(g.inputs) : g.inputs[i].name = name].dims
   IN [i \in 1..Len(d) |-> IF d[i].kind = "fixed" THEN d[i].size ELSE batch]
Candidates(g, name) ==
   {Iota("f32", XShape(g, name, 1), 0), T("f32", XShape(g, name, 2), [k \in 1..Size(XShape(g, name, 2)) |-> 7 - 2 * k]),
    Iota("f32", XShape(g, name, 1) \o <<1>>, 0)}
InputNames_ == {G.inputs[i].name : i \in 1..Len(G.inputs)}

MCInit == Init /\ mid \in ModelSet /\ fresh = {} /\ touched = 0 /\ stale = {}

DoLoad == ~model.loaded /\ Load(G) /\ UNCHANGED <<mid, fresh, touched, stale>>
\* new caller tensors: one for each declared input before the first call (in declaration order), at most one before a later call
DoNew == /\ model.loaded /\ runs[1].st = "idle" /\ Len(hist) < MaxCalls
         \* (Rich = FALSE: the smaller space used for 3-call histories over all models - one new tensor per call, no refills)
         /\ Cardinality(fresh) < (IF Rich /\ hist = <<>> THEN Len(G.inputs) ELSE 1)
         /\ \E i \in 1..Len(G.inputs) : (Rich /\ hist = <<>> => i > Cardinality(fresh)) /\ \E t \in Candidates(G, G.inputs[i].name) : NewInput(t)
         /\ fresh' = fresh \cup {Len(heap) + 1} /\ UNCHANGED <<mid, touched, stale>>
\* between two calls the caller refills, in place, a tensor it passed to an earlier call (the buffer of the next inference)
Refilled(t) == [t EXCEPT !.data = [k \in 1..Len(t.data) |-> 5 - 2 * t.data[k]]]
DoRefill == /\ Rich /\ model.loaded /\ runs[1].st = "idle" /\ touched = 0 /\ Len(hist) >= 1 /\ Len(hist) < MaxCalls
            /\ \E o \in 1..Len(heap) :
                  /\ heap[o].owner = "caller" /\ (\A k \in 1..Len(heap[o].t.data) : heap[o].t.data[k] \in Int)
                  /\ (\E j \in 1..Len(hist) : \E n \in DOMAIN hist[j].ins : hist[j].ins[n] = o)
                  /\ CallerWrite(o, Refilled(heap[o].t)) /\ touched' = o
                  /\ stale' = stale \cup UNION {{hist[j].resobjs[i] : i \in 1..Len(hist[j].resobjs)} :
                                                 j \in {j \in 1..Len(hist) : \E n \in DOMAIN hist[j].ins : hist[j].ins[n] = o}}
            /\ UNCHANGED <<mid, fresh>>
\* a call: every declared input is bound to some existing object that is not a weight (or left out: a failing call)
Usable == {o \in 1..Len(heap) : heap[o].owner # "model"}
DoBegin == /\ model.loaded /\ runs[1].st = "idle" /\ Len(hist) < MaxCalls
           /\ \E S \in SUBSET InputNames_ : \E ins \in [S -> Usable \ stale] :
                 /\ (S # InputNames_ => Cardinality(S) = Cardinality(InputNames_) - 1)       \* at most one input left out
                 /\ fresh \subseteq {ins[n] : n \in S}                                       \* freshly created tensors are used by this call
                 /\ (touched # 0 => touched \in {ins[n] : n \in S})                          \* so is a refilled one
                 /\ RunBegin(1, ins)
           /\ fresh' = {} /\ touched' = 0 /\ UNCHANGED <<mid, stale>>
DoStep == NodeStep(1) /\ UNCHANGED <<mid, fresh, touched, stale>>

\* how the harness obtains the tensor object bound to input nm of call k: a new tensor, or the object of an earlier call
RefOf(h, k, nm) ==
   LET o == h[k].ins[nm]
       asIn == {j \in 1..(k - 1) : \E n2 \in DOMAIN h[j].ins : h[j].ins[n2] = o}
       asOut == {j \in 1..(k - 1) : \E i \in 1..Len(h[j].resobjs) : h[j].resobjs[i] = o}
   IN IF asIn # {} THEN LET j == CHOOSE j \in asIn : \A j2 \in asIn : j <= j2 IN
                         [call |-> j, kind |-> "in", name |-> CHOOSE n2 \in DOMAIN h[j].ins : h[j].ins[n2] = o]
      ELSE IF asOut # {} THEN LET j == CHOOSE j \in asOut : TRUE IN
                         [call |-> j, kind |-> "out", name |-> G.outputs[CHOOSE i \in 1..Len(h[j].resobjs) : h[j].resobjs[i] = o]]
      ELSE [call |-> 0, kind |-> "new", name |-> ""]
CallJ(h, k) ==
   LET newNames == {nm \in DOMAIN h[k].ins : RefOf(h, k, nm).kind = "new"}
       s == RunSem(G, h[k].invals) IN
   [ins |-> [nm \in newNames |-> h[k].invals[nm]],
    reuse |-> [nm \in (DOMAIN h[k].ins) \ newNames |-> RefOf(h, k, nm)],
    \* what a reused object holds when this call begins (the caller may have refilled it since the call it is taken from)
    holds |-> [nm \in {n \in (DOMAIN h[k].ins) \ newNames : RefOf(h, k, n).kind = "in"} |-> h[k].invals[nm]],
    allowed |-> IF s.ok THEN MustValue(s.out) ELSE IF "Indefinite" \in s.errc THEN NoCrash ELSE MustErrorOf(SeqOfSet(s.errc))]
InitsSeq(g) == LET names == SeqOfSet(DOMAIN g.inits) IN [k \in 1..Len(names) |-> [name |-> names[k], t |-> g.inits[names[k]]]]
HistFeat(h) == [k \in 1..Len(h) |->
                  IF ~h[k].ok THEN "fail"
                  ELSE IF \E nm \in DOMAIN h[k].ins : RefOf(h, k, nm).kind = "in" /\ h[k].invals[nm] # h[RefOf(h, k, nm).call].invals[RefOf(h, k, nm).name] THEN "buffer_refilled"
                  ELSE IF \E nm \in DOMAIN h[k].ins : RefOf(h, k, nm).kind = "out" THEN "output_fed_back"
                  ELSE IF \E nm \in DOMAIN h[k].ins : RefOf(h, k, nm).kind = "in" THEN "object_reused" ELSE "fresh"]
DoCollect ==
   /\ Collect(1) /\ UNCHANGED <<mid, fresh, touched, stale>>
   /\ (Len(hist') = MaxCalls =>
         P([prop |-> "C02", fam |-> "history", kind |-> "model", op |-> "", attrs |-> <<>>, inputs |-> <<>>, nout |-> 0, allowed |-> NoCrash,
            cmp |-> "num", known |-> <<>>, feat |-> <<mid>> \o HistFeat(hist'),
            x |-> [model |-> [nodes |-> G.nodes, inputs |-> G.inputs, outputs |-> G.outputs, inits |-> InitsSeq(G), opset |-> 13],
                   calls |-> [k \in 1..Len(hist') |-> CallJ(hist', k)],
                   checks |-> <<"inputs_unchanged", "weights_unchanged", "fresh_equal">>]]))

MCNext == DoLoad \/ DoNew \/ DoRefill \/ DoBegin \/ DoStep \/ DoCollect
MCSpec == MCInit /\ [][MCNext]_allvars

\* every completed call of the history returned what a freshly loaded model returns for the same input values
HistoryIndependent ==
   \A k \in 1..Len(hist) : LET s == RunSem(G, hist[k].invals) IN hist[k].ok = s.ok /\ (s.ok => hist[k].out = s.out)
WeightsAndCallerTensorsImmutable ==
   [][\A o \in 1..Len(heap) : heap[o].owner \in {"model", "caller"} => (heap'[o] = heap[o] \/ (touched = 0 /\ touched' = o))]_allvars
=============================================================================
