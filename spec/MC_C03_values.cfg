SPECIFICATION Spec
CONSTANTS
  Mode = "values"
  MaxRank = 0
  MaxExt = 1
  Rank4Ext = 0
  Ops = {"Add", "Sub", "Mul", "Div", "Equal", "Greater", "GreaterOrEqual", "Less", "LessOrEqual", "And", "Or", "Xor"}
CHECK_DEADLOCK FALSE
