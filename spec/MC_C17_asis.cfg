SPECIFICATION MCSpec
CONSTANTS
  RunIds = {1, 2}
  Semantics = "asis"
  ModelSet = {"conv_relu_argmax", "gru_squeeze", "lstm_state_init", "scaler_gemm_const", "linreg_rnn"}
  Mode = "fine"
INVARIANTS ConcurrentEqualsSequential NoConflict NoRunFails
PROPERTY WeightsAndCallerTensorsImmutable
CHECK_DEADLOCK FALSE
