------------------------------- MODULE Decode -------------------------------
(***************************************************************************)
(* TensorProto -> tensor (C12, C18).  Everything is specified on BYTE      *)
(* tuples, so 64-bit element types need no 64-bit arithmetic:              *)
(*  - a raw payload is chunked into little-endian elements of the width of *)
(*    the declared element type;                                           *)
(*  - a typed repeated field holds carrier values (int32 for the narrow    *)
(*    integer types and bool, uint64 for uint32, the type itself           *)
(*    otherwise), given here as the carrier's little-endian bytes; the     *)
(*    element keeps the low w bytes (C narrowing conversion);              *)
(*  - the element count must equal the product of the dims.                *)
(* A tensor proto is [code, dims, enc ("raw"|"typed"), field, raw, vals].  *)
(***************************************************************************)
EXTENDS Attrs

DTypeOfCode(c) == CASE c = 1 -> "f32" [] c = 2 -> "u8" [] c = 3 -> "i8" [] c = 4 -> "u16" [] c = 5 -> "i16" [] c = 6 -> "i32"
                    [] c = 7 -> "i64" [] c = 9 -> "bool" [] c = 11 -> "f64" [] c = 12 -> "u32" [] c = 13 -> "u64" [] OTHER -> "unsupported"
SupportedCodes == {1, 2, 3, 4, 5, 6, 7, 9, 11, 12, 13}
Width(dt) == CASE dt \in {"i8", "u8", "bool"} -> 1 [] dt \in {"i16", "u16"} -> 2 [] dt \in {"f32", "i32", "u32"} -> 4 [] OTHER -> 8
\* the typed repeated field ONNX prescribes for an element type, and the width of its carrier
FieldOf(dt) == CASE dt = "f32" -> "float_data" [] dt = "f64" -> "double_data" [] dt = "i64" -> "int64_data"
                 [] dt \in {"u32", "u64"} -> "uint64_data" [] OTHER -> "int32_data"
CarrierWidth(field) == IF field \in {"float_data", "int32_data"} THEN 4 ELSE 8

\* chunk a flat byte sequence into n-byte tuples
Chunk(raw, w) == [k \in 1..(Len(raw) \div w) |-> [i \in 1..w |-> raw[(k - 1) * w + i]]]
Narrow(carrierBytes, w) == [i \in 1..w |-> carrierBytes[i]]

\* KF-C12-undefined-type-fallback (defect model): for a data_type outside the supported ones the library decodes whichever
\* typed field is populated, with that field's own element type (pinned by the repository's TestConstantOfShape)
FieldType(f) == CASE f = "float_data" -> "f32" [] f = "int32_data" -> "i32" [] f = "int64_data" -> "i64" [] f = "double_data" -> "f64" [] f = "uint64_data" -> "u64"
KnownDecode(tp) ==
   IF tp.code \notin SupportedCodes /\ tp.enc = "typed" /\ Len(tp.vals) > 0 /\ Len(tp.vals) = Size(tp.dims)
   THEN <<Known("KF-C12-undefined-type-fallback", "value", <<T(FieldType(tp.field), tp.dims, tp.vals)>>)>>
   ELSE <<>>

\* dims beyond TLC's integers: tp.bigdims[i], when present and non-empty, spells dimension i in base 65536 (little endian, >= 2^31)
IsBigDim(tp, i) == "bigdims" \in DOMAIN tp /\ i <= Len(tp.bigdims) /\ tp.bigdims[i] # <<>>
DecodeAllowed(tp) ==
   LET dt == DTypeOfCode(tp.code) IN
   IF tp.code \notin SupportedCodes THEN MustError                    \* an element type the library cannot represent
   ELSE IF \E i \in 1..Len(tp.dims) : ~IsBigDim(tp, i) /\ tp.dims[i] < 0 THEN MustError
   \* a dimension beyond 2^31: the declared shape has more elements than any payload of a case holds (unless another extent is 0)
   ELSE IF \E i \in 1..Len(tp.dims) : IsBigDim(tp, i)
        THEN (IF \E i \in 1..Len(tp.dims) : ~IsBigDim(tp, i) /\ tp.dims[i] = 0 THEN NoCrash ELSE MustError)
   ELSE LET w == Width(dt)
            usesTyped == tp.enc = "typed" /\ tp.field = FieldOf(dt) /\ Len(tp.vals) > 0
            wrongField == tp.enc = "typed" /\ tp.field # FieldOf(dt)           \* a populated field ONNX does not allow for this type: no payload
            elems == IF usesTyped THEN [k \in 1..Len(tp.vals) |-> Narrow(tp.vals[k], w)]
                     ELSE IF wrongField THEN <<>> ELSE Chunk(tp.raw, w)
            ragged == ~usesTyped /\ ~wrongField /\ Len(tp.raw) % w # 0
        IN IF Size(tp.dims) = 0 THEN (IF Len(elems) > 0 THEN MustError ELSE NoCrash)   \* empty tensors: not representable by every tensor library
           ELSE IF ragged \/ Len(elems) # Size(tp.dims) THEN MustError
           \* raw bool bytes other than 0 and 1: every ONNX reader reads a non-zero byte as true (numpy semantics); refusing is allowed too.
           \* What is loaded must be a canonical true.
           ELSE IF dt = "bool" /\ ~usesTyped /\ \E k \in 1..Len(elems) : elems[k][1] \notin {0, 1}
                THEN ValueOrError(<<T(dt, tp.dims, [k \in 1..Len(elems) |-> IF elems[k][1] = 0 THEN <<0>> ELSE <<1>>])>>)
           ELSE IF dt = "bool" /\ \E k \in 1..Len(elems) : elems[k][1] \notin {0, 1} THEN NoCrash   \* typed carrier values other than 0/1: ONNX is silent
           ELSE IF dt = "bool" /\ usesTyped /\ \E k \in 1..Len(tp.vals) : \E i \in 2..4 : tp.vals[k][i] # 0 THEN NoCrash
           ELSE MustValue(<<T(dt, tp.dims, elems)>>)
=============================================================================
