SPECIFICATION Spec
CONSTANTS
  Fams = {"conv1d", "conv2d"}
  MaxL = 6
  MaxK1 = 3
  MaxHW = 5
  MaxK2 = 3
  MaxSD = 3
  MaxPad = 3
  MaxNCM = 3
CHECK_DEADLOCK FALSE
