SPECIFICATION SpecMC
CONSTANTS
  Mode = "registry"
  SingletonInstances = FALSE
  MaxSteps = 6
INVARIANTS FreshInstances OwnState
CHECK_DEADLOCK FALSE
