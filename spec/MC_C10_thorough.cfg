SPECIFICATION Spec
CONSTANTS
  Fams = {"exact", "prelu", "table", "long"}
  LongSizes = {40003, 70001}
  MaxRank = 4
  MaxExt = 3
INVARIANT Laws
CHECK_DEADLOCK FALSE
