SPECIFICATION Spec
CONSTANTS
  MaxNodes = 2
  FinishAtMax = FALSE
  TplFilter = "all"
  Supplied = FALSE
INVARIANTS WellFormed StagedEqualsRunSem
CHECK_DEADLOCK FALSE
