----------------------------- MODULE OpRecurrent -----------------------------
(***************************************************************************)
(* RNN, GRU, LSTM (forward, one direction) as state machines over time     *)
(* steps (C06, C16).  State: hidden H (and cell C) as [batch][hidden]      *)
(* matrices of integers.  Packed ONNX layouts:                             *)
(*   LSTM  W,R : [1, 4H, .]  gate order i o f c ; B : [1, 8H] = Wb ++ Rb ; *)
(*         P : [1, 3H] = p_i p_o p_f                                       *)
(*   GRU   W,R : [1, 3H, .]  gate order z r h   ; B : [1, 6H]              *)
(*   RNN   W,R : [1,  H, .]                     ; B : [1, 2H]              *)
(* Values are exactly computable because of the SATURATION REGIME: a       *)
(* sigmoid / tanh slot is only evaluated at |x| >= BIG (sigmoid -> 0 / 1,  *)
(* tanh -> -1 / 1, exactly, in float32 and float64) or tanh at 0; relu is  *)
(* exact on integers.  ActOK is the guard; a case whose evaluation leaves  *)
(* the regime is not emitted by the generators.                            *)
(***************************************************************************)
EXTENDS OpLinear

RBIG == 1024
Act(a, v) == CASE a = "relu"    -> (IF v > 0 THEN v ELSE 0)
               [] a = "sigmoid" -> (IF v >= RBIG THEN 1 ELSE 0)
               [] a = "tanh"    -> (IF v >= RBIG THEN 1 ELSE IF v <= -RBIG THEN -1 ELSE 0)
ActOK(a, v) == a = "relu" \/ v >= RBIG \/ v <= -RBIG \/ (a = "tanh" /\ v = 0)
KnownActs == {"relu", "sigmoid", "tanh"}
Mag(v) == IF v < 0 THEN -v ELSE v
MagOK(v) == Mag(v) < 4000000            \* keeps float32 arithmetic on these integers exact and TLC's integers far from overflow

\* packed-layout accessors (g: 0-based gate block, j: 1..Hd unit, k: 1..width)
WAt(Wt, g, j, k, Hd, width) == Wt.data[((g * Hd + (j - 1)) * width) + k]
BAt(B, blk, j, Hd) == IF IsNil(B) THEN 0 ELSE B.data[blk * Hd + j]          \* blk: 0-based block of length Hd
XAt3(X, t, b, k) == X.data[(((t - 1) * X.shape[2] + (b - 1)) * X.shape[3]) + k]
Init2(T0, Bt, Hd) == [b \in 1..Bt |-> [j \in 1..Hd |-> IF IsNil(T0) THEN 0 ELSE T0.data[(b - 1) * Hd + j]]]

\* x.W[g]^T + h.R[g]^T + Wb[g] + Rb[g] for sample b, unit j;  G = number of gate blocks
Pre(X, W, R, B, t, b, Hrow, g, j, Hd, G) ==
   SumF(LAMBDA k : XAt3(X, t, b, k) * WAt(W, g, j, k, Hd, X.shape[3]), 1, X.shape[3])
   + SumF(LAMBDA m : Hrow[m] * WAt(R, g, j, m, Hd, Hd), 1, Hd)
   + BAt(B, g, j, Hd) + BAt(B, G + g, j, Hd)

Flat2(M, Bt, Hd) == [n \in 1..(Bt * Hd) |-> M[((n - 1) \div Hd) + 1][((n - 1) % Hd) + 1]]
RECURSIVE FlatY(_, _, _, _)
FlatY(Ys, i, Bt, Hd) == IF i > Len(Ys) THEN <<>> ELSE Flat2(Ys[i], Bt, Hd) \o FlatY(Ys, i + 1, Bt, Hd)

\* Overflow discipline: every step starts with |H|, |C| <= HCMAX; a product is formed only when ProdSafe holds; the
\* guards are staged through IF so that TLC never evaluates an unsafe product (records and functions are eager).
SMALL == 30000
HCMAX == 100000          \* bound on |H|, |C| carried to the next step: HCMAX * (largest weight 6144) * hidden <= 2^31
ProdSafe(a, b) == Mag(a) <= 1 \/ Mag(b) <= 1 \/ (Mag(a) <= SMALL /\ Mag(b) <= SMALL)
All2(Bt, Hd, P(_, _)) == \A b \in 1..Bt : \A j \in 1..Hd : P(b, j)
M2(Bt, Hd, F(_, _)) == [b \in 1..Bt |-> [j \in 1..Hd |-> F(b, j)]]

\* --------------------------------------------------------------------- RNN
RNNStep(X, W, R, B, t, H, f, Hd) ==
   LET Bt == X.shape[2]
       pre == M2(Bt, Hd, LAMBDA b, j : Pre(X, W, R, B, t, b, H[b], 0, j, Hd, 1))
   IN IF ~All2(Bt, Hd, LAMBDA b, j : ActOK(f, pre[b][j]) /\ Mag(Act(f, pre[b][j])) <= HCMAX) THEN [H |-> H, ok |-> FALSE]
      ELSE [H |-> M2(Bt, Hd, LAMBDA b, j : Act(f, pre[b][j])), ok |-> TRUE]
\* sequence_lens (L: one length per sample, or <<>> when the input is absent): a sample is stepped while t <= L[b]; afterwards its
\* state stays as it is and its rows of Y are zero.  A step treats every sample on its own, so masking after the step is exact.
Alive(L, b, t) == L = <<>> \/ t <= L[b]
KeepState(new, old, L, t) == [b \in 1..Len(new) |-> IF Alive(L, b, t) THEN new[b] ELSE old[b]]
MaskedY(new, L, t) == [b \in 1..Len(new) |-> IF Alive(L, b, t) THEN new[b] ELSE [j \in 1..Len(new[b]) |-> 0]]
RECURSIVE RNNRun(_, _, _, _, _, _, _, _, _, _)
RNNRun(X, W, R, B, t, H, Ys, f, Hd, L) ==
   IF t > X.shape[1] THEN [H |-> H, Ys |-> Ys, ok |-> TRUE]
   ELSE Let(RNNStep(X, W, R, B, t, H, f, Hd), LAMBDA s :
        IF ~s.ok THEN [H |-> H, Ys |-> Ys, ok |-> FALSE]
        ELSE Let(KeepState(s.H, H, L, t), LAMBDA h : Let(Append(Ys, MaskedY(s.H, L, t)), LAMBDA ys : RNNRun(X, W, R, B, t + 1, h, ys, f, Hd, L))))

\* --------------------------------------------------------------------- GRU
\* gates z = 0, r = 1, h = 2
GRUStep(X, W, R, B, t, H, f, g, lbr, Hd) ==
   LET Bt == X.shape[2] I == X.shape[3]
       zp == M2(Bt, Hd, LAMBDA b, j : Pre(X, W, R, B, t, b, H[b], 0, j, Hd, 3))
       rp == M2(Bt, Hd, LAMBDA b, j : Pre(X, W, R, B, t, b, H[b], 1, j, Hd, 3))
       Fail == [H |-> H, ok |-> FALSE]
   IN IF ~All2(Bt, Hd, LAMBDA b, j : ActOK(f, zp[b][j]) /\ MagOK(zp[b][j]) /\ ActOK(f, rp[b][j]) /\ MagOK(rp[b][j])) THEN Fail
      ELSE LET z == M2(Bt, Hd, LAMBDA b, j : Act(f, zp[b][j]))
               r == M2(Bt, Hd, LAMBDA b, j : Act(f, rp[b][j]))
               xw(b, j) == SumF(LAMBDA k : XAt3(X, t, b, k) * WAt(W, 2, j, k, Hd, I), 1, I) + BAt(B, 2, j, Hd)
               hr(b, j) == SumF(LAMBDA m : H[b][m] * WAt(R, 2, j, m, Hd, Hd), 1, Hd) + BAt(B, 5, j, Hd)
           IN IF ~All2(Bt, Hd, LAMBDA b, j : IF lbr THEN ProdSafe(r[b][j], hr(b, j)) ELSE (ProdSafe(r[b][j], H[b][j]) /\ Mag(r[b][j] * H[b][j]) <= SMALL)) THEN Fail
              ELSE LET hp == M2(Bt, Hd, LAMBDA b, j :
                                IF lbr THEN xw(b, j) + r[b][j] * hr(b, j)
                                ELSE xw(b, j) + SumF(LAMBDA m : (r[b][m] * H[b][m]) * WAt(R, 2, j, m, Hd, Hd), 1, Hd) + BAt(B, 5, j, Hd))
                   IN IF ~All2(Bt, Hd, LAMBDA b, j : ActOK(g, hp[b][j]) /\ MagOK(hp[b][j])) THEN Fail
                      ELSE LET hh == M2(Bt, Hd, LAMBDA b, j : Act(g, hp[b][j])) IN
                           IF ~All2(Bt, Hd, LAMBDA b, j : ProdSafe(1 - z[b][j], hh[b][j]) /\ ProdSafe(z[b][j], H[b][j])) THEN Fail
                           ELSE LET Hn == M2(Bt, Hd, LAMBDA b, j : (1 - z[b][j]) * hh[b][j] + z[b][j] * H[b][j]) IN
                                IF ~All2(Bt, Hd, LAMBDA b, j : Mag(Hn[b][j]) <= HCMAX) THEN Fail ELSE [H |-> Hn, ok |-> TRUE]
RECURSIVE GRURun(_, _, _, _, _, _, _, _, _, _, _, _)
GRURun(X, W, R, B, t, H, Ys, f, g, lbr, Hd, L) ==
   IF t > X.shape[1] THEN [H |-> H, Ys |-> Ys, ok |-> TRUE]
   ELSE Let(GRUStep(X, W, R, B, t, H, f, g, lbr, Hd), LAMBDA s :
        IF ~s.ok THEN [H |-> H, Ys |-> Ys, ok |-> FALSE]
        ELSE Let(KeepState(s.H, H, L, t), LAMBDA h : Let(Append(Ys, MaskedY(s.H, L, t)), LAMBDA ys : GRURun(X, W, R, B, t + 1, h, ys, f, g, lbr, Hd, L))))

\* -------------------------------------------------------------------- LSTM
\* gates i = 0, o = 1, f = 2, c = 3 ; peepholes p_i = block 0, p_o = block 1, p_f = block 2
PAt(P, blk, j, Hd) == IF IsNil(P) THEN 0 ELSE P.data[blk * Hd + j]
LSTMStep(X, W, R, B, P, t, H, C, fa, ga, ha, coupled, Hd) ==
   LET Bt == X.shape[2]
       ip == M2(Bt, Hd, LAMBDA b, j : Pre(X, W, R, B, t, b, H[b], 0, j, Hd, 4) + PAt(P, 0, j, Hd) * C[b][j])
       fp == M2(Bt, Hd, LAMBDA b, j : Pre(X, W, R, B, t, b, H[b], 2, j, Hd, 4) + PAt(P, 2, j, Hd) * C[b][j])
       cp == M2(Bt, Hd, LAMBDA b, j : Pre(X, W, R, B, t, b, H[b], 3, j, Hd, 4))
       Fail == [H |-> H, C |-> C, ok |-> FALSE]
   IN IF ~All2(Bt, Hd, LAMBDA b, j : /\ ActOK(fa, ip[b][j]) /\ MagOK(ip[b][j]) /\ (coupled \/ (ActOK(fa, fp[b][j]) /\ MagOK(fp[b][j])))
                                      /\ ActOK(ga, cp[b][j]) /\ MagOK(cp[b][j])) THEN Fail
      ELSE LET ig == M2(Bt, Hd, LAMBDA b, j : Act(fa, ip[b][j]))
               fg == M2(Bt, Hd, LAMBDA b, j : IF coupled THEN 1 - Act(fa, ip[b][j]) ELSE Act(fa, fp[b][j]))
               cg == M2(Bt, Hd, LAMBDA b, j : Act(ga, cp[b][j]))
           IN IF ~All2(Bt, Hd, LAMBDA b, j : ProdSafe(fg[b][j], C[b][j]) /\ ProdSafe(ig[b][j], cg[b][j])) THEN Fail
              ELSE LET Cn == M2(Bt, Hd, LAMBDA b, j : fg[b][j] * C[b][j] + ig[b][j] * cg[b][j]) IN
                   IF ~All2(Bt, Hd, LAMBDA b, j : Mag(Cn[b][j]) <= HCMAX /\ ActOK(ha, Cn[b][j])) THEN Fail
                   ELSE LET op == M2(Bt, Hd, LAMBDA b, j : Pre(X, W, R, B, t, b, H[b], 1, j, Hd, 4) + PAt(P, 1, j, Hd) * Cn[b][j]) IN
                        IF ~All2(Bt, Hd, LAMBDA b, j : ActOK(fa, op[b][j]) /\ MagOK(op[b][j])) THEN Fail
                        ELSE LET og == M2(Bt, Hd, LAMBDA b, j : Act(fa, op[b][j])) IN
                             IF ~All2(Bt, Hd, LAMBDA b, j : ProdSafe(og[b][j], Act(ha, Cn[b][j]))) THEN Fail
                             ELSE LET Hn == M2(Bt, Hd, LAMBDA b, j : og[b][j] * Act(ha, Cn[b][j])) IN
                                  IF ~All2(Bt, Hd, LAMBDA b, j : Mag(Hn[b][j]) <= HCMAX) THEN Fail
                                  ELSE [H |-> Hn, C |-> Cn, ok |-> TRUE]
RECURSIVE LSTMRun(_, _, _, _, _, _, _, _, _, _, _, _, _, _, _)
LSTMRun(X, W, R, B, P, t, H, C, Ys, fa, ga, ha, coupled, Hd, L) ==
   IF t > X.shape[1] THEN [H |-> H, C |-> C, Ys |-> Ys, ok |-> TRUE]
   ELSE Let(LSTMStep(X, W, R, B, P, t, H, C, fa, ga, ha, coupled, Hd), LAMBDA s :
        IF ~s.ok THEN [H |-> H, C |-> C, Ys |-> Ys, ok |-> FALSE]
        ELSE Let(KeepState(s.H, H, L, t), LAMBDA h : Let(KeepState(s.C, C, L, t), LAMBDA c : Let(Append(Ys, MaskedY(s.H, L, t)), LAMBDA ys :
                LSTMRun(X, W, R, B, P, t + 1, h, c, ys, fa, ga, ha, coupled, Hd, L)))))

\* ------------------------------------------------------------- node semantics
\* inputs: <<X, W, R, B, sequence_lens, initial_h (, initial_c, P)>> padded with Nil; attrs as usual.
\* result record: [ok (inside the exact regime), allowed]
In(inputs, i) == IF i <= Len(inputs) THEN inputs[i] ELSE Nil
DefaultActs(op) == CASE op = "RNN" -> <<"tanh">> [] op = "GRU" -> <<"sigmoid", "tanh">> [] op = "LSTM" -> <<"sigmoid", "tanh", "tanh">>
NActs(op) == Len(DefaultActs(op))
NGates(op) == CASE op = "RNN" -> 1 [] op = "GRU" -> 3 [] op = "LSTM" -> 4
RecShapesOK(op, inputs, Hd) ==
   LET X == In(inputs, 1) W == In(inputs, 2) R == In(inputs, 3) B == In(inputs, 4) h0 == In(inputs, 6) c0 == In(inputs, 7) P == In(inputs, 8)
       G == NGates(op) IN
   /\ Len(X.shape) = 3 /\ W.shape = <<1, G * Hd, X.shape[3]>> /\ R.shape = <<1, G * Hd, Hd>>
   /\ (IsNil(B) \/ B.shape = <<1, 2 * G * Hd>>)
   /\ (IsNil(h0) \/ h0.shape = <<1, X.shape[2], Hd>>)
   /\ (op # "LSTM" \/ ((IsNil(c0) \/ c0.shape = <<1, X.shape[2], Hd>>) /\ (IsNil(P) \/ P.shape = <<1, 3 * Hd>>)))
SemRecurrentV(op, attrs, inputs, nout) ==
   LET X == In(inputs, 1) W == In(inputs, 2) R == In(inputs, 3) B == In(inputs, 4) sl == In(inputs, 5)
       h0 == In(inputs, 6) c0 == In(inputs, 7) P == In(inputs, 8)
       Hd == AttrV(attrs, "hidden_size", 0)
       acts0 == AttrV(attrs, "activations", DefaultActs(op))
       \* the ONNX documentation spells the names "Relu", "Tanh", "Sigmoid": such a name is refused, or it is honoured as THAT function
       acts == [i \in 1..Len(acts0) |-> CASE acts0[i] = "Relu" -> "relu" [] acts0[i] = "Tanh" -> "tanh" [] acts0[i] = "Sigmoid" -> "sigmoid" [] OTHER -> acts0[i]]
       refusable == \/ HasAttr(attrs, "clip") \/ AttrV(attrs, "direction", "forward") # "forward"
                    \/ HasAttr(attrs, "activation_alpha") \/ HasAttr(attrs, "activation_beta")
       \* sequence_lens: the library may refuse it; if it honours it, then with the meaning ONNX gives it (well-formed: one int32 length
       \* in 1..seq_length per sample; anything else is only required not to crash)
       lensOK == IsNil(sl) \/ (sl.dt = "i32" /\ Len(X.shape) = 3 /\ sl.shape = <<X.shape[2]>> /\ \A b \in 1..Len(sl.data) : sl.data[b] >= 1 /\ sl.data[b] <= X.shape[1])
       L == IF IsNil(sl) THEN <<>> ELSE sl.data
   IN IF Len(acts) # NActs(op) THEN [ok |-> TRUE, allowed |-> MustError]
      ELSE IF \E i \in 1..Len(acts) : acts[i] \notin KnownActs THEN [ok |-> TRUE, allowed |-> ValueOrError(<<>>)]  \* a name the library does not know: refuse (or honour)
      ELSE IF refusable THEN [ok |-> TRUE, allowed |-> ValueOrError(<<>>)]       \* generated only to be refused
      ELSE IF Hd < 1 \/ ~RecShapesOK(op, inputs, Hd) THEN [ok |-> TRUE, allowed |-> NoCrash]
      ELSE IF ~lensOK THEN [ok |-> TRUE, allowed |-> NoCrash]
      ELSE LET Bt == X.shape[2] S == X.shape[1]
               H0 == Init2(h0, Bt, Hd) C0 == Init2(c0, Bt, Hd)
               run == CASE op = "RNN"  -> RNNRun(X, W, R, B, 1, H0, <<>>, acts[1], Hd, L)
                        [] op = "GRU"  -> GRURun(X, W, R, B, 1, H0, <<>>, acts[1], acts[2], AttrV(attrs, "linear_before_reset", 0) # 0, Hd, L)
                        [] op = "LSTM" -> LSTMRun(X, W, R, B, P, 1, H0, C0, <<>>, acts[1], acts[2], acts[3], AttrV(attrs, "input_forget", 0) # 0, Hd, L)
           IN IF ~run.ok THEN [ok |-> FALSE, allowed |-> NoCrash]
              ELSE LET Y  == T(X.dt, <<S, 1, Bt, Hd>>, FlatY(run.Ys, 1, Bt, Hd))
                       Yh == T(X.dt, <<1, Bt, Hd>>, Flat2(run.H, Bt, Hd))
                       outs == IF op = "LSTM" THEN <<Y, Yh, T(X.dt, <<1, Bt, Hd>>, Flat2(run.C, Bt, Hd))>> ELSE <<Y, Yh>>
                       a == MustValue(Take(outs, nout))
                   IN [ok |-> TRUE,
                       allowed |-> Weaken(X.dt # "f32" \/ (op = "LSTM" /\ AttrV(attrs, "input_forget", 0) # 0) \/ acts # acts0 \/ ~IsNil(sl), a)]
SemRecurrent(op, attrs0, inputs0, nout) == Let(attrs0, LAMBDA attrs : Let(inputs0, LAMBDA inputs : SemRecurrentV(op, attrs, inputs, nout)))
=============================================================================
