------------------------------- MODULE MC_C17 -------------------------------
(***************************************************************************)
(* C17: concurrent Runs on one loaded Model.                               *)
(*  Mode "fine"  : RunIds Runs in flight, the node life cycle Gather /     *)
(*                 Apply / Bind of different Runs interleaves freely; TLC  *)
(*                 checks NoConflict (no Run writes an object another Run  *)
(*                 reads or writes), that weights and caller tensors never *)
(*                 change, and that every Run returns what it returns      *)
(*                 alone (Dataflow).  With Semantics = "asis" TLC produces *)
(*                 the racing schedule.                                    *)
(*  Mode "sched" : interleavings at node granularity (a Run executes a     *)
(*                 whole node per step; token 0 = both Runs execute their  *)
(*                 next node at the same time); every schedule is printed  *)
(*                 and forced on real goroutines by the harness.           *)
(***************************************************************************)
EXTENDS Interp, Json
CONSTANTS ModelSet, Mode
VARIABLES mid, sched, lock
P(c) == PrintT(<<"CASE", ToJson(c)>>)
allvars == <<vars, mid, sched, lock>>

Nd(op, attrs, ins, outs) == [op |-> op, attrs |-> attrs, ins |-> ins, outs |-> outs]
InD(name, dims) == [name |-> name, dt |-> "f32", dims |-> dims]
RW(G, Hd, width, salt) == T("f32", <<1, G * Hd, width>>, [n \in 1..(G * Hd * width) |-> ((n * 5 + salt) % 3) - 1])
RB(G, Hd, salt) == T("f32", <<1, 2 * G * Hd>>, [n \in 1..(2 * G * Hd) |-> ((n * 2 + salt) % 3) - 1])
ReluActs(n) == ASs("activations", [i \in 1..n |-> "relu"])
\* every operator family that reads weights; 2-3 nodes each
Models ==
  [ conv_relu_argmax |->
      [nodes |-> <<Nd("Conv", <<>>, <<"x", "w", "b">>, <<"c">>), Nd("Relu", <<>>, <<"c">>, <<"r">>), Nd("ArgMax", <<AI("axis", 2), AI("keepdims", 1)>>, <<"r">>, <<"a">>)>>,
       inputs |-> <<InD("x", <<DSym, DFix(1), DFix(3)>>)>>, outputs |-> <<"c", "r", "a">>,
       inits |-> [w |-> T("f32", <<2, 1, 2>>, <<1, -1, 2, 3>>), b |-> T("f32", <<2>>, <<10, 20>>)]],
    gru_squeeze |->
      [nodes |-> <<Nd("GRU", <<AI("hidden_size", 2), ReluActs(2)>>, <<"x", "w", "r", "bb", "", "h0">>, <<"Y", "Yh">>), Nd("Squeeze", <<>>, <<"Y", "ax">>, <<"s">>)>>,
       inputs |-> <<InD("x", <<DSym, DFix(1), DFix(2)>>)>>, outputs |-> <<"Y", "Yh", "s">>,
       inits |-> [w |-> RW(3, 2, 2, 0), r |-> RW(3, 2, 2, 1), bb |-> RB(3, 2, 2), h0 |-> T("f32", <<1, 1, 2>>, <<1, 2>>), ax |-> T("i64", <<1>>, <<1>>)]],
    lstm_state_init |->
      [nodes |-> <<Nd("LSTM", <<AI("hidden_size", 2), ReluActs(3)>>, <<"x", "w", "r", "bb", "", "h0", "c0">>, <<"Y", "Yh", "Yc">>), Nd("Add", <<>>, <<"Yh", "Yc">>, <<"s">>)>>,
       inputs |-> <<InD("x", <<DSym, DFix(1), DFix(2)>>)>>, outputs |-> <<"Y", "s">>,
       inits |-> [w |-> RW(4, 2, 2, 2), r |-> RW(4, 2, 2, 0), bb |-> RB(4, 2, 1), h0 |-> T("f32", <<1, 1, 2>>, <<1, 0>>), c0 |-> T("f32", <<1, 1, 2>>, <<0, 1>>)]],
    scaler_gemm_const |->
      [nodes |-> <<Nd("Scaler", <<AFs("offset", <<1, 2, 3>>), AFs("scale", <<2, 2, 2>>)>>, <<"x">>, <<"sc">>),
                   Nd("Constant", <<AT("value", [dt |-> "f32", shape |-> <<3>>, data |-> <<1, 2, 3>>])>>, <<>>, <<"k">>),
                   Nd("Gemm", <<AI("transB", 1)>>, <<"sc", "w", "k">>, <<"g">>)>>,
       inputs |-> <<InD("x", <<DSym, DFix(3)>>)>>, outputs |-> <<"sc", "g">>,
       inits |-> [w |-> T("f32", <<3, 3>>, <<1, 0, -1, 2, 1, 0, 0, 3, 1>>)]],
    linreg_rnn |->
      [nodes |-> <<Nd("RNN", <<AI("hidden_size", 2), ReluActs(1)>>, <<"x", "w", "r", "", "", "h0">>, <<"Y", "Yh">>),
                   Nd("Squeeze", <<>>, <<"Yh", "ax">>, <<"f">>),
                   Nd("LinearRegressor", <<AFs("coefficients", <<1, -2>>), AFs("intercepts", <<3>>)>>, <<"f">>, <<"p">>)>>,
       inputs |-> <<InD("x", <<DSym, DFix(1), DFix(2)>>)>>, outputs |-> <<"Yh", "f">>,
       inits |-> [w |-> RW(1, 2, 2, 1), r |-> RW(1, 2, 2, 2), h0 |-> T("f32", <<1, 1, 2>>, <<2, 0>>), ax |-> T("i64", <<1>>, <<0>>)]],
    \* (the next four are members of the C02 model family, MC_C02.tla: weights that need no stretching, scaled operands, a vector weight)
    gemm_row_bias |->
      [nodes |-> <<Nd("Gemm", <<>>, <<"x", "w", "c13">>, <<"g">>), Nd("Gemm", <<AF("alpha", Fin(2)), AF("beta", Fin(3))>>, <<"x", "w", "c13">>, <<"h">>)>>,
       inputs |-> <<InD("x", <<DSym, DFix(3)>>)>>, outputs |-> <<"g", "h">>,
       inits |-> [w |-> T("f32", <<3, 3>>, <<1, 0, -1, 2, 1, 0, 0, 3, 1>>), c13 |-> T("f32", <<1, 3>>, <<-1, 2, -3>>)]],
    matmul_vector |->
      [nodes |-> <<Nd("MatMul", <<>>, <<"x", "v">>, <<"y">>), Nd("MatMul", <<>>, <<"v", "w">>, <<"z">>), Nd("Add", <<>>, <<"v", "v">>, <<"vv">>)>>,
       inputs |-> <<InD("x", <<DSym, DFix(2)>>)>>, outputs |-> <<"y", "z", "vv">>,
       inits |-> [v |-> T("f32", <<2>>, <<3, -1>>), w |-> T("f32", <<2, 3>>, <<1, 0, -1, 2, 1, 0>>)]],
    same_shape_weights |->
      [nodes |-> <<Nd("Add", <<>>, <<"x", "v">>, <<"a">>), Nd("Mul", <<>>, <<"v", "x">>, <<"m">>), Nd("Relu", <<>>, <<"v">>, <<"r">>)>>,
       inputs |-> <<InD("x", <<DSym, DFix(3)>>)>>, outputs |-> <<"a", "m", "r">>,
       inits |-> [v |-> T("f32", <<1, 3>>, <<-1, 2, -3>>)]],
    \* views of shared weights, and Constant nodes (the harness builds this model with nodes that carry no name)
    weight_views |->
      [nodes |-> <<Nd("Transpose", <<AIs("perm", <<1, 0>>)>>, <<"w">>, <<"wt">>), Nd("MatMul", <<>>, <<"x", "wt">>, <<"y">>),
                   Nd("Reshape", <<>>, <<"w", "shp">>, <<"rs">>), Nd("Flatten", <<AI("axis", 0)>>, <<"w">>, <<"f">>)>>,
       inputs |-> <<InD("x", <<DSym, DFix(3)>>)>>, outputs |-> <<"y", "rs", "f">>,
       inits |-> [w |-> T("f32", <<2, 3>>, <<1, 0, -1, 2, 1, 0>>), shp |-> T("i64", <<2>>, <<3, 2>>)]],
    two_unnamed_constants |->
      [nodes |-> <<Nd("Constant", <<AT("value", [dt |-> "f32", shape |-> <<3>>, data |-> <<1, 2, 3>>])>>, <<>>, <<"ca">>), Nd("Add", <<>>, <<"x", "ca">>, <<"ya">>),
                   Nd("Constant", <<AT("value", [dt |-> "f32", shape |-> <<3>>, data |-> <<-5, -6, -7>>])>>, <<>>, <<"cb">>), Nd("Add", <<>>, <<"x", "cb">>, <<"yb">>)>>,
       inputs |-> <<InD("x", <<DSym, DFix(3)>>)>>, outputs |-> <<"ya", "yb">>, inits |-> <<>>],
    \* a defaulted input: the bias is an initializer that is also declared as a graph input; the callers of the odd Runs map its name
    \* to nil ("not supplied", RunSem!SuppliedTensors) - the default is used, alone and beside other Runs alike
    defaulted_bias |->
      [nodes |-> <<Nd("Gemm", <<>>, <<"x", "w", "c">>, <<"g">>), Nd("Relu", <<>>, <<"g">>, <<"y">>)>>,
       inputs |-> <<InD("x", <<DSym, DFix(2)>>), InD("c", <<DFix(3)>>)>>, outputs |-> <<"g", "y">>,
       inits |-> [w |-> T("f32", <<2, 3>>, <<1, 0, -1, 2, 1, 0>>), c |-> T("f32", <<3>>, <<100, -200, 300>>)]],
    expand_concat_add |->
      [nodes |-> <<Nd("Expand", <<>>, <<"x", "shp">>, <<"e">>), Nd("Concat", <<AI("axis", 0)>>, <<"x">>, <<"c">>), Nd("Add", <<>>, <<"c", "v">>, <<"s">>)>>,
       inputs |-> <<InD("x", <<DSym, DFix(3)>>)>>, outputs |-> <<"e", "c", "s">>,
       inits |-> [shp |-> T("i64", <<3>>, <<2, 1, 3>>), v |-> T("f32", <<3>>, <<100, 200, 300>>)]] ]
G == Models[mid]
XShape(g, batch) == LET d == g.inputs[1].dims IN [i \in 1..Len(d) |-> IF d[i].kind = "fixed" THEN d[i].size ELSE batch]
\* Run r has its own input tensor (other values, other batch size)
InputOf(r) == T("f32", XShape(G, r), [k \in 1..Size(XShape(G, r)) |-> ((k * (2 * r + 1)) % 7) - 3])

\* what the caller of Run r passes: its own x, and (odd Runs) the names of the defaulted inputs mapped to nil
DefaultedNames == {G.inputs[i].name : i \in 1..Len(G.inputs)} \cap DOMAIN G.inits
FeedOf(r) == [n \in {"x"} \cup (IF r % 2 = 1 THEN DefaultedNames ELSE {}) |-> IF n = "x" THEN InputOf(r) ELSE Nil]

MCInit == Init /\ mid \in ModelSet /\ sched = <<>> /\ lock = 0

DoLoad == ~model.loaded /\ Load(G) /\ UNCHANGED <<mid, sched, lock>>
\* the callers create their tensors and start their Runs (all Runs are started before any node executes)
Started(r) == runs[r].st # "idle" \/ \E k \in 1..Len(hist) : hist[k].run = r
DoBegin(r) ==
   /\ model.loaded /\ ~Started(r) /\ \A r2 \in RunIds : r2 < r => Started(r2)
   /\ heap' = Alloc(heap, InputOf(r), "caller")
   /\ LET ins == [n \in {"x"} |-> Len(heap) + 1] IN
      runs' = [runs EXCEPT ![r] = [IdleRun EXCEPT !.st = "running", !.pc = 1, !.stage = "gather", !.ins = ins,
                        !.env = [n \in (DOMAIN params) \cup {"x"} |-> IF n = "x" THEN Len(heap) + 1 ELSE params[n]]]]
   /\ UNCHANGED <<model, params, hist, mid, sched, lock>>
AllStarted == \A r \in RunIds : Started(r)
\* fine-grained: any life-cycle action of any Run
FineStep(r) == AllStarted /\ NodeStep(r) /\ UNCHANGED <<mid, sched, lock>>
\* node-granular: a Run takes the lock at Gather and releases it at Bind; the schedule records who ran each node
SchedStep(r) ==
   /\ AllStarted /\ lock \in {0, r}
   /\ \/ (Gather(r) /\ lock' = (IF runs'[r].st = "failed" THEN 0 ELSE r) /\ sched' = Append(sched, r))
      \/ (Apply(r) /\ lock' = (IF runs'[r].st = "failed" THEN 0 ELSE r) /\ UNCHANGED sched)
      \/ (Bind(r) /\ lock' = 0 /\ UNCHANGED sched)
      \/ (lock = 0 /\ RunEnd(r) /\ UNCHANGED <<lock, sched>>)
   /\ UNCHANGED mid
Finished == AllStarted /\ \A r \in RunIds : runs[r].st \in {"ok", "failed"}
InitsSeq(g) == LET names == SeqOfSet(DOMAIN g.inits) IN [k \in 1..Len(names) |-> [name |-> names[k], t |-> g.inits[names[k]]]]
\* adjacent tokens of different Runs may also be executed at the same time (token 0): emit both variants of every schedule
RECURSIVE Overlap(_)
Overlap(s) == IF Len(s) < 2 THEN s ELSE IF s[1] # s[2] THEN <<0>> \o Overlap(Tail(Tail(s))) ELSE <<s[1]>> \o Overlap(Tail(s))
Emit ==
   /\ Mode = "sched" /\ Finished /\ lock = 0
   /\ \A variant \in {sched, Overlap(sched)} :
        P([prop |-> "C17", fam |-> "schedule", kind |-> "sched", op |-> "", attrs |-> <<>>, inputs |-> <<>>, nout |-> 0, allowed |-> NoCrash,
           cmp |-> "num", known |-> <<>>, feat |-> <<mid, IF 0 \in Range(variant) THEN "overlapped" ELSE "serialized">>,
           x |-> [model |-> [nodes |-> G.nodes, inputs |-> G.inputs, outputs |-> G.outputs, inits |-> InitsSeq(G), opset |-> 13, unnamed |-> (mid = "two_unnamed_constants")],
                  runs |-> [r \in RunIds |-> LET s == RunSem(G, FeedOf(r)) IN
                                              [ins |-> FeedOf(r), allowed |-> IF s.ok THEN MustValue(s.out) ELSE NoCrash]],
                  schedule |-> variant]])
   /\ lock' = -1 /\ UNCHANGED <<vars, mid, sched>>

MCNext == DoLoad \/ (\E r \in RunIds : DoBegin(r)) \/ (\E r \in RunIds : IF Mode = "fine" THEN FineStep(r) ELSE SchedStep(r)) \/ Emit
MCSpec == MCInit /\ [][MCNext]_allvars

\* each Run returns exactly what it returns when executed alone
ConcurrentEqualsSequential ==
   \A r \in RunIds : runs[r].st = "ok" =>
      LET s == RunSem(G, [x |-> InputOf(r)]) IN s.ok /\ [i \in 1..Len(runs[r].res) |-> heap[runs[r].res[i]].t] = s.out
NoRunFails == \A r \in RunIds : runs[r].st # "failed"
WeightsAndCallerTensorsImmutable ==
   [][\A o \in 1..Len(heap) : heap[o].owner \in {"model", "caller"} => heap'[o] = heap[o]]_allvars
=============================================================================
