------------------------------- MODULE MC_C04 -------------------------------
EXTENDS OpLinear, Json, TLC
CONSTANTS Fams, MMRank, MMExt, MMRank5, GemmFull
VARIABLES st

P(c) == PrintT(<<"CASE", ToJson(c)>>)
Tag(a) == IF a.must = "error" THEN "invalid" ELSE a.must
CaseRec(fam, op, attrs, inputs, allowed, feat) ==
   [prop |-> "C04", fam |-> fam, kind |-> "op", op |-> op, attrs |-> attrs, inputs |-> inputs, nout |-> 1,
    allowed |-> allowed, cmp |-> "num", feat |-> feat, known |-> <<>>]

MMShapes == ShapesOf(1..MMRank, 1..MMExt) \cup (IF MMRank5 THEN ShapesOf({5}, 1..2) ELSE {}) \cup ShapesOf({4}, 1..2)
MMFeat(a, b) ==
   (IF Len(a) = 1 \/ Len(b) = 1 THEN <<"vector">> ELSE <<>>) \o
   (IF Len(a) > 2 \/ Len(b) > 2 THEN <<"batched">> ELSE <<>>) \o
   (IF Len(a) # Len(b) /\ Len(a) > 1 /\ Len(b) > 1 THEN <<"rankdiff">> ELSE <<>>) \o
   (IF MatMulValid(a, b) /\ Len(a) > 2 /\ Len(b) > 2 /\ Batch(MMShapeA(a)) # Batch(MMShapeB(b)) THEN <<"batch_broadcast">> ELSE <<>>) \o
   (IF MatMulValid(a, b) /\ (Len(a) > 2 \/ Len(b) > 2) /\ (1 \in Range(Drop(MMShapeA(a), Len(MMShapeA(a)) - 2)) \/ 1 \in Range(Drop(MMShapeB(b), Len(MMShapeB(b)) - 2)))
      THEN <<"unit_matrix_dim_in_batch">> ELSE <<>>)
MatMulCase(a, b, dt) ==
   LET X == Iota(dt, a, 0) Y == Iota(dt, b, 0) s == SemMatMul(X, Y) IN
   [CaseRec("matmul", "MatMul", <<>>, <<X, Y>>, s, <<Tag(s), dt>> \o MMFeat(a, b)) EXCEPT !.known = KnownMatMul(X, Y)]

\* operands whose products and sums need more than the 24 significant bits of a float32 (exact in float64 and in the 64-bit integers,
\* exact as TLC integers): a product formed or accumulated in a narrower type than the declared one shows
WideMatMulCase(dt) ==
   LET X == T(dt, <<2, 3>>, <<4097, -4099, 3, 4101, 5, 4103>>) Y == T(dt, <<3, 2>>, <<4099, 4097, 4105, -4097, 1, 4099>>) s == SemMatMul(X, Y) IN
   [CaseRec("matmul", "MatMul", <<>>, <<X, Y>>, s, <<Tag(s), dt, "products_beyond_24_bits">>) EXCEPT !.known = KnownMatMul(X, Y)]

\* Gemm
AlphaBeta == IF GemmFull
             THEN {<<x, y>> : x \in {Fin(0), Fin(1), Fin(2), Fin(-1), Rat(1, 2)}, y \in {Fin(0), Fin(1), Fin(2), Fin(-1), Rat(1, 2)}}
             ELSE {<<Fin(1), Fin(1)>>, <<Fin(2), Fin(-1)>>, <<Fin(0), Rat(1, 2)>>, <<Rat(1, 2), Fin(0)>>, <<Fin(-1), Fin(2)>>}
CKinds == {"absent", "scalar", "N", "1N", "M1", "MN", "bad", "bad_rank3"}
CShape(kind, M, N) == CASE kind = "scalar" -> <<>> [] kind = "N" -> <<N>> [] kind = "1N" -> <<1, N>> [] kind = "M1" -> <<M, 1>>
                        [] kind = "MN" -> <<M, N>> [] kind = "bad" -> <<N + 1>> [] kind = "bad_rank3" -> <<1, M, N>>
GemmCase(tA, tB, ab, ck, M, K, N, dt, dflt) ==
   LET A == Iota(dt, IF tA THEN <<K, M>> ELSE <<M, K>>, 0)
       B == Iota(dt, IF tB THEN <<N, K>> ELSE <<K, N>>, 0)
       C == IF ck = "absent" THEN Nil ELSE Iota(dt, CShape(ck, M, N), 10)
       attrs == IF dflt THEN <<>> ELSE <<AF("alpha", ab[1]), AF("beta", ab[2]), AI("transA", IF tA THEN 1 ELSE 0), AI("transB", IF tB THEN 1 ELSE 0)>>
       s == SemGemm(A, B, C, attrs)
   IN CaseRec("gemm", "Gemm", attrs, IF ck = "absent" THEN <<A, B>> ELSE <<A, B, C>>, s,
              <<Tag(s), dt, "C_" \o ck>> \o (IF tA THEN <<"transA">> ELSE <<>>) \o (IF tB THEN <<"transB">> ELSE <<>>) \o (IF dflt THEN <<"default_attrs">> ELSE <<>>))
GemmBadInner(dt) ==
   LET A == Iota(dt, <<2, 3>>, 0) B == Iota(dt, <<2, 3>>, 0) s == SemGemm(A, B, Nil, <<>>) IN
   CaseRec("gemm", "Gemm", <<>>, <<A, B>>, s, <<Tag(s), "inner_mismatch">>)

\* magnitudes: alpha * (A * B) with operands whose product is moderate although alpha * A or alpha * B alone leaves the float32
\* range; every factor is a power of two, so the expected element K * 2^(ea + eb + eal) is exact whatever the rounding
Pow2(e) == [c |-> "ord", n |-> (e + 127) * 8388608, d |-> 1]          \* float32 2^e by its ordinal, -126 <= e <= 127
GemmMagCase(K, N, ea, eb, eal, tA, tB) ==
   LET A == T("f32", IF tA THEN <<K, 1>> ELSE <<1, K>>, [k \in 1..K |-> Pow2(ea)])
       B == T("f32", IF tB THEN <<N, K>> ELSE <<K, N>>, [k \in 1..(K * N) |-> Pow2(eb)])
       attrs == <<AF("alpha", Pow2(eal)), AI("transA", IF tA THEN 1 ELSE 0), AI("transB", IF tB THEN 1 ELSE 0)>> IN
   CaseRec("gemm", "Gemm", attrs, <<A, B>>, MustValue(<<T("f32", <<1, N>>, [k \in 1..N |-> Pow2(ea + eb + eal + (K - 1))])>>),
           <<"value", "f32", "magnitudes", IF K < N THEN "K_lt_N" ELSE IF K > N THEN "K_gt_N" ELSE "K_eq_N">>)
GemmMagCases ==
   \A K \in 1..2, N \in 1..2, tA \in BOOLEAN, tB \in BOOLEAN :
      \A e \in {<<100, -120, 40>>, <<-120, 100, 40>>, <<-100, 126, -40>>, <<126, -100, -40>>, <<60, 60, -100>>, <<-70, -70, 120>>} :
         P(GemmMagCase(K, N, e[1], e[2], e[3], tA, tB))

\* an operand that is all zeros (padding, a dead activation vector, an untrained layer): alpha*A*B vanishes, beta*C does not - every
\* pair (alpha, beta), every bias form, transposed or not; zero on the left, on the right, and in the bias
ZeroOperandCases ==
   LET Z(shape) == T("f32", shape, [k \in 1..Size(shape) |-> 0]) IN
   /\ \A tA \in BOOLEAN, tB \in BOOLEAN, ck \in {"absent", "scalar", "N", "M1", "MN"}, which \in {"A", "B", "C", "AB"} :
         \A ab \in {<<x, y>> : x \in {Fin(1), Fin(2), Rat(1, 2)}, y \in {Fin(0), Fin(1), Fin(2), Fin(-1), Rat(1, 2)}} :
            (which = "C" => ck # "absent") =>
            LET M == 2 K == 3 N == 2
                A0 == Iota("f32", IF tA THEN <<K, M>> ELSE <<M, K>>, 1) B0 == Iota("f32", IF tB THEN <<N, K>> ELSE <<K, N>>, 1)
                A == IF which \in {"A", "AB"} THEN Z(A0.shape) ELSE A0
                B == IF which \in {"B", "AB"} THEN Z(B0.shape) ELSE B0
                C == IF ck = "absent" THEN Nil ELSE IF which = "C" THEN Z(CShape(ck, M, N)) ELSE Iota("f32", CShape(ck, M, N), 10)
                attrs == <<AF("alpha", ab[1]), AF("beta", ab[2]), AI("transA", IF tA THEN 1 ELSE 0), AI("transB", IF tB THEN 1 ELSE 0)>>
                s == SemGemm(A, B, C, attrs)
            IN P(CaseRec("gemm", "Gemm", attrs, IF ck = "absent" THEN <<A, B>> ELSE <<A, B, C>>, s, <<Tag(s), "f32", "zero_operand", "zero_" \o which, "C_" \o ck>>))
   /\ \A sh \in {<<<<2, 3>>, <<3, 2>>>>, <<<<3>>, <<3, 2>>>>, <<<<2, 2, 3>>, <<3, 2>>>>} : \A which \in {"A", "B"} :
         LET A == IF which = "A" THEN Z(sh[1]) ELSE Iota("f32", sh[1], 1) B == IF which = "B" THEN Z(sh[2]) ELSE Iota("f32", sh[2], 1) s == SemMatMul(A, B) IN
         P([CaseRec("matmul", "MatMul", <<>>, <<A, B>>, s, <<Tag(s), "f32", "zero_operand", "zero_" \o which>>) EXCEPT !.known = KnownMatMul(A, B)])

\* zero-padding law: additional columns of the left operand and rows of the right one that are all zero contribute nothing to any
\* product. TLC checks on 1 and 2 additional entries that the padded case has the outputs of the case; the harness pads the flagged
\* cases to an inner extent of 16411 - a size at which a library may switch to another strategy.
ZeroPad(t, a, x) == Mk(t.dt, [t.shape EXCEPT ![a + 1] = @ + x], LAMBDA idx : IF idx[a + 1] >= t.shape[a + 1] THEN 0 ELSE At(t, idx))
PadField(aAxis, bAxis) == [ins |-> <<[pos |-> 0, axis |-> aAxis, blocks |-> 1, dim |-> "c"], [pos |-> 1, axis |-> bAxis, blocks |-> 1, dim |-> "c"]>>, outs |-> <<>>, attr |-> ""]
PadLinearCases ==
   /\ \A sh \in {<<<<2, 3>>, <<3, 2>>>>, <<<<2, 2, 3>>, <<3, 2>>>>, <<<<2, 3>>, <<2, 3, 2>>>>} :
         LET A == Iota("f32", sh[1], 1) B == Iota("f32", sh[2], -2) s == SemMatMul(A, B) aAx == Len(sh[1]) - 1 bAx == Len(sh[2]) - 2 IN
         (s.must = "value" /\ KnownMatMul(A, B) = <<>> /\ \A x \in {1, 2} : SemMatMul(ZeroPad(A, aAx, x), ZeroPad(B, bAx, x)) = s) =>
            P(CaseRec("pad", "MatMul", <<>>, <<A, B>>, s, <<"value", "f32", "zero_padding_law">>) @@ [pad |-> PadField(aAx, bAx)])
   /\ \A tA \in BOOLEAN, tB \in BOOLEAN, withC \in BOOLEAN :
         LET A == Iota("f32", IF tA THEN <<3, 2>> ELSE <<2, 3>>, 1) B == Iota("f32", IF tB THEN <<2, 3>> ELSE <<3, 2>>, -2)
             C == IF withC THEN Iota("f32", <<2>>, 10) ELSE Nil
             attrs == <<AF("alpha", Fin(2)), AF("beta", Rat(1, 2)), AI("transA", IF tA THEN 1 ELSE 0), AI("transB", IF tB THEN 1 ELSE 0)>>
             s == SemGemm(A, B, C, attrs) aAx == IF tA THEN 0 ELSE 1 bAx == IF tB THEN 1 ELSE 0 IN
         (s.must = "value" /\ \A x \in {1, 2} : SemGemm(ZeroPad(A, aAx, x), ZeroPad(B, bAx, x), C, attrs) = s) =>
            P(CaseRec("pad", "Gemm", attrs, IF withC THEN <<A, B, C>> ELSE <<A, B>>, s, <<"value", "f32", "zero_padding_law">>) @@ [pad |-> PadField(aAx, bAx)])

\* long operands: a long outer product, a long row of dot products (each of 2 terms), Gemm with a long bias row
LongLinearCases ==
   LET n == 20001 col == T("f32", <<n, 1>>, [k \in 1..n |-> (k % 13) - 6]) row == T("f32", <<1, 2>>, <<3, -2>>)
       wide == T("f32", <<2, n>>, [k \in 1..(2 * n) |-> (k % 11) - 5]) pair == T("f32", <<1, 2>>, <<2, -1>>)
       bias == T("f32", <<n>>, [k \in 1..n |-> (k % 7) - 3]) IN
   /\ P(CaseRec("long", "MatMul", <<>>, <<col, row>>, SemMatMul(col, row), <<"value", "long">>))
   /\ P(CaseRec("long", "MatMul", <<>>, <<pair, wide>>, SemMatMul(pair, wide), <<"value", "long">>))
   /\ P(CaseRec("long", "Gemm", <<>>, <<pair, wide, bias>>, SemGemm(pair, wide, bias, <<>>), <<"value", "long">>))
   /\ P(CaseRec("long", "Gemm", <<AI("transA", 1)>>, <<T("f32", <<1, n>>, col.data), row>>, SemGemm(T("f32", <<1, n>>, col.data), row, Nil, <<AI("transA", 1)>>), <<"value", "long">>))

\* tiling law (Outcome.tla): rows of the left operand are independent; the harness repeats them beyond a million elements
TileEmit(op, attrs, ins, a, S, Sem(_)) ==
   TileLaw(Sem, ins, S) => P(CaseRec("tile", op, attrs, ins, a, <<"value", "tile_law">>) @@ [tile |-> TileField(S)])
TileLinearCases ==
   LET A == T("f32", <<3, 2>>, <<1, -2, 3, 0, -1, 2>>) B == T("f32", <<2, 2>>, <<2, 1, -1, 3>>) v == T("f32", <<2>>, <<3, -2>>)
       A3 == T("f32", <<3, 2, 2>>, [k \in 1..12 |-> (k % 5) - 2]) Cr == T("f32", <<2>>, <<10, 20>>) Cf == T("f32", <<3, 2>>, <<1, 2, 3, 4, 5, 6>>)
       lr == <<AFs("coefficients", <<1, -2, 3, 0>>), AFs("intercepts", <<5, -5>>), AI("targets", 2)>>
       sc == <<AFs("offset", <<1, -1>>), AFs("scale", <<2, 3>>)>> IN
   /\ TileEmit("MatMul", <<>>, <<A, B>>, SemMatMul(A, B), {1}, LAMBDA ins : SemMatMul(ins[1], ins[2]))
   /\ TileEmit("MatMul", <<>>, <<A, v>>, SemMatMul(A, v), {1}, LAMBDA ins : SemMatMul(ins[1], ins[2]))
   /\ TileEmit("MatMul", <<>>, <<A3, B>>, SemMatMul(A3, B), {1}, LAMBDA ins : SemMatMul(ins[1], ins[2]))
   /\ TileEmit("MatMul", <<>>, <<A3, A3>>, SemMatMul(A3, A3), {1, 2}, LAMBDA ins : SemMatMul(ins[1], ins[2]))
   /\ \A attrs \in {<<>>, <<AF("alpha", Fin(2)), AF("beta", Fin(-1))>>, <<AI("transB", 1)>>} :
         /\ TileEmit("Gemm", attrs, <<A, B>>, SemGemm(A, B, Nil, attrs), {1}, LAMBDA ins : SemGemm(ins[1], ins[2], Nil, attrs))
         /\ TileEmit("Gemm", attrs, <<A, B, Cr>>, SemGemm(A, B, Cr, attrs), {1}, LAMBDA ins : SemGemm(ins[1], ins[2], ins[3], attrs))
         /\ TileEmit("Gemm", attrs, <<A, B, Cf>>, SemGemm(A, B, Cf, attrs), {1, 3}, LAMBDA ins : SemGemm(ins[1], ins[2], ins[3], attrs))
   /\ TileEmit("LinearRegressor", lr, <<A>>, SemLinearRegressor(A, lr), {1}, LAMBDA ins : SemLinearRegressor(ins[1], lr))
   /\ TileEmit("Scaler", sc, <<A>>, SemScaler(A, sc), {1}, LAMBDA ins : SemScaler(ins[1], sc))

\* integer operands near the ends of their range: a dot product wraps around (two's complement), it is not saturated or rounded
\* through a wider float; an integer element type may also be refused
WrapCases ==
   \A dt \in {"i32", "i64", "u32", "u64"} :
      LET big == IF dt \in SIntTypes THEN IMaxS ELSE IMaxU
          A == T(dt, <<1, 2>>, <<big, Fin(1)>>) B == T(dt, <<2, 1>>, <<Fin(2), Fin(3)>>)
          A2 == T(dt, <<2, 2>>, <<big, Fin(1), Fin(3), big>>) B2 == T(dt, <<2, 2>>, <<Fin(2), big, Fin(3), Fin(-1)>>)
          dot(a1, b1, a2, b2) == IAdd(IMul(a1, b1), IMul(a2, b2))
          v1 == T(dt, <<1, 1>>, <<dot(big, Fin(2), Fin(1), Fin(3))>>)
          v2 == T(dt, <<2, 2>>, <<dot(big, Fin(2), Fin(1), Fin(3)), dot(big, big, Fin(1), Fin(-1)), dot(Fin(3), Fin(2), big, Fin(3)), dot(Fin(3), big, big, Fin(-1))>>) IN
      /\ P(CaseRec("wrap", "MatMul", <<>>, <<A, B>>, ValueOrError(<<v1>>), <<"value_or_error", dt, "wrap_around">>))
      /\ P(CaseRec("wrap", "MatMul", <<>>, <<A2, B2>>, ValueOrError(<<v2>>), <<"value_or_error", dt, "wrap_around">>))
      /\ P(CaseRec("wrap", "Gemm", <<>>, <<A2, B2>>, ValueOrError(<<v2>>), <<"value_or_error", dt, "wrap_around">>))

\* LinearRegressor: coefficients are distinct small integers
LRCase(N, F, Tg, ik, dt) ==
   LET X == Iota(dt, <<N, F>>, 0)
       coef == [i \in 1..(Tg * F) |-> 2 * i - 5]
       inter == CASE ik = "targets" -> [t \in 1..Tg |-> 10 * t] [] ik = "one" -> <<7>> [] ik = "bad" -> [t \in 1..(Tg + 1) |-> t] [] OTHER -> <<>>
       attrs == <<AFs("coefficients", coef), AI("targets", Tg)>> \o (IF ik = "absent" THEN <<>> ELSE <<AFs("intercepts", inter)>>)
       s == SemLinearRegressor(X, attrs)
   IN CaseRec("linreg", "LinearRegressor", attrs, <<X>>, s, <<Tag(s), dt, "intercepts_" \o ik>>)
LRBad(kind) ==
   LET X == Iota("f32", IF kind = "rank1" THEN <<3>> ELSE <<2, 3>>, 0)
       attrs == CASE kind = "coef_len" -> <<AFs("coefficients", <<1, 2, 3, 4>>), AI("targets", 1), AFs("intercepts", <<1>>)>>
                  [] kind = "rank1"    -> <<AFs("coefficients", <<1, 2, 3>>), AI("targets", 1), AFs("intercepts", <<1>>)>>
                  [] kind = "no_coef"  -> <<AI("targets", 1), AFs("intercepts", <<1>>)>>
       s == SemLinearRegressor(X, attrs)
   IN CaseRec("linreg", "LinearRegressor", attrs, <<X>>, s, <<Tag(s), kind>>)

ScalerCase(shape, ol, sl, dt) ==
   LET X == Iota(dt, shape, 0) F == shape[Len(shape)]
       off == [i \in 1..(IF ol = "F" THEN F ELSE IF ol = "one" THEN 1 ELSE F + 1) |-> i]
       sc == [i \in 1..(IF sl = "F" THEN F ELSE IF sl = "one" THEN 1 ELSE F + 1) |-> 2 * i + 1]
       attrs == <<AFs("offset", off), AFs("scale", sc)>>
       s == SemScaler(X, attrs)
   IN CaseRec("scaler", "Scaler", attrs, <<X>>, s, <<Tag(s), dt, "offset_" \o ol, "scale_" \o sl>>)

Init ==
   \/ ("matmul" \in Fams /\ st \in [fam : {"matmul"}, a : MMShapes, b : MMShapes, done : {FALSE}])
   \/ ("matmul" \in Fams /\ st \in [fam : {"matmul_dt"}, dt : {"f64", "i32", "i64", "u32", "u64"}, done : {FALSE}])
   \/ ("gemm" \in Fams /\ st \in [fam : {"gemm"}, tA : BOOLEAN, tB : BOOLEAN, M : 1..3, K : 1..3, N : 1..3, done : {FALSE}])
   \/ ("linreg" \in Fams /\ st \in [fam : {"linreg"}, N : 1..3, F : 1..3, Tg : 1..3, done : {FALSE}])
   \/ ("scaler" \in Fams /\ st \in [fam : {"scaler"}, shape : ShapesOf(1..3, 1..3), done : {FALSE}])

Emit ==
   /\ ~st.done
   /\ CASE st.fam = "matmul" -> P(MatMulCase(st.a, st.b, "f32"))
        [] st.fam = "matmul_dt" -> \A p \in {<<<<2, 3>>, <<3, 2>>>>, <<<<3>>, <<2, 3, 2>>>>, <<<<2, 1, 2, 3>>, <<3, 3, 1>>>>, <<<<3>>, <<3>>>>, <<<<2, 2>>, <<3, 2>>>>} :
                                      P(MatMulCase(p[1], p[2], st.dt)) /\ (st.dt \in {"f64", "i64"} => P(WideMatMulCase(st.dt)))
        [] st.fam = "gemm" ->
              /\ \A ab \in AlphaBeta, ck \in CKinds : P(GemmCase(st.tA, st.tB, ab, ck, st.M, st.K, st.N, "f32", FALSE))
              /\ (~st.tA /\ ~st.tB => \A ck \in {"absent", "N"} : P(GemmCase(FALSE, FALSE, <<Fin(1), Fin(1)>>, ck, st.M, st.K, st.N, "f32", TRUE)))
              /\ (st.M = 2 /\ st.K = 3 /\ st.N = 2 =>
                    /\ \A dt \in {"f64", "i32", "i64", "u32", "u64"}, ck \in {"absent", "N", "MN"} :
                          P(GemmCase(st.tA, st.tB, <<Fin(2), Fin(-1)>>, ck, 2, 3, 2, dt, FALSE)) /\ P(GemmCase(st.tA, st.tB, <<Fin(1), Fin(1)>>, ck, 2, 3, 2, dt, TRUE))
                    /\ P(GemmBadInner("f32")))
              /\ (st.M = 1 /\ st.K = 1 /\ st.N = 1 /\ ~st.tA /\ ~st.tB => GemmMagCases /\ LongLinearCases /\ TileLinearCases /\ WrapCases /\ ZeroOperandCases /\ PadLinearCases)
        [] st.fam = "linreg" ->
              /\ \A ik \in {"absent", "one", "targets", "bad"} : P(LRCase(st.N, st.F, st.Tg, ik, "f32"))
              /\ (st.N = 2 /\ st.F = 2 => \A dt \in {"f64", "i32", "i64"} : P(LRCase(2, 2, st.Tg, "targets", dt)))
              /\ (st.N = 1 /\ st.F = 1 /\ st.Tg = 1 => \A k \in {"coef_len", "rank1", "no_coef"} : P(LRBad(k)))
        [] st.fam = "scaler" ->
              /\ \A ol \in {"F", "one", "bad"}, sl \in {"F", "one", "bad"} : P(ScalerCase(st.shape, ol, sl, "f32"))
              /\ (Len(st.shape) = 2 => \A dt \in {"f64", "i32", "i64"} : P(ScalerCase(st.shape, "F", "F", dt)))
   /\ st' = [st EXCEPT !.done = TRUE]
Next == Emit
Spec == Init /\ [][Next]_st

\* laws: matmul of 2-D operands is Gemm with alpha=1, no C; the vector cases are the promoted matrix cases reshaped
Laws ==
   st.fam = "matmul" /\ MatMulValid(st.a, st.b) =>
      LET X == Iota("f32", st.a, 0) Y == Iota("f32", st.b, 0) v == MatMulValue(X, Y) IN
      /\ Size(v.shape) = Len(v.data)
      /\ (Len(st.a) = 2 /\ Len(st.b) = 2 => v.data = GemmValue(X, Y, Nil, FALSE, FALSE, Fin(1), Fin(1)).data)
      /\ (Len(st.a) = 1 /\ Len(st.b) >= 2 => v.data = MatMulValue(T("f32", <<1, st.a[1]>>, X.data), Y).data)
=============================================================================
