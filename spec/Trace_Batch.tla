----------------------------- MODULE Trace_Batch -----------------------------
(***************************************************************************)
(* Direction B for C16 (and C02's functional consistency) on the           *)
(* repository's sample models, whose values the specification cannot       *)
(* compute: the recorder runs a batch, then every sample alone, then       *)
(* permuted / sub-selected / repeated compositions, all on one loaded      *)
(* Model; this specification accepts the recorded trace only if every row  *)
(* of every later Run agrees with the row of the same sample in the Batch  *)
(* run (values scaled by 2^16; tolerance 2 + |v|/2^15 units, i.e. float32  *)
(* rounding of differently blocked matrix products).                       *)
(* Events: [ev, model, n, outs, perm, rows] with rows[o][p] the output row *)
(* of position p; perm[p] = index of that sample in the Batch run.         *)
(***************************************************************************)
EXTENDS Integers, Sequences, TLC, Json

Trace == ndJsonDeserialize("trace.ndjson")
VARIABLES l, base
vars == <<l, base>>

AbsI_(x) == IF x < 0 THEN -x ELSE x
Sentinel == 2147483647                      \* non-finite or out-of-range value
\* class codes of the models whose samples hold non-finite features (recorder: classifyNonFinite): NaN, -Inf, +Inf.  A result of
\* one class in one batch composition is of that class in every other; NaN sign and payload are not compared.
ClassCode(a) == a >= 2147483644 /\ a < Sentinel
CloseV(a, b) == /\ a # Sentinel /\ b # Sentinel
                /\ IF ClassCode(a) \/ ClassCode(b) THEN a = b ELSE AbsI_(a - b) <= 2 + (AbsI_(b) \div 32768)
CloseRow(a, b) == Len(a) = Len(b) /\ \A j \in 1..Len(a) : CloseV(a[j], b[j])

Init == l = 1 /\ base = [model |-> "", rows |-> <<>>]
Ev == Trace[l]
TraceBatch ==
   /\ l <= Len(Trace) /\ Ev.ev = "Batch"
   /\ Ev.perm = [p \in 1..Ev.n |-> p]
   /\ \A o \in 1..Len(Ev.rows) : Len(Ev.rows[o]) = Ev.n /\ \A p \in 1..Ev.n : \A j \in 1..Len(Ev.rows[o][p]) : Ev.rows[o][p][j] # Sentinel
   /\ base' = [model |-> Ev.model, rows |-> Ev.rows] /\ l' = l + 1
TraceAgain ==      \* Single / Perm: the same samples in another batch composition
   /\ l <= Len(Trace) /\ Ev.ev \in {"Single", "Perm"} /\ Ev.model = base.model
   /\ Len(Ev.rows) = Len(base.rows)
   /\ \A o \in 1..Len(Ev.rows) :
         /\ Len(Ev.rows[o]) = Ev.n
         /\ \A p \in 1..Ev.n : CloseRow(Ev.rows[o][p], base.rows[o][Ev.perm[p]])
   /\ l' = l + 1 /\ UNCHANGED base
Next == TraceBatch \/ TraceAgain
Spec == Init /\ [][Next]_vars
\* printed once at the end: how many events were explained
Post == PrintT(<<"TRACE", TLCGet("stats").diameter - 1, Len(Trace)>>)
=============================================================================
