-------------------------------- MODULE Interp --------------------------------
(***************************************************************************)
(* The interpreter of model.go as a state machine (C01, C02, C13, C16,     *)
(* C17, C18).                                                              *)
(*                                                                         *)
(*  heap   : ObjId -> [t, owner]   tensor OBJECTS with identity; owner is  *)
(*           "model" (weights), "caller", or a run id (fresh results).     *)
(*           The code passes tensors by reference, and C02 / C17 are       *)
(*           about writes through shared references.                       *)
(*  model  : [loaded, g] with g = [nodes, inputs, outputs, inits]          *)
(*           node = [op, attrs, ins, outs]; inits : name -> tensor         *)
(*  params : name -> ObjId of the weight objects created by Load           *)
(*  runs   : RunId -> [st, pc, stage, env, ins, gathered, produced, res,   *)
(*           err, reads, writes]                                           *)
(*  hist   : completed calls with their observable outcome                 *)
(*                                                                         *)
(* Node life cycle (applyOp): Gather -> Apply -> Bind, one action each, so *)
(* that several Runs interleave at node granularity.                       *)
(* CONSTANT Semantics selects the effect summaries of Apply:               *)
(*   "pure" : operators allocate fresh result objects and write nothing    *)
(*            else (what the properties require);                          *)
(*   "asis" : the effect summaries of the defects found in the code        *)
(*            (in-place reshape of a Conv bias / recurrent initial state / *)
(*            ArgMax input shape), used to let TLC exhibit the violating   *)
(*            histories and schedules.                                     *)
(***************************************************************************)
EXTENDS RunSem

CONSTANTS RunIds, Semantics
VARIABLES heap, model, params, runs, hist
vars == <<heap, model, params, runs, hist>>

NoObj == 0
IdleRun == [st |-> "idle", pc |-> 0, stage |-> "none", env |-> <<>>, ins |-> <<>>, gathered |-> <<>>, produced |-> <<>>,
            res |-> <<>>, err |-> "", reads |-> {}, writes |-> {}]

\* ------------------------------------------------------------- the state machine
Alloc(h, t, owner) == Append(h, [t |-> t, owner |-> owner])           \* heap is a sequence; ObjId = index
TVal(o) == IF o = NoObj THEN Nil ELSE heap[o].t

Init == heap = <<>> /\ model = [loaded |-> FALSE] /\ params = <<>> /\ runs = [r \in RunIds |-> IdleRun] /\ hist = <<>>

\* Load: every initializer becomes one weight object shared by all Runs
RECURSIVE AllocAll(_, _, _)
AllocAll(h, names, inits) ==       \* names: sequence; -> [heap, ids]
   IF names = <<>> THEN [heap |-> h, ids |-> <<>>]
   ELSE LET rest == AllocAll(Alloc(h, inits[Head(names)], "model"), Tail(names), inits) IN
        [heap |-> rest.heap, ids |-> <<Len(h) + 1>> \o rest.ids]
Load(g) ==
   /\ ~model.loaded
   /\ LET names == SeqOfSet(DOMAIN g.inits) a == AllocAll(heap, names, g.inits) IN
      /\ heap' = a.heap
      /\ params' = [n \in DOMAIN g.inits |-> a.ids[CHOOSE i \in 1..Len(names) : names[i] = n]]
   /\ model' = [loaded |-> TRUE, g |-> g]
   /\ UNCHANGED <<runs, hist>>

\* the caller creates an input object
NewInput(t) == heap' = Alloc(heap, t, "caller") /\ UNCHANGED <<model, params, runs, hist>>

\* the caller refills a tensor it owns (same element type and shape, other contents) while no Run is using it
CallerWrite(o, t) ==
   /\ o \in 1..Len(heap) /\ heap[o].owner = "caller"
   /\ \A r \in RunIds : runs[r].st # "running" \/ \A n \in DOMAIN runs[r].ins : runs[r].ins[n] # o
   /\ t.dt = heap[o].t.dt /\ t.shape = heap[o].t.shape
   /\ heap' = [heap EXCEPT ![o].t = t]
   /\ UNCHANGED <<model, params, runs, hist>>

\* the caller gives a tensor it owns another shape in place (same object, same elements) while no Run is using it
CallerReshape(o, shape) ==
   /\ o \in 1..Len(heap) /\ heap[o].owner = "caller"
   /\ \A r \in RunIds : runs[r].st # "running" \/ \A n \in DOMAIN runs[r].ins : runs[r].ins[n] # o
   /\ Size(shape) = Size(heap[o].t.shape)
   /\ heap' = [heap EXCEPT ![o].t.shape = shape]
   /\ UNCHANGED <<model, params, runs, hist>>

\* RunBegin: validateShapes, then the per-Run environment (a new map; the tensors in it are shared references)
RunBegin(r, ins) ==        \* ins : name -> ObjId of caller objects
   /\ model.loaded /\ runs[r].st = "idle"
   /\ LET g == model.g  shapes == [n \in DOMAIN ins |-> heap[ins[n]].t.shape] IN
      IF Accept(g.inputs, DOMAIN g.inits, shapes)
      THEN runs' = [runs EXCEPT ![r] = [IdleRun EXCEPT !.st = "running", !.pc = 1, !.stage = "gather", !.ins = ins,
                        !.env = [n \in (DOMAIN params) \cup (DOMAIN ins) |-> IF n \in DOMAIN ins THEN ins[n] ELSE params[n]]]]
      ELSE runs' = [runs EXCEPT ![r] = [IdleRun EXCEPT !.st = "failed", !.ins = ins, !.err = "rejected"]]
   /\ UNCHANGED <<heap, model, params, hist>>

Node(r) == model.g.nodes[runs[r].pc]
Fail(r, e) == runs' = [runs EXCEPT ![r].st = "failed", ![r].err = e, ![r].stage = "none", ![r].reads = {}, ![r].writes = {}]

\* as-is effect summaries (defect models): input positions an operator reshapes in place
AsIsWrites(n) == CASE n.op = "Conv" -> (IF Len(n.ins) >= 3 THEN {3} ELSE {})
                   [] n.op \in {"RNN", "GRU"} -> (IF Len(n.ins) >= 6 THEN {6} ELSE {})
                   [] n.op = "LSTM" -> {i \in {6, 7} : Len(n.ins) >= i}
                   [] n.op = "ArgMax" -> (IF AttrV(n.attrs, "keepdims", 1) # 0 THEN {1} ELSE {})
                   [] OTHER -> {}
AsIsEffect(n, i, t) ==       \* the tensor object after the operator has run
   CASE n.op = "Conv" -> [t EXCEPT !.shape = <<1, t.shape[1]>> \o [k \in 1..(Len(t.shape) + 1) |-> 1]]
     [] n.op \in {"RNN", "GRU", "LSTM"} -> [t EXCEPT !.shape = Tail(t.shape)]
     [] n.op = "ArgMax" -> LET a == NormAxis(AttrV(n.attrs, "axis", 0), Len(t.shape)) IN [t EXCEPT !.shape = [t.shape EXCEPT ![a + 1] = 1]]
     [] OTHER -> t

Gather(r) ==
   /\ runs[r].st = "running" /\ runs[r].stage = "gather" /\ runs[r].pc <= Len(model.g.nodes)
   /\ LET n == Node(r) env == runs[r].env IN
      IF n.op \notin SupportedOps THEN Fail(r, "UnsupportedOperator")
      ELSE IF ~Known_(env, n.ins) THEN Fail(r, "Model")
      ELSE LET objs == [i \in 1..Len(n.ins) |-> IF n.ins[i] = "" THEN NoObj ELSE env[n.ins[i]]] IN
           runs' = [runs EXCEPT ![r].gathered = objs, ![r].stage = "apply",
                                ![r].reads = {objs[i] : i \in 1..Len(objs)} \ {NoObj},
                                ![r].writes = IF Semantics = "asis" THEN {objs[i] : i \in AsIsWrites(n)} \ {NoObj} ELSE {}]
   /\ UNCHANGED <<heap, model, params, hist>>

Apply(r) ==
   /\ runs[r].st = "running" /\ runs[r].stage = "apply"
   /\ LET n == Node(r) objs == runs[r].gathered
          a == NodeSem(n.op, n.attrs, [i \in 1..Len(objs) |-> TVal(objs[i])], Len(n.outs)) IN
      IF a.must # "value" THEN Fail(r, "Operator") /\ UNCHANGED heap
      ELSE LET h1 == IF Semantics = "asis"
                     THEN [o \in 1..Len(heap) |-> IF \E i \in AsIsWrites(n) : i <= Len(objs) /\ objs[i] = o
                                                   THEN [heap[o] EXCEPT !.t = AsIsEffect(n, CHOOSE i \in AsIsWrites(n) : i <= Len(objs) /\ objs[i] = o, heap[o].t)]
                                                   ELSE heap[o]]
                     ELSE heap
               RECURSIVE AllocOuts(_, _)
               AllocOuts(h, vals) == IF vals = <<>> THEN h ELSE AllocOuts(Alloc(h, Head(vals), "run"), Tail(vals))
               h2 == AllocOuts(h1, a.value)
           IN /\ heap' = h2
              /\ runs' = [runs EXCEPT ![r].produced = [i \in 1..Len(a.value) |-> Len(h1) + i], ![r].stage = "bind"]
   /\ UNCHANGED <<model, params, hist>>

Bind(r) ==
   /\ runs[r].st = "running" /\ runs[r].stage = "bind"
   /\ LET n == Node(r) IN
      IF Len(n.outs) > Len(runs[r].produced) THEN Fail(r, "Model")
      ELSE runs' = [runs EXCEPT ![r].env = BindVals(runs[r].env, n.outs, runs[r].produced), ![r].pc = runs[r].pc + 1,
                                ![r].stage = "gather", ![r].gathered = <<>>, ![r].produced = <<>>, ![r].reads = {}, ![r].writes = {}]
   /\ UNCHANGED <<heap, model, params, hist>>

RunEnd(r) ==
   /\ runs[r].st = "running" /\ runs[r].stage = "gather" /\ runs[r].pc > Len(model.g.nodes)
   /\ LET g == model.g env == runs[r].env IN
      IF \E i \in 1..Len(g.outputs) : g.outputs[i] \notin DOMAIN env THEN Fail(r, "Model")
      ELSE runs' = [runs EXCEPT ![r].st = "ok", ![r].stage = "none", ![r].res = [i \in 1..Len(g.outputs) |-> env[g.outputs[i]]]]
   /\ UNCHANGED <<heap, model, params, hist>>

\* the caller collects the result (or error) of a finished Run; the Run slot becomes free again
Collect(r) ==
   /\ runs[r].st \in {"ok", "failed"}
   /\ hist' = Append(hist, [run |-> r, ins |-> runs[r].ins, ok |-> runs[r].st = "ok", err |-> runs[r].err, resobjs |-> runs[r].res,
                            invals |-> [n \in DOMAIN runs[r].ins |-> heap[runs[r].ins[n]].t],
                            out |-> [i \in 1..Len(runs[r].res) |-> heap[runs[r].res[i]].t]])
   /\ runs' = [runs EXCEPT ![r] = IdleRun]
   /\ UNCHANGED <<heap, model, params>>

NodeStep(r) == Gather(r) \/ Apply(r) \/ Bind(r) \/ RunEnd(r)

\* ------------------------------------------------------------- properties
\* values of the caller objects a Run was started with (callers' objects are immutable under "pure", so reading them late is sound)
InsVals(ins) == [n \in DOMAIN ins |-> heap[ins[n]].t]
Dataflow ==
   \A r \in RunIds : runs[r].st = "ok" =>
      LET s == RunSem(model.g, InsVals(runs[r].ins)) IN
      s.ok /\ [i \in 1..Len(runs[r].res) |-> heap[runs[r].res[i]].t] = s.out
FailureIsSpecified ==
   \A r \in RunIds : runs[r].st = "failed" => ~RunSem(model.g, InsVals(runs[r].ins)).ok
OutputsComplete ==
   \A r \in RunIds : runs[r].st = "ok" => Len(runs[r].res) = Len(model.g.outputs) /\ \A i \in 1..Len(runs[r].res) : runs[r].res[i] # NoObj
\* objects that are not owned by a Run never change (weights and caller tensors)
SharedImmutable ==
   [][\A o \in 1..Len(heap) : heap[o].owner \in {"model", "caller"} => heap'[o] = heap[o]]_vars
\* no Run in flight writes an object another Run in flight reads or writes
NoConflict ==
   \A r1, r2 \in RunIds : r1 # r2 => runs[r1].writes \cap (runs[r2].reads \cup runs[r2].writes) = {}
\* a Run's result objects are its own: nothing shared leaks out as a result unless it is a pure pass-through of an input
=============================================================================
