SPECIFICATION SpecMC
CONSTANTS
  Mode = "gate"
  SingletonInstances = FALSE
  MaxSteps = 0
CHECK_DEADLOCK FALSE
