------------------------------- MODULE MC_C12 -------------------------------
EXTENDS Decode, Json, TLC, FiniteSets
CONSTANTS MaxRank
VARIABLES st
P(c) == PrintT(<<"CASE", ToJson(c)>>)
Types == {"f32", "f64", "i8", "i16", "i32", "i64", "u8", "u16", "u32", "u64", "bool"}
CodeOf(dt) == CHOOSE c \in SupportedCodes : DTypeOfCode(c) = dt
\* element bit patterns of width w: zero, one, all ones (-1 / UMAX), MIN, MAX, NaN with payload / arbitrary, -0, subnormal, mixed
Pat(k, w) == CASE k = 0 -> [i \in 1..w |-> 0]
               [] k = 1 -> [i \in 1..w |-> IF i = 1 THEN 1 ELSE 0]
               [] k = 2 -> [i \in 1..w |-> 255]
               [] k = 3 -> [i \in 1..w |-> IF i = w THEN 128 ELSE 0]
               [] k = 4 -> [i \in 1..w |-> IF i = w THEN 127 ELSE 255]
               [] k = 5 -> [i \in 1..w |-> IF i = 1 THEN 1 ELSE IF i = w THEN 127 ELSE IF i = w - 1 THEN (IF w = 4 THEN 192 ELSE 248) ELSE 0]
               [] k = 6 -> [i \in 1..w |-> (17 * i + 3) % 256]
               [] k = 7 -> [i \in 1..w |-> IF i = w THEN 191 ELSE IF i = w - 1 THEN 240 ELSE 0]
NPat == 8
ElemOf(dt, k) == IF dt = "bool" THEN <<k % 2>> ELSE Pat(k % NPat, Width(dt))
\* carrier image of an element for the typed field: sign/zero filled high bytes (both occur in practice)
Carrier(dt, e, fill) == LET cw == CarrierWidth(FieldOf(dt)) IN [i \in 1..cw |-> IF i <= Len(e) THEN e[i] ELSE fill]
Flatten(seqs) == LET w == Len(seqs[1]) IN [n \in 1..(Len(seqs) * w) |-> seqs[((n - 1) \div w) + 1][((n - 1) % w) + 1]]

Shapes == {<<>>, <<1>>, <<3>>, <<2, 2>>, <<1, 3, 1>>, <<2, 1, 2, 1>>}
LenVariants == {"exact", "empty", "byte_short", "elem_short", "byte_long", "elem_long"}

Proto(dt, dims, enc, nElems, off, extraBytes, fill) ==
   LET es == [k \in 1..nElems |-> ElemOf(dt, k + off)] IN
   [code |-> CodeOf(dt), dims |-> dims, enc |-> enc, field |-> IF enc = "typed" THEN FieldOf(dt) ELSE "none",
    raw |-> IF enc = "raw" THEN (IF nElems = 0 THEN <<>> ELSE Flatten(es)) \o extraBytes ELSE <<>>,
    vals |-> IF enc = "typed" THEN [k \in 1..nElems |-> Carrier(dt, es[k], IF dt = "bool" THEN 0 ELSE fill)] ELSE <<>>]
CaseOf(tp, feat) ==
   [prop |-> "C12", fam |-> "decode", kind |-> "decode", op |-> "", attrs |-> <<>>, inputs |-> <<>>, nout |-> 1,
    allowed |-> DecodeAllowed(tp), cmp |-> "rawbits", feat |-> feat \o <<DecodeAllowed(tp).must>>, known |-> KnownDecode(tp), x |-> tp]

Cases(dt, dims) ==
   LET n == Size(dims) w == Width(dt) IN
   /\ \A enc \in {"raw", "typed"}, off \in {0, 3}, fill \in {0, 255} :
         (enc = "typed" \/ fill = 0) =>
            /\ P(CaseOf(Proto(dt, dims, enc, n, off, <<>>, fill), <<dt, enc, "exact">>))
            /\ (n >= 1 => P(CaseOf(Proto(dt, dims, enc, n - 1, off, <<>>, fill), <<dt, enc, "elem_short">>)))
            /\ P(CaseOf(Proto(dt, dims, enc, n + 1, off, <<>>, fill), <<dt, enc, "elem_long">>))
            /\ P(CaseOf(Proto(dt, dims, enc, 0, off, <<>>, fill), <<dt, enc, "empty">>))
   /\ (w > 1 => /\ P(CaseOf(Proto(dt, dims, "raw", n, 0, <<7>>, 0), <<dt, "raw", "byte_long">>))
                /\ (n >= 1 => P(CaseOf([Proto(dt, dims, "raw", n, 0, <<>>, 0) EXCEPT !.raw = Take(@, Len(@) - 1)], <<dt, "raw", "byte_short">>))))
   /\ (w = 1 => P(CaseOf(Proto(dt, dims, "raw", n, 0, <<1>>, 0), <<dt, "raw", "byte_long">>)))
   \* both encodings populated: the typed field wins (ONNX allows only one; the library's choice is part of the spec)
   /\ P(CaseOf([Proto(dt, dims, "typed", n, 0, <<>>, 0) EXCEPT !.raw = Flatten([k \in 1..(n + 1) |-> ElemOf(dt, k + 1)])], <<dt, "typed", "both_fields">>))
   /\ (Len(dims) >= 1 => P(CaseOf([Proto(dt, dims, "raw", n, 0, <<>>, 0) EXCEPT !.dims = [dims EXCEPT ![1] = -dims[1]]], <<dt, "raw", "negative_dim">>)))
   /\ (Len(dims) >= 1 => P(CaseOf([Proto(dt, [dims EXCEPT ![1] = 0], "raw", 0, 0, <<>>, 0) EXCEPT !.dims = [dims EXCEPT ![1] = 0]], <<dt, "raw", "zero_dim">>)))
   \* a zero extent with a payload that is not empty: one element, and one element followed by a stray byte
   /\ (Len(dims) >= 1 => /\ P(CaseOf(Proto(dt, [dims EXCEPT ![1] = 0], "raw", 1, 0, <<>>, 0), <<dt, "raw", "zero_dim", "one_element_payload">>))
                         /\ P(CaseOf(Proto(dt, [dims EXCEPT ![1] = 0], "raw", 1, 0, <<9>>, 0), <<dt, "raw", "zero_dim", "ragged_payload">>))
                         /\ P(CaseOf(Proto(dt, [dims EXCEPT ![1] = 0], "typed", 1, 0, <<>>, 0), <<dt, "typed", "zero_dim", "one_element_payload">>)))
   \* every non-empty subset of the dims negated (an even number of negative dims has the positive product of the payload)
   /\ \A neg \in (SUBSET (1..Len(dims))) \ {{}} :
         \A enc \in {"raw", "typed"} :
            P(CaseOf([Proto(dt, dims, enc, n, 0, <<>>, 0) EXCEPT !.dims = [i \in 1..Len(dims) |-> IF i \in neg THEN -dims[i] ELSE dims[i]]],
                     <<dt, enc, "negative_dims", "negated_" \o ToString(Cardinality(neg))>>))
   \* a negative dim next to a zero dim, empty payload
   /\ P(CaseOf([Proto(dt, <<0>> \o dims, "raw", 0, 0, <<>>, 0) EXCEPT !.dims = <<-1, 0>> \o dims], <<dt, "raw", "negative_and_zero_dim">>))
   \* dims whose product wraps around 2^64 to exactly the payload's element count: 2^32 * 2^32 * dims = 0 (mod 2^64) with an empty payload,
   \* 274177 * 67280421310721 * dims = (2^64 + 1) * n = n (mod 2^64) with n elements
   /\ \A enc \in {"raw", "typed"} :
         /\ P(CaseOf(Proto(dt, <<1, 1>> \o dims, enc, 0, 0, <<>>, 0) @@ [bigdims |-> <<<<0, 0, 1>>, <<0, 0, 1>>>>], <<dt, enc, "dims_product_overflow", "wraps_to_0">>))
         /\ P(CaseOf(Proto(dt, <<274177, 1>> \o dims, enc, n, 0, <<>>, 0) @@ [bigdims |-> <<<<>>, <<53505, 61852, 15664>>>>], <<dt, enc, "dims_product_overflow", "wraps_to_n">>))
         /\ P(CaseOf(Proto(dt, dims \o <<1, 274177>>, enc, n, 0, <<>>, 0) @@ [bigdims |-> [i \in 1..(Len(dims) + 1) |-> IF i = Len(dims) + 1 THEN <<53505, 61852, 15664>> ELSE <<>>]],
                      <<dt, enc, "dims_product_overflow", "wraps_to_n_trailing">>))
   \* element counts that fit an int although count * element width wraps around 2^64 onto the byte length of the payload:
   \* 2^61 + n elements of 8 bytes, 2^62 + n of 4, 2^60 + n (no wrap) - with a payload of n elements
   /\ (n >= 1 /\ n < 65536 => \A enc \in {"raw", "typed"}, top \in {4096, 8192, 16384} :
         P(CaseOf(Proto(dt, <<1>>, enc, n, 0, <<>>, 0) @@ [bigdims |-> <<<<n, 0, 0, top>>>>], <<dt, enc, "byte_size_overflow", "top" \o ToString(top)>>)))
   \* raw bool bytes other than 0 and 1
   /\ (dt = "bool" /\ n >= 1 =>
         \A b \in {2, 128, 255} :
            P(CaseOf([Proto(dt, dims, "raw", n, 0, <<>>, 0) EXCEPT !.raw = [k \in 1..n |-> IF k % 3 = 1 THEN b ELSE IF k % 3 = 2 THEN 0 ELSE 1]], <<dt, "raw", "noncanonical_bool_bytes">>)))

\* every other data_type code with each typed field populated (and raw)
OtherCodes == {0, 8, 10, 14, 15, 16, 17, -1, 99}
Fields == {"float_data", "int32_data", "int64_data", "double_data", "uint64_data"}
OtherCases(code) ==
   /\ \A f \in Fields :
         P(CaseOf([code |-> code, dims |-> <<2>>, enc |-> "typed", field |-> f, raw |-> <<>>,
                   vals |-> [k \in 1..2 |-> [i \in 1..CarrierWidth(f) |-> IF i = 1 THEN k ELSE 0]]], <<"other_code", f>>))
   /\ P(CaseOf([code |-> code, dims |-> <<2>>, enc |-> "raw", field |-> "none", raw |-> <<1, 0, 0, 0, 2, 0, 0, 0>>, vals |-> <<>>], <<"other_code", "raw">>))
\* a supported type whose payload sits in a typed field ONNX does not allow for it
WrongField(dt) ==
   \A f \in Fields \ {FieldOf(dt)} :
      P(CaseOf([code |-> CodeOf(dt), dims |-> <<2>>, enc |-> "typed", field |-> f, raw |-> <<>>,
                vals |-> [k \in 1..2 |-> [i \in 1..CarrierWidth(f) |-> IF i = 1 THEN k ELSE 0]]], <<dt, "wrong_field", f>>))

\* long payloads (block-wise readers): 520, 2 x 300 and 40003 elements, raw and typed, exact and one element short
LongCases(dt) ==
   \A dims \in {<<520>>, <<2, 300>>} \cup (IF dt \in {"f32", "i64", "u8"} THEN {<<40003>>} ELSE {}), enc \in {"raw", "typed"} :
      /\ P(CaseOf(Proto(dt, dims, enc, Size(dims), 0, <<>>, 0), <<dt, enc, "long_payload", "exact">>))
      /\ P(CaseOf(Proto(dt, dims, enc, Size(dims) - 1, 0, <<>>, 0), <<dt, enc, "long_payload", "elem_short">>))
\* a graph holds many weights: each is decoded or refused on its own, and one refusal (or five, or seventeen) refuses the model -
\* the load returns with an error however many of the weights are malformed, and with the weights when none is
GraphCases(dt) ==
   LET good(k) == Proto(dt, <<1 + (k % 3)>>, IF k % 2 = 0 THEN "raw" ELSE "typed", 1 + (k % 3), k, <<>>, 0)
       short(k) == Proto(dt, <<2 + (k % 3)>>, IF k % 2 = 0 THEN "raw" ELSE "typed", 1 + (k % 3), k, <<>>, 0)
       LoadCase(ps, expect, feat) ==
          [prop |-> "C12", fam |-> "graph", kind |-> "load", op |-> "", attrs |-> <<>>, inputs |-> <<>>, nout |-> 0, allowed |-> NoCrash, cmp |-> "num", known |-> <<>>,
           feat |-> <<dt, "graph_of_weights", expect>> \o feat,
           x |-> [opsets |-> <<[domain |-> "", version |-> 13, w |-> 0]>>, inits |-> [i \in 1..Len(ps) |-> [name |-> "w" \o ToString(i), p |-> ps[i]]], nograph |-> FALSE,
                  nodes |-> <<[op |-> "Relu", attrs |-> <<>>, ins |-> <<"x">>, outs |-> <<"y">>]>>, perturb |-> "none", expect |-> expect, errc |-> <<>>]]
   IN \A m \in {2, 5, 6, 9, 17} :
         /\ P(LoadCase([i \in 1..m |-> good(i)], "ok", <<"all_good", "weights_" \o ToString(m)>>))
         /\ P(LoadCase([i \in 1..m |-> short(i)], "error", <<"all_malformed", "weights_" \o ToString(m)>>))
         /\ P(LoadCase([i \in 1..(2 * m) |-> IF i % 2 = 0 THEN short(i) ELSE good(i)], "error", <<"every_other_malformed", "weights_" \o ToString(2 * m)>>))
         /\ P(LoadCase([i \in 1..m |-> IF i = m THEN short(i) ELSE good(i)], "error", <<"last_malformed", "weights_" \o ToString(m)>>))
Init == \/ st \in [fam : {"types"}, dt : Types, dims : {s \in Shapes : Len(s) <= MaxRank}, done : {FALSE}]
        \/ st \in [fam : {"long"}, dt : Types, done : {FALSE}]
        \/ st \in [fam : {"other"}, code : OtherCodes, done : {FALSE}]
        \/ st \in [fam : {"wrongfield"}, dt : Types, done : {FALSE}]
Emit == /\ ~st.done
        /\ CASE st.fam = "types" -> Cases(st.dt, st.dims)
             [] st.fam = "long" -> LongCases(st.dt) /\ GraphCases(st.dt)
             [] st.fam = "other" -> OtherCases(st.code)
             [] st.fam = "wrongfield" -> WrongField(st.dt)
        /\ st' = [st EXCEPT !.done = TRUE]
Next == Emit
Spec == Init /\ [][Next]_st
\* law: chunking then flattening is the identity on well-sized payloads
Laws == st.fam = "types" => LET p == Proto(st.dt, st.dims, "raw", Size(st.dims), 0, <<>>, 0) IN
                            Size(st.dims) = 0 \/ Flatten(Chunk(p.raw, Width(st.dt))) = p.raw
=============================================================================
