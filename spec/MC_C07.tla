------------------------------- MODULE MC_C07 -------------------------------
(***************************************************************************)
(* C07 case generator (BFS exhaustive over the bounded spaces below).      *)
(***************************************************************************)
EXTENDS OpShape, Json, TLC
CONSTANTS Fams,            \* subset of {"reshape","flatten","squeeze","unsqueeze","shape","dtypes"}
          MaxRank, MaxExt, Rank5,      \* input shapes: rank 0..MaxRank extents 1..MaxExt (+ rank 5 extents 1..2 if Rank5)
          ReshapeRank, ReshapeLen,     \* Reshape: inputs of rank <= ReshapeRank, targets of length <= ReshapeLen
          AxesLen                      \* Squeeze/Unsqueeze: axes lists of length <= AxesLen
VARIABLES st

InShapes == ShapesOf(0..MaxRank, 1..MaxExt) \cup (IF Rank5 THEN ShapesOf({5}, 1..2) ELSE {})
TargetVals == {-2, -1, 0, 1, 2, 3, 4, 6}
Targets == UNION {[1..n -> TargetVals] : n \in 0..ReshapeLen}
I64(seq) == T("i64", <<Len(seq)>>, seq)

CaseRec(fam, op, attrs, inputs, allowed, feat) ==
   [prop |-> "C07", fam |-> fam, kind |-> "op", op |-> op, attrs |-> attrs, inputs |-> inputs, nout |-> 1,
    allowed |-> allowed, cmp |-> "bits", feat |-> feat, known |-> <<>>]

Outcome(a) == IF a.must = "error" THEN "invalid" ELSE "valid"

ReshapeCase(shape, target) ==
   LET X == Iota("f32", shape, 0) S == I64(target) a == SemReshape(X, S) IN
   CaseRec("reshape", "Reshape", <<>>, <<X, S>>, a,
           <<Outcome(a)>> \o (IF 0 \in Range(target) THEN <<"zero">> ELSE <<>>) \o (IF -1 \in Range(target) THEN <<"minus1">> ELSE <<>>))
ReshapeScalarShapeCase(shape, v) ==
   LET X == Iota("f32", shape, 0) S == T("i64", <<>>, <<v>>) a == SemReshape(X, S) IN
   CaseRec("reshape", "Reshape", <<>>, <<X, S>>, a, <<"scalar_shape_tensor", Outcome(a)>>)
FlattenCase(shape, axis, dflt) ==
   LET X == Iota("f32", shape, 0) a == SemFlatten(X, axis) IN
   CaseRec("flatten", "Flatten", IF dflt THEN <<>> ELSE <<AI("axis", axis)>>, <<X>>, a,
           <<Outcome(a)>> \o (IF axis < 0 THEN <<"negative_axis">> ELSE <<>>) \o (IF dflt THEN <<"default_axis">> ELSE <<>>))
SqueezeCase(shape, axes, absent) ==
   LET X == Iota("f32", shape, 0) A == IF absent THEN Nil ELSE I64(axes) a == SemSqueeze(X, A) IN
   CaseRec("squeeze", "Squeeze", <<>>, IF absent THEN <<X>> ELSE <<X, A>>, a,
           <<Outcome(a)>> \o (IF absent THEN <<"axes_absent">> ELSE <<>>)
           \o (IF ~absent /\ ~Injective([i \in 1..Len(axes) |-> NormAxis(axes[i], Len(shape))]) THEN <<"duplicate">> ELSE <<>>)
           \o (IF ~absent /\ \E i \in 1..Len(axes) : ~AxisOK(axes[i], Len(shape)) THEN <<"out_of_range">> ELSE <<>>))
UnsqueezeCase(shape, axes) ==
   LET X == Iota("f32", shape, 0) A == I64(axes) a == SemUnsqueeze(X, A) IN
   CaseRec("unsqueeze", "Unsqueeze", <<>>, <<X, A>>, a,
           <<Outcome(a)>> \o (IF \E i \in 1..Len(axes) : axes[i] < 0 THEN <<"negative_axis">> ELSE <<>>)
           \o (IF Len(axes) > 1 /\ axes[1] > axes[2] THEN <<"unsorted">> ELSE <<>>))
ShapeCase(shape, dt) == LET X == Iota(dt, shape, 0) IN CaseRec("shape", "Shape", <<>>, <<X>>, SemShape(X), <<dt>>)

\* dtype sweep: element order must be preserved for every element type
DtShapes == {<<2, 3>>, <<1, 2, 1, 2>>}
DtypeCasesX(dt, X) ==
   <<CaseRec("dtypes", "Reshape", <<>>, <<X, I64(<<-1, 2>>)>>, SemReshape(X, I64(<<-1, 2>>)), <<dt>>),
     CaseRec("dtypes", "Flatten", <<AI("axis", -1)>>, <<X>>, SemFlatten(X, -1), <<dt>>),
     CaseRec("dtypes", "Squeeze", <<>>, <<X>>, SemSqueeze(X, Nil), <<dt>>),
     CaseRec("dtypes", "Unsqueeze", <<>>, <<X, I64(<<0, -1>>)>>, SemUnsqueeze(X, I64(<<0, -1>>)), <<dt>>),
     CaseRec("dtypes", "Shape", <<>>, <<X>>, SemShape(X), <<dt>>)>>
DtypeCases(dt, shape) == DtypeCasesX(dt, Iota(dt, shape, 0))
\* the operators move bit patterns: NaN, infinities, the sign of zero and extreme integers arrive unchanged (compared bit for bit)
SpecialValueXs ==
   {T(dt, <<2, 3>>, <<NZ, NaN, PInf, NInf, FMax, Fin(0)>>) : dt \in {"f32", "f64"}} \cup
   {T(dt, <<2, 3>>, <<IMinS, IMaxS, Fin(-1), Fin(0), Sym(1, 1), Sym(1, -2)>>) : dt \in {"i8", "i64"}} \cup
   {T(dt, <<2, 3>>, <<IMaxU, Sym(1, 0), Fin(0), Sym(1, -1), Fin(-2), Fin(1)>>) : dt \in {"u8", "u64"}}

AxisVals(r) == (-(r + 1))..r
AxesLists(r, n) == UNION {[1..k -> AxisVals(r)] : k \in 1..n}

P(c) == PrintT(<<"CASE", ToJson(c)>>)
\* an axis value at the edge of the 64-bit range is out of range for every tensor: refused, whatever arithmetic the check uses
ExtremeAxisCases(shape) ==
   \A k \in 1..Len(ExtremeI64) : LET e == ExtremeI64[k] X == Iota("f32", shape, 0) IN
      /\ P(CaseRec("flatten", "Flatten", <<AI("axis", e)>>, <<X>>, MustError, <<"invalid", "extreme_axis">>))
      /\ P(CaseRec("squeeze", "Squeeze", <<>>, <<X, T("i64", <<1>>, <<e>>)>>, MustError, <<"invalid", "extreme_axis">>))
      /\ P(CaseRec("unsqueeze", "Unsqueeze", <<>>, <<X, T("i64", <<1>>, <<e>>)>>, MustError, <<"invalid", "extreme_axis">>))
      /\ (Len(shape) >= 1 => P(CaseRec("squeeze", "Squeeze", <<>>, <<X, T("i64", <<2>>, <<Fin(0), e>>)>>, MustError, <<"invalid", "extreme_axis">>)))

\* long tensors (an element count that is no multiple of a block size): every element is carried over, in order
LongN == 40003
LongCases ==
   LET X == Iota("f32", <<LongN>>, 0) X2 == Iota("i64", <<1, LongN, 1>>, 0) IN
   /\ \A tg \in {<<1, -1>>, <<-1, 1, 1>>, <<LongN>>, <<0, 1>>} : P(CaseRec("long", "Reshape", <<>>, <<X, I64(tg)>>, SemReshape(X, I64(tg)), <<"valid", "long">>))
   /\ \A ax \in {0, 1, -1, 2} : P(CaseRec("long", "Flatten", <<AI("axis", ax)>>, <<X2>>, SemFlatten(X2, ax), <<"valid", "long">>))
   /\ P(CaseRec("long", "Squeeze", <<>>, <<X2>>, SemSqueeze(X2, Nil), <<"valid", "long">>))
   /\ P(CaseRec("long", "Squeeze", <<>>, <<X2, I64(<<-1>>)>>, SemSqueeze(X2, I64(<<-1>>)), <<"valid", "long">>))
   /\ P(CaseRec("long", "Unsqueeze", <<>>, <<X, I64(<<0, 2>>)>>, SemUnsqueeze(X, I64(<<0, 2>>)), <<"valid", "long">>))
   /\ P(CaseRec("long", "Shape", <<>>, <<X2>>, SemShape(X2), <<"valid", "long">>))

\* rank-5 operands (the quantifier's upper rank; shape slices of 5 entries are the first whose copies have spare capacity)
Rank5Cases ==
   LET X == Iota("f32", <<2, 3, 4, 1, 2>>, 0) Y == Iota("f32", <<2, 1, 2, 1, 2>>, 0) IN
   /\ \A ax \in {<<2>>, <<0, 3>>, <<-1>>, <<5>>, <<1, 1>>, <<0>>} : LET a == SemUnsqueeze(X, I64(ax)) IN P(CaseRec("unsqueeze", "Unsqueeze", <<>>, <<X, I64(ax)>>, a, <<Outcome(a), "rank5">>))
   /\ \A ax \in {<<1>>, <<3, 1>>, <<-2>>, <<0>>} : LET a == SemSqueeze(Y, I64(ax)) IN P(CaseRec("squeeze", "Squeeze", <<>>, <<Y, I64(ax)>>, a, <<Outcome(a), "rank5">>))
   /\ LET a == SemSqueeze(Y, Nil) IN P(CaseRec("squeeze", "Squeeze", <<>>, <<Y>>, a, <<Outcome(a), "rank5">>))
   /\ \A ax \in {0, 2, 5, -1, -5} : LET a == SemFlatten(X, ax) IN P(CaseRec("flatten", "Flatten", <<AI("axis", ax)>>, <<X>>, a, <<Outcome(a), "rank5">>))
   /\ \A tg \in {<<0, 0, -1>>, <<-1>>, <<0, 3, 4, 1, 2>>, <<6, 0, 2, 2>>} : LET a == SemReshape(X, I64(tg)) IN P(CaseRec("reshape", "Reshape", <<>>, <<X, I64(tg)>>, a, <<Outcome(a), "rank5">>))
   /\ P(CaseRec("shape", "Shape", <<>>, <<X>>, SemShape(X), <<"valid", "rank5">>))
\* very many axes (an output of rank 66 and more): still any set of valid axes, duplicates still refused - also beyond position 64
ManyAxesCases ==
   LET X == Iota("f32", <<3>>, 0) base == [i \in 1..65 |-> i - 1] IN
   \A ax \in {base, base \o <<64>>, base \o <<-3>>, base \o <<-2>>, base \o <<65>>, base \o <<70>>, [i \in 1..65 |-> 65 - i]} :
      LET a == SemUnsqueeze(X, I64(ax)) IN P(CaseRec("unsqueeze", "Unsqueeze", <<>>, <<X, I64(ax)>>, a, <<Outcome(a), "many_axes">>))
\* tiling law (Outcome.tla): the leading axis is carried through; the harness repeats the operand beyond a million elements
TileEmit(op, attrs, ins, a, Sem(_)) ==
   TileLaw(Sem, ins, {1}) => P(CaseRec("tile", op, attrs, ins, a, <<"valid", "tile_law">>) @@ [tile |-> TileField({1})])
TileShapeCases ==
   LET X == Iota("f32", <<3, 2, 2>>, 0) Y == Iota("i64", <<3, 4>>, 0) Z == Iota("f32", <<3, 1, 2>>, 0) W == Iota("f32", <<3, 2>>, 0) IN
   /\ \A ax \in {1, 2, -1, 3} : TileEmit("Flatten", <<AI("axis", ax)>>, <<X>>, SemFlatten(X, ax), LAMBDA ins : SemFlatten(ins[1], ax))
   /\ \A tg \in {<<0, 2, 2>>, <<0, -1>>, <<-1, 4>>, <<-1, 2>>, <<0, 4, 1>>} : TileEmit("Reshape", <<>>, <<Y, I64(tg)>>, SemReshape(Y, I64(tg)), LAMBDA ins : SemReshape(ins[1], ins[2]))
   /\ TileEmit("Squeeze", <<>>, <<Z>>, SemSqueeze(Z, Nil), LAMBDA ins : SemSqueeze(ins[1], Nil))
   /\ \A ax \in {<<1>>, <<-2>>} : TileEmit("Squeeze", <<>>, <<Z, I64(ax)>>, SemSqueeze(Z, I64(ax)), LAMBDA ins : SemSqueeze(ins[1], ins[2]))
   /\ \A ax \in {<<1>>, <<-1>>, <<1, 3>>, <<2, 1>>} : TileEmit("Unsqueeze", <<>>, <<W, I64(ax)>>, SemUnsqueeze(W, I64(ax)), LAMBDA ins : SemUnsqueeze(ins[1], ins[2]))

Init ==
   \/ ("reshape" \in Fams /\ st \in [fam : {"reshape"}, shape : {s \in InShapes : Len(s) <= ReshapeRank}, target : Targets, done : {FALSE}])
   \/ ("reshape" \in Fams /\ st \in [fam : {"reshape0"}, shape : {s \in InShapes : Len(s) <= 2}, v : TargetVals \cup {5}, done : {FALSE}])
   \/ ("flatten" \in Fams /\ st \in [fam : {"flatten"}, shape : InShapes, axis : -6..6, done : {FALSE}])
   \/ ("squeeze" \in Fams /\ st \in [fam : {"squeeze"}, shape : InShapes, done : {FALSE}])
   \/ ("unsqueeze" \in Fams /\ st \in [fam : {"unsqueeze"}, shape : {s \in InShapes : Len(s) + 1 <= 5}, done : {FALSE}])
   \/ ("shape" \in Fams /\ st \in [fam : {"shape"}, shape : InShapes, done : {FALSE}])
   \/ ("dtypes" \in Fams /\ st \in [fam : {"dtypes"}, dt : AllDTypes, shape : DtShapes, done : {FALSE}])


Emit ==
   /\ ~st.done
   /\ CASE st.fam = "reshape"  -> P(ReshapeCase(st.shape, st.target))
        [] st.fam = "reshape0" -> P(ReshapeScalarShapeCase(st.shape, st.v))
        [] st.fam = "flatten"  -> (st.axis \in AxisVals(Len(st.shape) + 1) => P(FlattenCase(st.shape, st.axis, FALSE)))
                                  /\ (st.axis = 1 => P(FlattenCase(st.shape, 1, TRUE)))
        [] st.fam = "squeeze"  -> /\ P(SqueezeCase(st.shape, <<>>, TRUE))
                                  /\ \A axes \in AxesLists(Len(st.shape), AxesLen) : P(SqueezeCase(st.shape, axes, FALSE))
        [] st.fam = "unsqueeze" -> \A axes \in AxesLists(Len(st.shape) + 1, MinI(AxesLen, 5 - Len(st.shape))) :
                                      (Len(axes) > 1 => Range(axes) \subseteq AxisVals(Len(st.shape) + Len(axes))) => P(UnsqueezeCase(st.shape, axes))
        [] st.fam = "shape"    -> P(ShapeCase(st.shape, "f32")) /\ (Len(st.shape) <= 2 => ExtremeAxisCases(st.shape)) /\ (st.shape = <<>> => LongCases /\ TileShapeCases /\ ManyAxesCases /\ Rank5Cases /\ \A X \in SpecialValueXs : \A i \in 1..5 : P(DtypeCasesX(X.dt \o "_special", X)[i]))
        [] st.fam = "dtypes"   -> \A i \in 1..5 : P(DtypeCases(st.dt, st.shape)[i])
   /\ st' = [st EXCEPT !.done = TRUE]
Next == Emit
Spec == Init /\ [][Next]_st

\* laws of the definitions (design level)
Laws ==
   /\ (st.fam = "squeeze" =>
         \* Unsqueeze then Squeeze of the same axes is the identity on shapes
         \A ax \in AxisVals(Len(st.shape)) :
            UnsqueezeValid(st.shape, <<ax>>) =>
               LET u == UnsqueezeShape(st.shape, <<ax>>) IN
               SqueezeAxesValid(u, <<ax>>) /\ DropAxes(u, {NormAxis(ax, Len(u))}) = st.shape)
   /\ (st.fam = "reshape" /\ ReshapeValid(st.target, st.shape) => Size(ReshapeShape(st.target, st.shape)) = Size(st.shape))
   /\ (st.fam = "flatten" /\ st.axis \in -Len(st.shape)..Len(st.shape) =>
         LET a == SemFlatten(Iota("f32", st.shape, 0), st.axis) IN Size(a.value[1].shape) = Size(st.shape))
=============================================================================
