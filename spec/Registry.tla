------------------------------ MODULE Registry ------------------------------
(***************************************************************************)
(* The operator registry as a state machine (C15, C01): every lookup       *)
(* constructs a fresh instance with the constructor's default attribute    *)
(* state; Init writes the attribute state of that instance only.           *)
(* SingletonInstances = TRUE models the classic breakage (instances cached *)
(* per name); TLC then finds the FreshInstances counterexample.            *)
(***************************************************************************)
EXTENDS OpShape, OpIndex, OpRecurrent, OpLinear
CONSTANTS SingletonInstances, MaxSteps
VARIABLES insts,     \* sequence of [name, obj, attrs]: one entry per lookup; obj = identity of the operator object
          objs,      \* obj id -> attribute state (what Init wrote last)
          hist       \* the steps taken, with the outcome each Apply must have
vars == <<insts, objs, hist>>

\* operator templates whose attribute state is observable through Apply
Templates ==
   {[name |-> "Flatten",   attrs |-> <<AI("axis", 0)>>], [name |-> "Flatten",   attrs |-> <<AI("axis", 2)>>], [name |-> "Flatten", attrs |-> <<>>],
    [name |-> "Transpose", attrs |-> <<AIs("perm", <<1, 0, 2>>)>>], [name |-> "Transpose", attrs |-> <<AIs("perm", <<2, 1, 0>>)>>],
    [name |-> "Gather",    attrs |-> <<AI("axis", 1)>>], [name |-> "Gather", attrs |-> <<>>],
    \* a list-valued attribute with a default: explicit activations on one instance, the defaults (sigmoid, tanh) on another
    [name |-> "GRU", attrs |-> <<AI("hidden_size", 1), ASs("activations", <<"relu", "relu">>)>>], [name |-> "GRU", attrs |-> <<AI("hidden_size", 1)>>],
    \* scalar attributes with ONNX defaults: one node spells alpha and transB out, another relies on the defaults
    [name |-> "Gemm", attrs |-> <<AF("alpha", Fin(2)), AI("transB", 1)>>], [name |-> "Gemm", attrs |-> <<>>]}
Names == {t.name : t \in Templates}
ProbeX == Iota("f32", <<2, 2, 3>>, 0)
ProbeI == T("i64", <<1>>, <<1>>)
\* GRU probe in the saturation regime: z = f(-2048) = 0 for sigmoid and relu alike, h~ = g(2048) = 1 (tanh) or 2048 (relu), H = (1 - z) h~
GruX == T("f32", <<1, 1, 1>>, <<2048>>)
GruW == T("f32", <<1, 3, 1>>, <<-1, 1, 1>>)
GruR == T("f32", <<1, 3, 1>>, <<0, 0, 0>>)
GemmA == T("f32", <<2, 2>>, <<1, 2, 3, 4>>)
GemmB == T("f32", <<2, 2>>, <<1, -1, 2, 5>>)
ProbeInputs(name) == IF name = "Gather" THEN <<ProbeX, ProbeI>> ELSE IF name = "GRU" THEN <<GruX, GruW, GruR>>
                     ELSE IF name = "Gemm" THEN <<GemmA, GemmB>> ELSE <<ProbeX>>
SemOf(name, attrs) ==
   CASE name = "Flatten"   -> SemFlatten(ProbeX, AttrV(attrs, "axis", 1))
     [] name = "Transpose" -> SemTranspose(ProbeX, attrs)
     [] name = "Gather"    -> SemGather(ProbeX, ProbeI, attrs)
     [] name = "Gemm"      -> SemGemm(GemmA, GemmB, Nil, attrs)
     \* a GRU that was never initialised has no hidden_size: only "no crash" is required of it
     [] name = "GRU"       -> IF attrs = <<>> THEN NoCrash ELSE SemRecurrent("GRU", attrs, <<GruX, GruW, GruR>>, 2).allowed
\* attribute state after Init(attrs) on a state old: Init only overwrites what the node carries
InitState(name, old, attrs) == IF attrs = <<>> THEN old ELSE attrs

Init == insts = <<>> /\ objs = <<>> /\ hist = <<>>

Lookup(name) ==
   /\ Len(hist) < MaxSteps
   /\ LET reuse == SingletonInstances /\ \E i \in 1..Len(insts) : insts[i].name = name
          obj == IF reuse THEN insts[CHOOSE i \in 1..Len(insts) : insts[i].name = name].obj ELSE Len(objs) + 1
      IN /\ insts' = Append(insts, [name |-> name, obj |-> obj])
         /\ objs' = IF reuse THEN objs ELSE Append(objs, <<>>)
   /\ hist' = Append(hist, [act |-> "lookup", name |-> name])

\* as in model.go, an instance is initialised once, right after its lookup (re-Init is not part of the interface contract)
InitOp(i, attrs) ==
   /\ Len(hist) < MaxSteps
   /\ ~\E k \in 1..Len(hist) : hist[k].act = "init" /\ hist[k].inst = i
   /\ objs' = [objs EXCEPT ![insts[i].obj] = InitState(insts[i].name, objs[insts[i].obj], attrs)]
   /\ hist' = Append(hist, [act |-> "init", inst |-> i, attrs |-> attrs])
   /\ UNCHANGED insts

\* the attribute state instance i SHOULD have: what was written through instance i itself
Own(i) == LET mine == SelectSeq(hist, LAMBDA h : h.act = "init" /\ h.inst = i /\ h.attrs # <<>>)
          IN IF Len(mine) = 0 THEN <<>> ELSE mine[Len(mine)].attrs

ApplyObs(i) ==
   /\ Len(hist) < MaxSteps
   /\ hist' = Append(hist, [act |-> "apply", inst |-> i, inputs |-> ProbeInputs(insts[i].name),
                            allowed |-> SemOf(insts[i].name, Own(i))])
   /\ UNCHANGED <<insts, objs>>

Next ==
   \/ \E n \in Names : Lookup(n)
   \/ \E i \in 1..Len(insts) : \E t \in Templates : t.name = insts[i].name /\ InitOp(i, t.attrs)
   \/ \E i \in 1..Len(insts) : ApplyObs(i)
Spec == Init /\ [][Next]_vars

\* no operator object is handed out by two lookups
FreshInstances == \A i, j \in 1..Len(insts) : i # j => insts[i].obj # insts[j].obj
\* the state an Apply on instance i observes is the one written through instance i
OwnState == \A i \in 1..Len(insts) : objs[insts[i].obj] = Own(i)
=============================================================================
