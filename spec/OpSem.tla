-------------------------------- MODULE OpSem --------------------------------
(***************************************************************************)
(* Dispatch: operator type x attributes x gathered inputs -> the outcome   *)
(* the ONNX definition allows (DESIGN 5.1).  Glue between the interpreter  *)
(* (Interp.tla), the trace specifications and the operator modules.        *)
(* Element convention at this level: plain integers (ids) - every operator *)
(* of the catalogue is exact on them.                                      *)
(***************************************************************************)
EXTENDS OpShape, OpIndex, OpConv, OpRecurrent, OpReduce, OpConst

\* integer-valued elementwise fragment (same broadcasting as OpElementwise, elements are plain integers)
IntBinOps == {"Add", "Sub", "Mul"}
IntBin(op, a, b) == CASE op = "Add" -> a + b [] op = "Sub" -> a - b [] op = "Mul" -> a * b
SemIntBinary(op, A, B) ==
   IF A.dt # B.dt THEN NoCrash
   ELSE IF ~BCompat(A.shape, B.shape) THEN MustError
   ELSE MustValue(<<Mk(A.dt, BShape(A.shape, B.shape),
                       LAMBDA idx : IntBin(op, At(A, BIndex(idx, A.shape)), At(B, BIndex(idx, B.shape))))>>)
IntUnary(op, v) == CASE op = "Relu" -> (IF v > 0 THEN v ELSE 0) [] op = "Abs" -> (IF v < 0 THEN -v ELSE v)
SemIntUnary(op, A) == MustValue(<<T(A.dt, A.shape, [k \in 1..Len(A.data) |-> IntUnary(op, A.data[k])])>>)

\* comparisons of integer-valued tensors and logic on boolean tensors (results are boolean tensors)
IntCmpOps == {"Equal", "Less", "LessOrEqual", "Greater", "GreaterOrEqual"}
IntCmp(op, a, b) == CASE op = "Equal" -> a = b [] op = "Less" -> a < b [] op = "LessOrEqual" -> a <= b [] op = "Greater" -> a > b [] op = "GreaterOrEqual" -> a >= b
BoolLogicOps == {"And", "Or", "Xor"}
BoolLogic(op, a, b) == CASE op = "And" -> a /\ b [] op = "Or" -> a \/ b [] op = "Xor" -> a # b
SemBoolResult(A, B, F(_, _)) ==
   IF A.dt # B.dt THEN NoCrash
   ELSE IF ~BCompat(A.shape, B.shape) THEN MustError
   ELSE MustValue(<<Mk("bool", BShape(A.shape, B.shape), LAMBDA idx : F(At(A, BIndex(idx, A.shape)), At(B, BIndex(idx, B.shape))))>>)
SemIntCompare(op, A, B) == SemBoolResult(A, B, LAMBDA a, b : IntCmp(op, a, b))
SemBoolLogic(op, A, B) == IF A.dt # "bool" THEN NoCrash ELSE SemBoolResult(A, B, LAMBDA a, b : BoolLogic(op, a, b))
SemNot(A) == IF A.dt # "bool" THEN NoCrash ELSE MustValue(<<T("bool", A.shape, [k \in 1..Len(A.data) |-> ~A.data[k]])>>)

\* PRelu on integer-valued tensors: slope * x for x < 0, x otherwise; the slope is stretched to the shape of x only
SemIntPRelu(X, S) ==
   IF X.dt # S.dt THEN MustError
   ELSE IF ~UCompat(X.shape, S.shape) THEN MustError
   ELSE MustValue(<<Mk(X.dt, X.shape, LAMBDA idx : LET x == At(X, idx) IN IF x < 0 THEN At(S, BIndex(idx, S.shape)) * x ELSE x)>>)

SupportedOps ==
   {"Abs", "Acos", "Acosh", "Add", "And", "ArgMax", "Asin", "Asinh", "Atan", "Atanh", "Cast", "Concat", "Constant", "ConstantOfShape",
    "Conv", "Cos", "Cosh", "Div", "Equal", "Expand", "Flatten", "GRU", "Gather", "Gemm", "Greater", "GreaterOrEqual", "LSTM", "Less",
    "LessOrEqual", "LinearRegressor", "LogSoftmax", "MatMul", "Mul", "Not", "Or", "PRelu", "RNN", "ReduceMax", "ReduceMin", "Relu",
    "Reshape", "Scaler", "Shape", "Sigmoid", "Sin", "Sinh", "Slice", "Softmax", "Squeeze", "Sub", "Tan", "Tanh", "Transpose",
    "Unsqueeze", "Xor"}

\* operators whose semantics this module dispatches (the program generators draw from these)
Catalogue == {"Add", "Sub", "Mul", "Relu", "Abs", "Gemm", "MatMul", "Flatten", "Transpose", "Concat", "Reshape", "Squeeze", "Unsqueeze",
              "Shape", "Slice", "Gather", "Expand", "Constant", "Conv", "RNN", "GRU", "LSTM", "ReduceMax", "ReduceMin", "ArgMax", "Scaler", "LinearRegressor",
              "Equal", "Less", "LessOrEqual", "Greater", "GreaterOrEqual", "And", "Or", "Xor", "Not", "PRelu"}

In_(inputs, i) == IF i <= Len(inputs) THEN inputs[i] ELSE Nil
SliceIntsOf(inputs) ==
   LET n == Len(inputs[2].data)
       axes == IF IsNil(In_(inputs, 4)) THEN [i \in 1..n |-> i - 1] ELSE inputs[4].data
       steps == IF IsNil(In_(inputs, 5)) THEN [i \in 1..n |-> 1] ELSE inputs[5].data
   IN SemSliceInts(inputs[1], inputs[2].data, inputs[3].data, axes, steps)

\* element types for which the properties demand a computed result; for any other accepted type the operator may refuse
AllTypes == {"f32", "f64", "i8", "i16", "i32", "i64", "u8", "u16", "u32", "u64", "bool"}
CoreTypes(op) ==
   CASE op \in IntBinOps \cup IntCmpOps -> {"f32", "f64", "i32", "i64"}
     [] op \in {"Relu", "Abs", "PRelu"} -> {"f32", "f64"}
     [] op \in {"Gemm", "MatMul", "Scaler", "LinearRegressor", "RNN", "GRU", "LSTM"} -> {"f32"}
     [] op = "Conv" -> {"f32", "f64"}
     [] op \in {"ReduceMax", "ReduceMin", "ArgMax"} -> {"f32", "f64", "i32", "i64"}
     [] OTHER -> AllTypes
\* nout: number of outputs the node declares (matters only for multi-output operators)
NodeSem0(op, attrs, inputs, nout) ==
   CASE op \in IntBinOps   -> SemIntBinary(op, inputs[1], inputs[2])
     [] op \in {"Relu", "Abs"} -> SemIntUnary(op, inputs[1])
     [] op \in IntCmpOps   -> SemIntCompare(op, inputs[1], inputs[2])
     [] op \in BoolLogicOps -> SemBoolLogic(op, inputs[1], inputs[2])
     [] op = "Not"       -> SemNot(inputs[1])
     [] op = "PRelu"     -> SemIntPRelu(inputs[1], inputs[2])
     [] op = "Gemm"      -> SemGemm(inputs[1], inputs[2], In_(inputs, 3), attrs)
     [] op = "MatMul"    -> SemMatMul(inputs[1], inputs[2])
     [] op = "Flatten"   -> SemFlatten(inputs[1], AttrV(attrs, "axis", 1))
     [] op = "Transpose" -> SemTranspose(inputs[1], attrs)
     [] op = "Concat"    -> SemConcat(inputs, attrs)
     [] op = "Reshape"   -> SemReshape(inputs[1], inputs[2])
     [] op = "Squeeze"   -> SemSqueeze(inputs[1], In_(inputs, 2))
     [] op = "Unsqueeze" -> SemUnsqueeze(inputs[1], inputs[2])
     [] op = "Shape"     -> SemShape(inputs[1])
     [] op = "Slice"     -> SliceIntsOf(inputs)
     [] op = "Gather"    -> SemGather(inputs[1], inputs[2], attrs)
     [] op = "Expand"    -> SemExpand(inputs[1], inputs[2])
     [] op = "Constant"  -> SemConstant(attrs)
     [] op = "Conv"      -> SemConv(inputs[1], inputs[2], In_(inputs, 3), attrs)
     [] op \in {"RNN", "GRU", "LSTM"} -> SemRecurrent(op, attrs, inputs, nout).allowed
     [] op \in {"ReduceMax", "ReduceMin"} -> SemReduce(op, inputs[1], attrs)
     [] op = "ArgMax"    -> SemArgMax(inputs[1], attrs)
     [] op = "Scaler"    -> SemScaler(inputs[1], attrs)
     [] op = "LinearRegressor" -> SemLinearRegressor(inputs[1], attrs)
NodeSem(op, attrs, inputs, nout) ==
   Weaken(Len(inputs) >= 1 /\ ~IsNil(inputs[1]) /\ inputs[1].dt \notin CoreTypes(op), NodeSem0(op, attrs, inputs, nout))
=============================================================================
