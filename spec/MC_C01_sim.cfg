SPECIFICATION Spec
CONSTANTS
  MaxNodes = 5
  FinishAtMax = TRUE
  TplFilter = "all"
  Supplied = FALSE
CHECK_DEADLOCK FALSE
