SPECIFICATION Spec
CONSTANTS
  Seed = 1
  RandomStrings = 2000
INVARIANT UnknownAlwaysRefused
CHECK_DEADLOCK FALSE
